#!/venv/bin/python
"""Regenerates pta/selftest/variants.json from (a) the reversal of every fix:
commit in /repo and (b) the confirmed seeded changes under /verif/seeded, and
records for each which checks fire on it *now* (that is the regression
expectation).  Maintenance tool, not used by any check."""
import json, os, re, subprocess, sys, shutil, tempfile
from pathlib import Path
sys.path.insert(0, "/verif")
V = Path("/verif")

def sh(c, **kw): return subprocess.run(c, shell=True, capture_output=True, text=True, **kw)

def trim_context(edits, keep):
    """drop leading/trailing lines common to old and new, keeping ``keep`` of them"""
    out = []
    for e in edits:
        o, n = e["old"].splitlines(keepends=True), e["new"].splitlines(keepends=True)
        a = 0
        while a < len(o) and a < len(n) and o[a] == n[a]:
            a += 1
        b = 0
        while b < len(o) - a and b < len(n) - a and o[-1 - b] == n[-1 - b]:
            b += 1
        lo = max(0, a - keep)
        hi_o, hi_n = len(o) - max(0, b - keep), len(n) - max(0, b - keep)
        out.append({"file": e["file"], "old": "".join(o[lo:hi_o]), "new": "".join(n[lo:hi_n])})
    return out


def hunks(diff, reverse=False):
    """-> list of {file, old, new} from a unified diff (old = text present before applying)"""
    out = []; cur = None; f = None
    for line in diff.splitlines():
        if line.startswith("+++ b/"):
            f = line[6:]
        elif line.startswith("@@"):
            cur = {"file": f, "old": [], "new": []}; out.append(cur)
        elif cur is not None and not line.startswith(("diff ", "index ", "--- ", "+++ ", "\\ ")):
            tag, txt = line[:1], line[1:]
            if tag == " ":
                cur["old"].append(txt); cur["new"].append(txt)
            elif tag == "-":
                cur["old"].append(txt)
            elif tag == "+":
                cur["new"].append(txt)
    edits = []
    for h in out:
        o, n = "\n".join(h["old"]) + "\n", "\n".join(h["new"]) + "\n"
        if reverse: o, n = n, o
        edits.append({"file": h["file"], "old": o, "new": n})
    return edits

variants = []
for line in sh("git -C /repo log --format='%h %s' --grep '^fix:'").stdout.splitlines():
    sha, subj = line.split(" ", 1)
    # smallest context with which the reversal still applies to today's tree
    # (later fixes next to an earlier one change its context lines)
    from pta.selftest.runner import _apply as _ap
    edits = None
    for ctx in (3, 1, 0):
        d = sh(f"git -C /repo show {sha} --format= -U{ctx}").stdout
        e = hunks(d, reverse=True)
        tmp = Path(tempfile.mkdtemp(prefix="pta-gen-"))
        try:
            for h in e:
                (tmp / h["file"]).parent.mkdir(parents=True, exist_ok=True)
                shutil.copy("/repo/" + h["file"], tmp / h["file"])
            if _ap(tmp, e):
                edits = e
                break
        finally:
            shutil.rmtree(tmp, ignore_errors=True)
    variants.append({"name": f"unfix-{sha}", "kind": "break", "what": "reverts: " + subj,
                     "edits": edits if edits is not None else e})
for sd in sorted((V / "seeded").iterdir()):
    if not (sd / "patch.diff").exists(): continue
    e0 = hunks((sd / "patch.diff").read_text())
    edits = e0
    from pta.selftest.runner import _apply as _ap2
    for keep in (3, 1, 0):
        e = trim_context(e0, keep)
        if any(not x["old"].strip() for x in e):
            continue
        tmp = Path(tempfile.mkdtemp(prefix="pta-gen-"))
        try:
            for h in e:
                (tmp / h["file"]).parent.mkdir(parents=True, exist_ok=True)
                if Path("/repo/" + h["file"]).exists():
                    shutil.copy("/repo/" + h["file"], tmp / h["file"])
            unique = all(Path("/repo/" + h["file"]).exists()
                         and Path("/repo/" + h["file"]).read_text().count(h["old"]) == 1
                         for h in e)
            if unique and _ap2(tmp, e):
                edits = e
                break
        finally:
            shutil.rmtree(tmp, ignore_errors=True)
    variants.append({"name": f"seed-{sd.name}", "kind": "break",
                     "what": json.load(open(sd / "meta.json")).get("summary", ""),
                     "edits": edits})

from pta.selftest.extra_variants import EXTRA
variants += [dict(v) for v in EXTRA]

props = [c["property_id"] for c in json.load(open(V / "MANIFEST.json"))["checks"]]
from pta.selftest.runner import _apply
def fired_props(v):
    tmp = Path(tempfile.mkdtemp(prefix="pta-gen-"))
    try:
        shutil.copytree("/repo/pytato", tmp / "pytato", ignore=shutil.ignore_patterns("__pycache__"))
        if not _apply(tmp, v["edits"]): return None
        out = []
        for p in props:
            r = sh(f"cd /verif && /venv/bin/python -m pta.check {p} --repo {tmp} --no-evidence")
            if r.returncode == 1: out.append(p)
        return out
    finally:
        shutil.rmtree(tmp, ignore_errors=True)
from concurrent.futures import ThreadPoolExecutor
with ThreadPoolExecutor(16) as ex:
    res = list(ex.map(fired_props, variants))
keep = []
for v, fp in zip(variants, res):
    if fp is None:
        print("STALE (edits do not apply):", v["name"]); continue
    v["props"] = fp
    print(v["name"], "->", fp or "MISSED")
    keep.append(v)
json.dump({"_comment": "generated by tools/gen_selftest.py; props = checks that fire on the variant (regression expectation); variants with empty props are documented misses",
           "variants": keep}, open(V / "pta/selftest/variants.json", "w"), indent=1)
# benign refactorings from independent sub-agents -> passing twins
benign = []
bdir = V / "benign"
if bdir.exists():
    for sd in sorted(bdir.iterdir()):
        if not (sd / "patch.diff").exists():
            continue
        if json.load(open(sd / "meta.json")).get("confirmed_by_me", {}).get("unresolved"):
            continue        # a documented, unresolved false alarm: no passing twin
        e0 = hunks((sd / "patch.diff").read_text())
        edits = None
        for nctx in (3, 1, 0):
            e = trim_context(e0, nctx)
            if any(not x["old"].strip() for x in e):
                continue
            tmp = Path(tempfile.mkdtemp(prefix="pta-gen-"))
            try:
                for h in e:
                    (tmp / h["file"]).parent.mkdir(parents=True, exist_ok=True)
                    if Path("/repo/" + h["file"]).exists():
                        shutil.copy("/repo/" + h["file"], tmp / h["file"])
                if _ap2(tmp, e):
                    edits = e
                    break
            finally:
                shutil.rmtree(tmp, ignore_errors=True)
        if edits is None:
            print("STALE benign (edits do not apply):", sd.name)
            continue
        benign.append({"name": f"benign-{sd.name}", "kind": "twin",
                       "what": json.load(open(sd / "meta.json")).get("summary", ""),
                       "props": props, "edits": edits})
json.dump({"_comment": "generated by tools/gen_selftest.py from /verif/benign/*: behaviour-"
           "preserving refactorings written by independent sub-agents; passing twins",
           "variants": benign}, open(V / "pta/selftest/benign.json", "w"), indent=1)
print(len(benign), "benign twins")
# record in seeded/*/meta.json
for v in keep:
    if v["name"].startswith("seed-"):
        mp = V / "seeded" / v["name"][5:] / "meta.json"
        m = json.load(open(mp)); m["caught_by_checks"] = v["props"]; json.dump(m, open(mp, "w"), indent=1)
