"""Hand-written per-property notes for DESIGN.md section 5 (the rule texts,
counts, findings and seeded changes are generated from the rule files,
evidence and tables by tools/build_design.py)."""

TITLE = {
    "C01": "loopy code generation computes what NumPy computes",
    "C02": "lowering to index lambdas preserves meaning",
    "C03": "eager shape/dtype, agreeing with NumPy",
    "C04": "equality and hashing are a sound structural congruence",
    "C05": "transformations preserve outputs and never mutate their input",
    "C06": "algebraic einsum rewrites never change the value",
    "C07": "tags carry no semantics; implementation strategies are equivalent",
    "C08": "partitioned execution terminates and is faithful in all schedules",
    "C09": "every partition is well-formed and ranks agree",
    "C10": "mismatched or cyclic communication is diagnosed",
    "C11": "generated kernels are memory-safe",
    "C12": "outlining and inlining are inverse and value-preserving",
    "C13": "cached mappers visit once, preserve sharing, reach every child",
    "C14": "Python (NumPy-like / JAX) code generation",
    "C15": "names in generated code",
    "C16": "symbolic shapes",
    "C17": "process independence of generated artefacts",
    "C18": "persistent hash keys",
    "C19": "raising an index lambda never misreads it",
    "C20": "graph analyses agree with the graph and with each other",
}

SCOPE = {
    "C01": "claimed, partial",
    "C02": "claimed, partial",
    "C03": "claimed, structural clauses only",
    "C04": "claimed",
    "C05": "claimed, partial",
    "C06": "claimed, partial (one clause exact)",
    "C07": "claimed, partial",
    "C08": "not applicable",
    "C09": "claimed, narrow",
    "C10": "claimed, narrow",
    "C11": "not applicable",
    "C12": "claimed, partial",
    "C13": "claimed",
    "C14": "claimed, partial",
    "C15": "claimed, partial",
    "C16": "claimed, narrow",
    "C17": "claimed",
    "C18": "claimed, partial",
    "C19": "claimed, partial",
    "C20": "claimed",
}

NOTES = {
    "C01": """
The value clause ("the generated kernel computes what NumPy computes") is not
decided: it is a statement about executing generated code. What is decided are
the clauses whose truth is in the shape of the code: the dispatch tables are
total over the supported fragment, the producer/consumer tables agree (reduction
names against loopy's own `_REDUCTION_OPS`, read from the installed loopy source;
function name spaces emitted by `pytato.cmath` against the branches of
`map_call`, prefix slices against prefix lengths), constructors are handed what
their own assertions demand, and nothing order-dependent happens between the
user's dictionaries and the emitted kernel. Reviewed exemptions: 6 unordered
iterations in code generation whose order cannot reach the kernel (`tables/
order_reviewed.py`). Misses among the seeded changes are arithmetic: an inverted
axis permutation, a matmul subscript aligned at the wrong end.""",
    "C02": """
Decided: every high-level kind has a lowering rule (in both sibling registries),
every rule returns an `IndexLambda(...)` whose shape/dtype/axes/tags/
non_equality_tags come from the node, whose mappings are `constantdict`s, which
consumes every semantic field of the node (access-path flow over the rule), binds
operands under distinct names; the three index-lowering rules handle integer and
slice indices by identical code, and the two advanced ones identify the advanced
indices identically (sibling agreement); the reshape order stored by the front
end is the one its own check validated, and the literals the lowering tests are
among the admitted ones. Not decided: that the index arithmetic is right in
general. Four structural slices of it are decided, each because independent
sub-agents broke it more than once (section 6b): the direction of an axis
permutation (role inference), the C/F mirror of the shape slices in reshape
(slices evaluated on lists of symbols), the concatenate offsets as a running sum
(two accepted forms), the broadcast test before any subscript in the einsum
lowering. The remaining seeded miss is of the value kind (a counter bump moved
into a branch of the advanced-index lowering).""",
    "C03": """
The agreement with NumPy's promotion and broadcasting tables is a differential
statement against an external library's values; no static oracle exists for it
and it is not claimed. Decided: (a) eagerness as a who-may-call rule;
(b) axis-guard intervals against what the node can index; (c) since the second
round of seeded changes: sibling agreement of the ten forward/reflected operator
pairs and of the start/stop halves of slice normalisation (against the shape of
`slice.indices`), non-negativity of every splice index, stale-accumulator reads
and insert order in shape inference. (c) was written after the first batch of
seeded changes for this property was missed completely (0 of 4). The second,
independent batch was missed completely again (0 of 4): inference code breaks in
its arithmetic and its bookkeeping, not at the anchors. What that batch prompted
are the two most general rules of this property: the finite abstract evaluation
of every broadcasting decision tree (equal / new length 1 / remembered length 1
/ neither; it also covers the einsum subscript normalisation, a sibling
implementation of broadcasting that three different sub-agents broke
independently) and the memoisation rule (no `lru_cache`/`memoize` on an argument
that may be a Python scalar: 1 == 1.0 == True are one key). Later rounds added
two hazard/sibling rules: an operand is never converted (`.item()`, `int()`, ...)
on its way to dtype inference, and `maximum`/`minimum` are the same code up to the
comparison. Still missed: the length formula of `arange` for negative integer
steps and the order of the output subscripts in the general branch of `dot`.""",
    "C04": """
The strongest claim of the set: for every concrete kind the equality handler the
dispatcher selects is analysed with two roots, and must read every dataclass
field (embedded `CSRMatrix`/`DistributedSend` expanded) on both operands, pair
the same path on both sides, and be a conjunction; everything hashed is compared;
hand-written hashes aggregate mappings order-free; pickling carries fields only.
Five genuine defects of exactly the kind the property file predicted ("a field
ignored by one handler") were found and fixed. Exemptions (4): `NamedCallResult`
`axes`/`tags` are derived from the call by construction. Two independent
sub-agents narrowed the same NaN test to some scalar types; the anchor R04-NAN
was written after the second. After round b: handlers compare structurally only
(a semantic predicate such as `are_shapes_equal` equates what hashes
differently), and neither the comparer nor the node classes keep state that
outlives a call (an id()-keyed class-level memo answers for dead objects).""",
    "C05": """
No-mutation is an effect analysis over every function of the transformation
modules in alias-only mode, with a canary package (`pta/fixtures/nomut`) that
must be flagged on every run. Rebuild rules: a handler that rebuilds a node hands
every field either its own recursion result or the field itself; identity
shortcuts (`replace_if_different`) compare mappings by key; tag APIs touch tags
only; the de-duplication key of wrapped data identifies a view. R05-POSITION was
added after a seeded change that numbered a filtered view of `expr.indices`.""",
    "C06": """
One clause is decided exactly: `_can_hlo_be_distributed` is evaluated by the
finite abstract interpreter over BinaryOpType (members read from the enum) x
{scalar, array}^2 x shapes-equal, unrecognised conjuncts becoming free booleans;
every point where it is true must be an algebraic identity for a linear map. The
check reported `TRUEDIV` with a scalar *numerator* (A@(c/x) != c/(A@x)), which was
confirmed and fixed. The rest are structural: branch per admitted operator with
operands in order, context consumed exactly once on every path, context a frozen
dataclass that is part of the cache key, the einsum rebuilt from the context's own
fields, the two membership tests of the no-broadcast rewriter agreeing.""",
    "C07": """
Decided: every `ImplementedResult` subclass adds its `depends_on` to the
expression context on every path of `to_loopy_expression`; results standing for
generated code are never created with an empty dependency set; the three
strategy branches derive their result from the one generated expression; no
tag-dependent control flow in expression-producing code except the documented
`AssumeNonNegative` promise (exempt, 2); tag APIs preserve every non-tag field;
the axis-tagging splice has a validated position. Two genuine defects fixed
(tagged `NamedArray` lookup; `with_tagged_axis(-1, ...)`).""",
    "C08": """
Not applicable. The property quantifies over interleavings of message
completions and part executions and over termination; deciding it means
exploring the executor's state space (reference counts, readiness sets,
`Waitsome` results), which is model checking, not source analysis. No static
argument in reach bounds those run-time quantities. The structural necessary
conditions that exist on the partitioner side are claimed under C09/C10.""",
    "C09": """
The invariants are statements about run-time data structures of several
processes; what is decided are code-shape conditions without which they cannot
hold: all ranks execute the same sequence of collectives on every path (branch
sequence agreement on `rank == root` branches, exception edges included); the
part builder turns every communication node into a placeholder; both ends of a
message are renumbered through one first-seen mapping built from an ordered
collection on the root and broadcast; names and outputs of a part come from one
mapping; (after round a) the placement bound is a minimum over all dependent
sends and the verifier resolves inputs against all parts; (after round b) the
dependency mappers the partitioner places arrays with include the node itself,
the table of generated names starts empty, and sent and received arrays cannot
share a generated name -- the last rule reported a genuine defect (a rank that
forwards a received array unchanged got a part whose output name equals its
receive name; the verifier rejected the correct program), fixed in `8b8d291`.""",
    "C10": """
Decided: every diagnostic the property names has a raise site reachable in the
call graph from the two entry points with no handler in between that swallows
it; duplicate tests dominate the insertions they protect, and (second round)
the test-then-insert window contains no recursion into children -- that rule
reported a genuine defect (a duplicate send nested in the data of another send
was overwritten silently), fixed in `2b67220`; communication identifiers are
built only by the helpers that reject the local rank; the depth-first search
tests, marks, then recurses; the root broadcasts a scheduling exception before
re-raising; accumulated part-graph edges are never reassigned; the allreduce
operator is a key-wise union; the loop over the broadcast schedule is guarded by
globally agreed values only; the partitioner and verifier keep no state that
outlives a call. Round b: 3 of 4 caught at first run (by the rules written after
round a), the fourth (a mutable default argument) by the state rule. Not decided:
that every malformed pattern is caught.""",
    "C11": """
Not applicable. Containment of every affine access in its array's extent for all
loop-index and size-parameter valuations is a Presburger question about
*generated* kernels; the kernels do not exist until code generation runs, and
deciding containment is integer-set solving (ISL/SMT): the solver family. The
guards in `pad.py`/`lower_to_index_lambda.py` are visible, but that each guard is
*sufficient* is again interval arithmetic over symbolic bounds per emitted
expression.""",
    "C12": """
`trace_call` is evaluated over name-origin templates: the names of the
placeholders created, the parameter set of the definition and the keys the
definition is called with must be the same three sets of templates (`in__pt_{#}`,
`in_{KW}`); each placeholder mirrors its argument; return-key templates of
`trace_call` and `FunctionDefinition.__call__` agree per `ReturnType`; every
mapper that enters a function body does so with a clone (fresh caches); the
inliner substitutes bindings by name. Two genuine defects fixed (keyword
parameters; `SizeParamGatherer` recursing with `self`).""",
    "C13": """
(traversal family, kind, child edge) enumeration for the 9 hand-written traversal
families, plus every handler overridden in a subclass: recursing into some child
means recursing into all. Child paths are derived from field annotations. Cache
discipline on every path of every cached `rec`. Open finding (11 keys, one
cause): no traversal descends into `CSRMatrix.shape` (symbolic shape of a sparse
matrix); a repair touches every traversal family and changes what `CopyMapper`
copies, so it is recorded rather than patched. Exemptions (31) are the
deviations the code documents (function bodies entered through clones,
`EinsumDistributiveLawMapper` not descending into shapes, ...). Round b: 3 of 4 at
first run; added: lookup and insertion of a visit key in one table, shared
containers kept while empty (`x or set()` drops them), no mapper state outliving
a call.""",
    "C14": """
Decided: every NumPy name the emitter can produce (tables, c99 names through
`_c99_callop_numpy_name`, literals) is in `numpy.__all__` (read from the installed
stub file); enum -> emitter tables are total, distinct and pairwise right
(`ADD -> ast.Add`, ...), composed with the raiser's table; Python operator nodes
come only from the operator table; every field of every handled kind is consumed;
arguments are collected in one set that feeds the signature, `expected_arguments`
and the bound data. Fixed: `"product"`, reshape `order=`, sorted keyword-only
arguments, validity check reached. Misses: slice re-synthesis arithmetic and the
einsum output specification (values).""",
    "C15": """
Decided: on every path of the three entry points all user names are added to the
name generator before anything is minted; what is added are the names of all
inputs of all outputs and, separately, the output keys; every name handed to a
name sink (`GlobalArg`, `TemporaryVariable`, `add_store`, ...) has a provenance
that is the user's name, an output key, or the seeded generator / the reserved
`_pt_` prefix; one validity checker for all outputs, reached by both code
generators; bound arguments are the data objects themselves under the
placeholder's name.""",
    "C16": """
Decided: who may compare shapes. Local shape typing finds every `==`/`!=` with a
shape-typed operand in the package; it must be inside the decision procedure,
compare with a literal, or have both operands proven integers; the decision
procedure forms the difference and every way out of it is integer equality under
the isinstance guard or `is_cst() and is_zero()` over a sorted parameter space;
symbolic components enter lowered lambdas under generator-made names; broadcasting
decision trees are evaluated abstractly (shared with C03); only a comparison with
`()` counts as an exact literal comparison. Eight raw comparisons in the reshape
helpers are reviewed (reshape rejects symbolic axes first). Not decided: that one kernel is right for every size (values) --
the remaining seeded miss is of that kind (the roll modulo); in `pad` the arm for
a symbolic axis length is compared with the arm for a static one (sibling
agreement by case-split evaluation), which no test with static shapes reaches.""",
    "C17": """
Every iteration over an unordered (or order-tainted) value in the artefact
producing modules is an instance; it is discharged by form, reviewed (15 entries
with reasons, matched on alpha-normalised text, one site per entry), or a
violation. Plus: topological orders are keyed, `copy_dict_of_named_arrays` visits
outputs sorted, tag numbering collects into an ordered tuple. Three genuine
hash-seed dependences fixed.""",
    "C18": """
Decided: what is fed into the key for wrapped ndarrays (dtype, shape, bytes in
logical order) and for numpy scalars (dtype: decided by reading, up the MRO,
pytato's, loopy's and pytools' updater sources); the annotation closure from
every node kind reaches only classes the key builder handles completely;
explicit updaters feed every compared field whole, write no shared state, use no
process-dependent digest and iterate nothing unordered (also not in a "small set"
fast path of an updater for sets); no class of the expression tree answers
unknown attributes dynamically. Three genuine defects fixed, one of them
introduced by the first repair (numpy integers must stay interchangeable with
Python ints; pytools says so in a comment).""",
    "C19": """
`pytato/raising.py` is excluded from the project's own type checking, which is
why arity errors survived there. Decided: every `HighLevelOp(...)` construction
binds exactly the dataclass's fields (starred operand tuples need a length
pinned on every branch); ordered operand tuples follow pymbolic's own field
order (read from the installed pymbolic source); a value known to be of node type
T is handed as itself only to a cascade that has a case for T; tables cover what
the front end emits; guards of the pattern matches. Six genuine defects fixed.""",
    "C20": """
Users and direct predecessors are analysed per kind by access-path flow and must
be converse per edge kind; every WalkMapper-family handler calls `visit` before
and `post_visit` after all recursions on every path; count mappers key by
identity exactly when duplicates are counted. Open finding (8 keys): the
predecessor getter reports derived-shape edges (`Stack`, `Concatenate`, index
nodes, `LoopyCallResult`) and `DictOfNamedArrays._data` for which the users
collectors register nothing, and `UsersCollector` registers fewer users for
`Call.bindings` than the list collector. Changing user counts changes
materialisation decisions (MPMS), so this is recorded, not patched
(`triage/c20_converse.py`). After round b (1 of 4 at first run): the users graph
is connected at every kind (a node registers for each child or below it; a
`NamedCallResult` stands in for its `Call`), dependency sets contain the node,
the predecessor getters keep nothing between calls.""",
}
