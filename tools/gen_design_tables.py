#!/venv/bin/python
"""Regenerates the tables of DESIGN.md that are derived from files under /verif
(evidence/*.json, known_findings.json, seeded/*/meta.json, seeded/STATUS.json,
pta/selftest/variants.json, pta/selftest/twins.py) between the markers
<!-- BEGIN:<name> --> / <!-- END:<name> -->.  Maintenance tool, not a check."""
import json, re, subprocess, sys
from pathlib import Path
sys.path.insert(0, "/verif")
V = Path("/verif")


def rules_table():
    rows = ["| property | rule | obligations | ok | exempt (reviewed) | violated (known findings) |",
            "|---|---|---:|---:|---:|---:|"]
    tot = 0
    for p in sorted(V.glob("evidence/C*.json")):
        e = json.loads(p.read_text())
        for r, d in e["coverage"]["by_rule"].items():
            n = sum(d.values())
            tot += n
            rows.append(f"| {e['property_id']} | {r} | {n} | {d.get('ok', 0)} | "
                        f"{d.get('exempt', 0)} | {d.get('violation', 0)} |")
    rows.append(f"| **all** | | **{tot}** | | | |")
    return "\n".join(rows)


def fixes_table():
    kf = json.loads((V / "known_findings.json").read_text())["findings"]
    log = subprocess.run("git -C /repo log --format='%h %s' --grep '^fix:'", shell=True,
                         capture_output=True, text=True).stdout.splitlines()
    subj = {l.split()[0]: l.split(" ", 1)[1] for l in log}
    rows = ["| # | property | commit | what failed (input) | rule that reports a reversal |",
            "|---:|---|---|---|---|"]
    i = 0
    seen = set()
    for f in kf:
        st = str(f.get("status", ""))
        if not st.startswith("fixed"):
            continue
        i += 1
        m = re.search(r"property=(\S+) (\S+) ", st)
        sha = m.group(2) if m else "?"
        seen.add(sha)
        what = f["what"].replace("|", "\\|")
        if len(what) > 260:
            what = what[:257] + "..."
        rows.append(f"| {i} | {f['property']} | `{sha}` | {what} | `{f['key'].split('/')[0]}` |")
    for sha in subj:
        if sha not in seen:
            rows.append(f"| | ? | `{sha}` | (not listed in known_findings.json) {subj[sha]} | |")
    return "\n".join(rows)


def open_table():
    kf = json.loads((V / "known_findings.json").read_text())["findings"]
    rows = ["| property | key (rule/construct/instance) | what fails |", "|---|---|---|"]
    for f in kf:
        if f.get("status") == "open":
            what = f["what"].replace("|", "\\|")
            if len(what) > 300:
                what = what[:297] + "..."
            rows.append(f"| {f['property']} | `{f['key']}` | {what} |")
    return "\n".join(rows)


def seeds_table():
    st = json.loads((V / "seeded/STATUS.json").read_text())
    rows = ["| seeded change | what it does | first run | caught now by |", "|---|---|---|---|"]
    n = c0 = c1 = 0
    for name in sorted(st):
        mp = V / "seeded" / name / "meta.json"
        if not mp.exists():
            continue
        meta = json.loads(mp.read_text())
        s = meta.get("summary", "").replace("|", "\\|").replace("\n", " ")
        if len(s) > 230:
            s = s[:227] + "..."
        now = st[name]["now"]
        n += 1
        c0 += st[name]["first_run"] == "caught"
        c1 += bool(now)
        rows.append(f"| {name} | {s} | {st[name]['first_run']} | "
                    f"{', '.join(now) if now else '**missed**'} |")
    rows.append(f"| **{n} changes** | | **{c0} caught** | **{c1} caught** |")
    return "\n".join(rows)


def twins_table():
    from pta.selftest.twins import TWINS
    rows = ["| passing twin | what it changes (behaviour preserved) |", "|---|---|"]
    for t in TWINS:
        rows.append(f"| {t['name']} | {t['what']} |")
    return "\n".join(rows)


def exemptions_table():
    from pta.tables.exemptions import EXEMPT
    from pta.tables.order_reviewed import REVIEWED
    rows = ["| table | key | reason |", "|---|---|---|"]
    for (rule, inst), why in EXEMPT.items():
        rows.append(f"| exemptions | `{rule}` `{inst}` | {' '.join(str(why).split())[:200]} |")
    for k, why in REVIEWED.items():
        rows.append(f"| order_reviewed | `{k[:110]}` | {' '.join(why.split())[:200]} |")
    return "\n".join(rows)


def benign_table():
    rows = ["| refactoring | what it does (behaviour preserved) | alarms at first run | now |",
            "|---|---|---|---|"]
    for d in sorted((V / "benign").iterdir()):
        mp = d / "meta.json"
        if not mp.exists():
            continue
        meta = json.loads(mp.read_text())
        al = meta.get("confirmed_by_me", {}).get("alarms_at_first_run") or []
        al = [a[0] if isinstance(a, list) else a for a in al]
        sm = " ".join(meta.get("summary", "").split()).replace("|", "\\|")
        if len(sm) > 200:
            sm = sm[:197] + "..."
        unres = meta.get("confirmed_by_me", {}).get("unresolved")
        now = ("**unresolved**: " + " ".join(unres.split())[:160].replace("|", "\\|")) \
            if unres else "silent"
        rows.append(f"| {d.name} | {sm} | {', '.join(al) if al else 'silent'} | {now} |")
    return "\n".join(rows)


GEN = {"benign": benign_table, "rules": rules_table, "fixes": fixes_table, "open": open_table, "seeds": seeds_table,
       "twins": twins_table, "exemptions": exemptions_table}

p = V / "DESIGN.md"
s = p.read_text()
for name, fn in GEN.items():
    b, e = f"<!-- BEGIN:{name} -->", f"<!-- END:{name} -->"
    if b in s and e in s:
        i, j = s.index(b) + len(b), s.index(e)
        s = s[:i] + "\n" + fn() + "\n" + s[j:]
    else:
        print("marker missing:", name)
p.write_text(s)
print("DESIGN.md tables regenerated")
