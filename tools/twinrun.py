#!/venv/bin/python
"""tools/twinrun.py [name-substring] -- apply each passing twin to a scratch copy
and run every claimed check on it; prints alarms (which are checker defects)."""
import sys, os, json, shutil, subprocess, tempfile
from pathlib import Path
from concurrent.futures import ThreadPoolExecutor
sys.path.insert(0, "/verif")
from pta.selftest.twins import TWINS
from pta.selftest.runner import _apply
sel = sys.argv[1] if len(sys.argv) > 1 else ""

def one(v):
    tmp = Path(tempfile.mkdtemp(prefix="pta-twin-"))
    out = []
    try:
        shutil.copytree("/repo/pytato", tmp / "pytato", ignore=shutil.ignore_patterns("__pycache__"))
        if not _apply(tmp, v["edits"]):
            return v["name"], ["STALE/does not apply"]
        r = subprocess.run(["/venv/bin/python", "-c", "import ast,sys,pathlib\nfor p in pathlib.Path(sys.argv[1]).rglob('*.py'): ast.parse(p.read_text())", str(tmp)], capture_output=True, text=True)
        if r.returncode: return v["name"], ["SYNTAX " + r.stderr[-200:]]
        for p in v["props"]:
            r = subprocess.run(["/venv/bin/python", "-m", "pta.check", p, "--repo", str(tmp), "--no-evidence"],
                               cwd="/verif", capture_output=True, text=True)
            if r.returncode != 0:
                lines = [l for l in r.stdout.splitlines() if " at " in l or "ANALYSIS-ERROR" in l]
                out.append(f"{p} rc={r.returncode}: " + " | ".join(l[:260] for l in lines[:3]))
        return v["name"], out
    finally:
        shutil.rmtree(tmp, ignore_errors=True)

vs = [v for v in TWINS if sel in v["name"]]
with ThreadPoolExecutor(8) as ex:
    for name, out in ex.map(one, vs):
        print(name, "->", "silent" if not out else "")
        for o in out: print("    ", o)
