#!/venv/bin/python
"""Assembles /verif/DESIGN.md from tools/design_src/*.md (hand-written parts),
tools/design_src/props_notes.py (hand-written per-property notes) and what the
machinery itself records (rule texts and counts from evidence/*.json, findings,
seeded changes), then fills the tables (tools/gen_design_tables.py).
Run after the quick checks have refreshed evidence/.  Maintenance tool."""
import json, subprocess, sys, textwrap
from pathlib import Path
sys.path.insert(0, "/verif/tools/design_src")
sys.path.insert(0, "/verif")
from props_notes import NOTES, SCOPE, TITLE   # noqa: E402

V = Path("/verif")
SRC = V / "tools/design_src"
kf = json.loads((V / "known_findings.json").read_text())["findings"]
status = json.loads((V / "seeded/STATUS.json").read_text())


def wrap(s, indent=""):
    return "\n".join(textwrap.fill(" ".join(p.split()), 79, initial_indent=indent,
                                   subsequent_indent=indent)
                     for p in s.strip().split("\n\n"))


def prop_block(p):
    out = [f"### {p} — {TITLE[p]} — **{SCOPE[p]}**", "", wrap(NOTES[p]), ""]
    ev = V / f"evidence/{p}.json"
    if not ev.exists():
        return "\n".join(out)
    e = json.loads(ev.read_text())
    cov = e["coverage"]
    out += ["*Rules as implemented* (text printed into the evidence file by the check):",
            "", wrap(cov["explanation"], "> "), "",
            "*Not decided:* " + " ".join(cov["not_decided"].split()), ""]
    rows = ", ".join(f"{r} {sum(d.values())}" for r, d in cov["by_rule"].items())
    out += [f"*Obligations on this tree:* {cov['obligations']} ({rows}); "
            f"{cov['exempt']} exempt with reasons, {cov['known_findings']} known-finding keys.", ""]
    fx = [f for f in kf if f["property"] == p and str(f.get("status", "")).startswith("fixed")]
    op = [f for f in kf if f["property"] == p and f.get("status") == "open"]
    if fx:
        out.append(f"*Genuine defects found and fixed* ({len(fx)}): "
                   + "; ".join("`" + f["status"].split()[2] + "` "
                               + " ".join(f["status"].split()[3:]) for f in fx) + ".")
        out.append("")
    if op:
        out.append(f"*Open findings:* {len(op)} keys, listed in section 4.5.")
        out.append("")
    sd = {n: s for n, s in status.items() if n.startswith(p + "-")}
    if sd:
        first = sum(1 for s in sd.values() if s["first_run"] == "caught")
        now = sum(1 for s in sd.values() if s["now"])
        missed = [n for n, s in sd.items() if not s["now"]]
        other = sorted({q for s in sd.values() for q in s["now"] if q != p})
        out.append(f"*Seeded changes for this property:* {len(sd)}; caught at first run "
                   f"{first}, caught now {now}"
                   + (f" (some by the check of {', '.join(other)})" if other else "")
                   + (f"; still missed: {', '.join(missed)}" if missed else "") + ".")
        out.append("")
    return "\n".join(out)


parts = [(SRC / "00_head.md").read_text(),
         (SRC / "01_ground.md").read_text(),
         (SRC / "02_why.md").read_text(),
         (SRC / "03_engine.md").read_text(),
         (SRC / "04_interface.md").read_text(),
         (SRC / "45_findings.md").read_text(),
         "## 5. Per property\n\nFor every property: the scope of the claim, a note on the "
         "decisions taken, the rules as the check itself describes them, what is not "
         "decided, the number of obligations on this tree, the genuine defects found, and "
         "how the seeded changes fared. The complete obligation counts per rule are in the "
         "table at the end of this section.\n"]
for p in [f"C{i:02d}" for i in range(1, 21)]:
    parts.append(prop_block(p))
parts.append("Obligations per rule on this tree (from `evidence/*.json` of the last quick "
             "runs):\n\n<!-- BEGIN:rules -->\n<!-- END:rules -->\n\n"
             "---------------------------------------------------------------------------\n")
for f in ("06_selftest.md", "07_false_alarms.md", "08_limits.md", "09_cost_tools.md"):
    parts.append((SRC / f).read_text())
doc = "\n".join(parts)
# numbers the document quotes are computed, not typed
n_fix = sum(1 for f in kf if str(f.get("status", "")).startswith("fixed"))
open_keys = [f for f in kf if f.get("status") == "open"]
import re as _re


def _round_of(n):
    mm = _re.search(r"-agent([b-z])-", n)
    return mm.group(1) if mm else "a"


rounds = {}
for n, s_ in sorted(status.items()):
    rounds.setdefault(_round_of(n), []).append(s_)
rounds = dict(sorted(rounds.items()))
rounds = {k: v for k, v in rounds.items() if v}
weak = ("C03", "C09", "C10", "C16", "C18")
rt = ["| round | changes | caught at first run | caught now |", "|---|---:|---:|---:|"]
for r, ss in rounds.items():
    rt.append(f"| {r} | {len(ss)} | {sum(x['first_run'] == 'caught' for x in ss)} | "
              f"{sum(bool(x['now']) for x in ss)} |")
weak_first = {}
for r in rounds:
    ss = [s for n, s in status.items() if n.split("-")[0] in weak and _round_of(n) == r]
    weak_first[r] = sum(x['first_run'] == 'caught' for x in ss)
    rt.append(f"| {r}, only C03 C09 C10 C16 C18 | {len(ss)} | "
              f"{sum(x['first_run'] == 'caught' for x in ss)} | "
              f"{sum(bool(x['now']) for x in ss)} |")
from pta.selftest.twins import TWINS   # noqa: E402
brounds = {}
for d in sorted((V / "benign").iterdir()):
    mp = d / "meta.json"
    if mp.exists():
        cm_ = json.loads(mp.read_text()).get("confirmed_by_me", {})
        al = cm_.get("alarms_at_first_run")
        r = brounds.setdefault(d.name[0], [0, 0, 0, 0])
        r[0] += 1
        r[1] += bool(al)
        r[2] += bool(al) and all((a[1] if isinstance(a, list) else 1) == 2 for a in al)
        r[3] += bool(cm_.get("unresolved"))
bs = ["| round | refactorings | with a false alarm or 'cannot decide' at first run | "
      "of these 'cannot decide' (exit 2) only | still not silent now |",
      "|---|---:|---:|---:|---:|"]
for r, (n, a, u, x) in sorted(brounds.items()):
    bs.append(f"| {r} | {n} | {a} | {u} | {x} |")
doc = doc.replace("{BENIGN_SUMMARY}", "\n".join(bs))
_nfc = len(subprocess.run("git -C /repo log --format=%h --grep '^fix:'", shell=True,
                          capture_output=True, text=True).stdout.split())
doc = (doc.replace("{N_FIX_COMMITS}", str(_nfc)).replace("{N_FIXES}", str(n_fix)).replace("{N_FOUND}", str(n_fix + 2))
       .replace("{N_OPEN_KEYS}", str(len(open_keys))).replace("{ROUND_TABLE}", "\n".join(rt))
       .replace("{WEAK_A}", str(weak_first["a"])).replace("{WEAK_B}", str(weak_first["b"]))
       .replace("{N_TWINS}", str(len(TWINS))).replace("{N_SEEDS}", str(len(status))))
(V / "DESIGN.md").write_text(doc)
subprocess.run([sys.executable, str(V / "tools/gen_design_tables.py")], check=True)
print("DESIGN.md:", len((V / "DESIGN.md").read_text().splitlines()), "lines")
