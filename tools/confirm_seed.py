#!/venv/bin/python
"""confirm_seed.py <srcdir> <name>

Confirms a seeded change in a scratch worktree of /repo (outside /repo and
/verif): patch applies, package imports, demo FAILS with it and PASSES without,
the 80 baseline tests still pass with it.  On success copies it to
/verif/seeded/<name>/ and records what was run in meta.json."""
import json, os, shutil, subprocess, sys, xml.etree.ElementTree as ET

src, name = sys.argv[1], sys.argv[2]
wt = f"/tmp/confirm-wt-{os.getpid()}"
PY = "/venv/bin/python"


def sh(cmd, **kw):
    return subprocess.run(cmd, shell=True, capture_output=True, text=True, **kw)


def baseline(tree):
    out = f"/tmp/confirm-{os.getpid()}.xml"
    sh(f"cd {tree} && PYTHONPATH={tree} {PY} -m pytest -q -p no:cacheprovider --timeout=900 "
       f"--continue-on-collection-errors --junitxml={out} test/test_pytato.py test/test_linalg.py")
    want = set(json.load(open("/root/.vp/BASELINE.json"))["stable_pass"])
    got = set()
    for tc in ET.parse(out).getroot().iter("testcase"):
        if not any(ch.tag in ("failure", "error", "skipped") for ch in tc):
            got.add(f"{tc.get('classname')}::{tc.get('name')}")
    os.remove(out)
    return sorted(want - got)


r = sh(f"git -C /repo worktree add -q --detach {wt} HEAD")
assert r.returncode == 0, r.stderr
try:
    env = dict(os.environ, PYTHONPATH=wt)
    demo = os.path.join(src, "demo.py")
    d0 = subprocess.run([PY, demo], capture_output=True, text=True, env=env, cwd=wt, timeout=900)
    r = sh(f"git -C {wt} apply {src}/patch.diff")
    if r.returncode != 0:
        print("PATCH DOES NOT APPLY:", r.stderr); sys.exit(1)
    imp = subprocess.run([PY, "-c", "import pytato, pytato.transform.metadata, pytato.target.loopy, pytato.distributed"],
                         capture_output=True, text=True, env=env, cwd=wt)
    d1 = subprocess.run([PY, demo], capture_output=True, text=True, env=env, cwd=wt, timeout=900)
    missing = baseline(wt)
    sh(f"git -C {wt} checkout -- .")
    d2 = subprocess.run([PY, demo], capture_output=True, text=True, env=env, cwd=wt, timeout=900)
    res = {"demo_unmodified_rc": d0.returncode, "import_rc": imp.returncode,
           "demo_modified_rc": d1.returncode, "demo_restored_rc": d2.returncode,
           "baseline_not_passing_with_change": missing,
           "demo_modified_tail": (d1.stdout + d1.stderr)[-400:]}
    ok = (d0.returncode == 0 and imp.returncode == 0 and d1.returncode != 0
          and d2.returncode == 0 and not missing)
    print(json.dumps(res, indent=1))
    if ok:
        dst = f"/verif/seeded/{name}"
        os.makedirs(dst, exist_ok=True)
        shutil.copy(f"{src}/patch.diff", dst)
        shutil.copy(demo, dst)
        meta = json.load(open(f"{src}/meta.json")) if os.path.exists(f"{src}/meta.json") else {}
        meta["confirmed_by_me"] = {
            "repo_head": sh("git -C /repo rev-parse --short HEAD").stdout.strip(),
            "ran": ["demo.py on unmodified scratch worktree -> rc 0",
                    "git apply patch.diff; import pytato ok",
                    f"demo.py on modified tree -> rc {d1.returncode}",
                    "80 baseline tests (test_pytato.py, test_linalg.py) with the change -> all stable tests pass",
                    "git checkout -- .; demo.py -> rc 0"],
        }
        json.dump(meta, open(f"{dst}/meta.json", "w"), indent=1)
        print("CONFIRMED ->", dst)
    else:
        print("NOT CONFIRMED")
        sys.exit(1)
finally:
    sh(f"git -C /repo worktree remove --force {wt}")
