#!/bin/sh
# Runs the repository's pinned baseline (guard off; the machinery needs no
# hooks) and compares the set of passing tests with BASELINE.json.
out=$(mktemp /tmp/pta-baseline-XXXXXX.xml)
cd /repo && env -u PYTATO_VERIF /venv/bin/python -m pytest -ra -q -p no:cacheprovider --timeout=900 \
   --continue-on-collection-errors --junitxml="$out" "$@" >/dev/null 2>&1
/venv/bin/python - "$out" <<'PY'
import json, sys, xml.etree.ElementTree as ET
base = json.load(open("/root/.vp/BASELINE.json"))
want = set(base["stable_pass"])
got = set()
for tc in ET.parse(sys.argv[1]).getroot().iter("testcase"):
    if not any(ch.tag in ("failure", "error", "skipped") for ch in tc):
        got.add(f"{tc.get('classname')}::{tc.get('name')}")
missing = sorted(want - got)
print(f"baseline: {len(want & got)}/{len(want)} stable tests pass")
for t in missing:
    print("  NOT PASSING:", t)
sys.exit(1 if missing else 0)
PY
rc=$?
rm -f "$out"
exit $rc
