#!/venv/bin/python
"""tools/mk_twin_copy.py <twin-name-substring> <dest>: scratch copy of /repo/pytato
with one passing twin applied (for debugging false alarms)."""
import sys, shutil; sys.path.insert(0, '/verif')
from pathlib import Path
from pta.selftest.runner import _apply
from pta.selftest.twins import TWINS
v = [t for t in TWINS if sys.argv[1] in t['name']][0]
tmp = Path(sys.argv[2]); shutil.rmtree(tmp, ignore_errors=True)
shutil.copytree('/repo/pytato', tmp / 'pytato', ignore=shutil.ignore_patterns('__pycache__'))
print(v['name'], _apply(tmp, v['edits']))
