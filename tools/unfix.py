#!/venv/bin/python
"""unfix.py <commit> [props...]: temporarily un-does a fix: commit in /repo's
working tree (reverse-applies its diff), runs the quick checks, restores."""
import json, subprocess, sys
sha = sys.argv[1]
props = sys.argv[2:] or [c["property_id"] for c in json.load(open("/verif/MANIFEST.json"))["checks"]]
def sh(c): return subprocess.run(c, shell=True, capture_output=True, text=True)
assert not sh("git -C /repo status --porcelain").stdout.strip(), "repo dirty"
r = sh(f"git -C /repo show {sha} --format= | git -C /repo apply -R"); assert r.returncode == 0, r.stderr
fired = {}
try:
    for p in props:
        r = sh(f"cd /verif && /venv/bin/python -m pta.check {p} --no-evidence")
        if r.returncode != 0:
            fired[p] = (r.returncode, [l for l in r.stdout.splitlines() if (l.startswith("  R") and " at " in l) or l.startswith("ANALYSIS")][:3])
finally:
    sh("git -C /repo checkout -- ."); sh("rm -rf /verif/replay")
subj = sh(f"git -C /repo log -1 --format=%s {sha}").stdout.strip()
print(sha[:7], subj[:70], "->", "CAUGHT by " + ",".join(fired) if fired else "MISSED")
for p, (rc, lines) in fired.items():
    for l in lines: print("    ", p, f"rc={rc}", l.strip()[:200])
