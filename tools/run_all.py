#!/usr/bin/env python3
"""run_all.py [quick|thorough]: every check of MANIFEST.json in the given tier, six at a
time; prints exit code, wall time and the first KNOWN-FINDING/VIOLATION/ANALYSIS lines.
Maintenance tool (refreshes evidence/)."""
import json, subprocess, sys, time
from concurrent.futures import ThreadPoolExecutor
tier = sys.argv[1] if len(sys.argv) > 1 else "quick"
items = json.load(open("/verif/MANIFEST.json"))["checks"]


def run(it):
    t = time.time()
    r = subprocess.run(it[f"{tier}_cmd"], shell=True, cwd="/verif", capture_output=True, text=True)
    lines = [l[:140] for l in r.stdout.splitlines()
             if "VIOLATION" in l or "KNOWN-FINDING" in l or "ANALYSIS" in l]
    return it["property_id"], r.returncode, round(time.time() - t, 1), len(lines), lines[:1]


bad = 0
with ThreadPoolExecutor(6) as ex:
    for res in ex.map(run, items):
        print(*res)
        bad += res[1] != 0
sys.exit(1 if bad else 0)
