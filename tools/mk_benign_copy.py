#!/venv/bin/python
"""mk_benign_copy.py <name> <dir>: scratch copy of /repo/pytato with the stored benign
refactoring applied (for debugging a false alarm); remove the directory afterwards."""
import sys, shutil, subprocess
from pathlib import Path
d = Path("/verif/benign") / sys.argv[1]
tmp = Path(sys.argv[2])
shutil.rmtree(tmp, ignore_errors=True)
tmp.mkdir(parents=True)
shutil.copytree("/repo/pytato", tmp / "pytato", ignore=shutil.ignore_patterns("__pycache__"))
r = subprocess.run(["git", "apply", "--unsafe-paths", "--directory", str(tmp), str(d / "patch.diff")],
                   capture_output=True, text=True, cwd="/")
if r.returncode:
    r = subprocess.run(f"cd {tmp} && patch -p1 -s < {d}/patch.diff", shell=True)
print(tmp)
