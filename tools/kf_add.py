#!/venv/bin/python
"""kf_add.py PROP STATUS WHAT [key-substring]: append the current new violations
of PROP (read from replay/PROP/*.json written by the last run) to
known_findings.json.  Maintenance helper; never used by a check."""
import glob, json, sys
prop, status, what = sys.argv[1:4]
sub = sys.argv[4] if len(sys.argv) > 4 else ""
kf = json.load(open("/verif/known_findings.json"))
have = {f["key"] for f in kf["findings"]}
n = 0
for p in sorted(glob.glob(f"/verif/replay/{prop}/*.json")):
    r = json.load(open(p))
    if sub in r["key"] and r["key"] not in have:
        kf["findings"].append({"property": prop, "key": r["key"], "what": what,
                               "where": r["where"], "status": status})
        n += 1
json.dump(kf, open("/verif/known_findings.json", "w"), indent=1)
print("added", n)
