#!/venv/bin/python
"""seedcopyrun.py <seed-name> [props...]: scratch copy of /repo/pytato with the seeded
change applied, quick checks run on the copy (PTA_REPO), copy removed.  Unlike
seedrun.py it never touches /repo."""
import json, os, shutil, subprocess, sys, tempfile
from pathlib import Path
name = sys.argv[1]
d = Path("/verif/seeded") / name
props = sys.argv[2:] or [c["property_id"] for c in json.load(open("/verif/MANIFEST.json"))["checks"]]
tmp = Path(tempfile.mkdtemp(prefix="seedcopy-"))
try:
    shutil.copytree("/repo/pytato", tmp / "pytato", ignore=shutil.ignore_patterns("__pycache__"))
    r = subprocess.run(f"cd {tmp} && patch -p1 -s < {d}/patch.diff", shell=True,
                       capture_output=True, text=True)
    assert r.returncode == 0, r.stdout + r.stderr
    fired = {}
    for p in props:
        r = subprocess.run(f"cd /verif && PTA_IN_SELFTEST=1 /venv/bin/python -m pta.check {p} "
                           f"--no-evidence --repo {tmp}", shell=True, capture_output=True, text=True)
        lines = [l for l in r.stdout.splitlines() if l.startswith("  R") and " at " in l
                 or l.startswith("ANALYSIS") or l.startswith("IMPRECISE")]
        if r.returncode != 0:
            fired[p] = (r.returncode, lines[:4])
    print(name, "->", "CAUGHT by " + ",".join(fired) if fired else "MISSED")
    for p, (rc, lines) in fired.items():
        for l in lines:
            print("   ", p, f"rc={rc}", l.strip()[:260])
finally:
    shutil.rmtree(tmp, ignore_errors=True)
