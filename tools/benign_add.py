#!/venv/bin/python
"""benign_add.py <srcdir> <name>: a behaviour-preserving refactoring produced by an
independent sub-agent (patch.diff, meta.json, check.py).  Confirms in a scratch
worktree that the patch applies, the package imports, check.py prints the same
fingerprint with and without it and the 80 baseline tests pass; then runs all
claimed checks on the patched tree.  Silent on all -> stored as a passing twin in
/verif/benign/<name>/ and pta/selftest/benign.json; an alarm is printed for triage
(it is a false alarm unless the refactoring turns out not to be one)."""
import json, os, shutil, subprocess, sys, xml.etree.ElementTree as ET
sys.path.insert(0, "/verif")
src, name = sys.argv[1], sys.argv[2]
wt = f"/tmp/benign-wt-{os.getpid()}"
PY = "/venv/bin/python"


def sh(cmd, **kw):
    return subprocess.run(cmd, shell=True, capture_output=True, text=True, **kw)


def baseline(tree):
    out = f"/tmp/benign-{os.getpid()}.xml"
    sh(f"cd {tree} && PYTHONPATH={tree} {PY} -m pytest -q -p no:cacheprovider --timeout=900 "
       f"--continue-on-collection-errors --junitxml={out} test/test_pytato.py test/test_linalg.py")
    want = set(json.load(open("/root/.vp/BASELINE.json"))["stable_pass"])
    got = set()
    for tc in ET.parse(out).getroot().iter("testcase"):
        if not any(ch.tag in ("failure", "error", "skipped") for ch in tc):
            got.add(f"{tc.get('classname')}::{tc.get('name')}")
    os.remove(out)
    return sorted(want - got)


r = sh(f"git -C /repo worktree add -q --detach {wt} HEAD")
assert r.returncode == 0, r.stderr
try:
    env = dict(os.environ, PYTHONPATH=wt)
    chk = os.path.join(src, "check.py")
    f0 = subprocess.run([PY, chk], capture_output=True, text=True, env=env, cwd=wt, timeout=900)
    r = sh(f"git -C {wt} apply {src}/patch.diff")
    if r.returncode != 0:
        print("PATCH DOES NOT APPLY:", r.stderr); sys.exit(1)
    imp = subprocess.run([PY, "-c", "import pytato, pytato.transform.metadata, pytato.target.loopy, pytato.distributed"],
                         capture_output=True, text=True, env=env, cwd=wt)
    f1 = subprocess.run([PY, chk], capture_output=True, text=True, env=env, cwd=wt, timeout=900)
    missing = baseline(wt)
    same = f0.returncode == f1.returncode and f0.stdout == f1.stdout
    print(json.dumps({"import_rc": imp.returncode, "fingerprint_identical": same,
                      "fingerprint_bytes": len(f0.stdout), "baseline_not_passing": missing}))
    if imp.returncode or not same or missing:
        print("NOT CONFIRMED as behaviour preserving"); sys.exit(1)
    props = [c["property_id"] for c in json.load(open("/verif/MANIFEST.json"))["checks"]]
    alarms = []
    for p in props:
        r = sh(f"cd /verif && {PY} -m pta.check {p} --repo {wt} --no-evidence")
        if r.returncode != 0:
            lines = [l for l in r.stdout.splitlines() if " at " in l or "ANALYSIS-ERROR" in l]
            alarms.append((p, r.returncode, lines[:4]))
    dst = f"/verif/benign/{name}"
    os.makedirs(dst, exist_ok=True)
    for f in ("patch.diff", "check.py", "meta.json"):
        if os.path.exists(f"{src}/{f}"):
            shutil.copy(f"{src}/{f}", dst)
    meta = json.load(open(f"{dst}/meta.json")) if os.path.exists(f"{dst}/meta.json") else {}
    meta["confirmed_by_me"] = {"fingerprint_identical": True, "baseline": "80 passed",
                               "alarms_at_first_run": [(p, rc) for p, rc, _ in alarms]}
    json.dump(meta, open(f"{dst}/meta.json", "w"), indent=1)
    if alarms:
        print("ALARMS (false alarms unless the refactoring is not one):")
        for p, rc, lines in alarms:
            print(f"  {p} rc={rc}")
            for l in lines:
                print("     ", l[:300])
    else:
        print("SILENT on all", len(props), "checks ->", dst)
finally:
    sh(f"git -C /repo worktree remove --force {wt}")
