#!/venv/bin/python
"""tools/regress.py [Cxx ...] -- run the self-test variants (breaking ones must
fire, twins must stay silent) for the given properties against /repo."""
import sys, json
sys.path.insert(0, "/verif")
from pta.model import Model
from pta.selftest.runner import run_selftest
m = Model("/repo")
props = [a.upper() for a in sys.argv[1:]] or [
    c["property_id"] for c in json.load(open("/verif/MANIFEST.json"))["checks"]]
rc = 0
for p in props:
    r = run_selftest(p, None, m, 0)
    print(p, r["summary"])
    for f in r["failures"]:
        print("   FAIL", f); rc = 1
sys.exit(rc)
