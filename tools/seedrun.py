#!/venv/bin/python
"""seedrun.py <seeded-dir> [props...]: apply the patch to /repo, run the quick
checks, undo straight afterwards; prints which checks fire."""
import json, subprocess, sys, os
d = os.path.abspath(sys.argv[1])
props = sys.argv[2:] or [c["property_id"] for c in json.load(open("/verif/MANIFEST.json"))["checks"]]
def sh(c): return subprocess.run(c, shell=True, capture_output=True, text=True)
st = sh("git -C /repo status --porcelain").stdout.strip()
assert not st, "repo dirty: " + st
r = sh(f"git -C /repo apply {d}/patch.diff"); assert r.returncode == 0, r.stderr
fired = {}
try:
    for p in props:
        r = sh(f"cd /verif && /venv/bin/python -m pta.check {p} --no-evidence")
        lines = [l for l in r.stdout.splitlines() if l.startswith("  R") and " at " in l or l.startswith("ANALYSIS") or l.startswith("IMPRECISE")]
        if r.returncode != 0:
            fired[p] = (r.returncode, lines[:4])
finally:
    sh("git -C /repo checkout -- .")
    sh("rm -rf /verif/replay")
print(os.path.basename(d.rstrip("/")), "->", "CAUGHT by " + ",".join(fired) if fired else "MISSED")
for p, (rc, lines) in fired.items():
    for l in lines: print("   ", p, f"rc={rc}", l.strip()[:230])
