#!/venv/bin/python
"""seed_round.py <tag> <outdir>...: for every <outdir>/<P>-<k>/ delivered by a seeding
sub-agent: confirm it (tools/confirm_seed.py, scratch worktree), file it as
seeded/<P>-agent<tag>-<k>/, run ALL checks on a scratch copy with the patch applied
(the checks as they are now = 'first run') and record the result in
seeded/STATUS.json.  Parallel; nothing is applied to /repo."""
import json, os, re, shutil, subprocess, sys, tempfile
from pathlib import Path
from concurrent.futures import ThreadPoolExecutor
tag, outs = sys.argv[1], sys.argv[2:]
V = Path("/verif")
PY = "/venv/bin/python"
props = [c["property_id"] for c in json.load(open(V / "MANIFEST.json"))["checks"]]
items = []
for o in outs:
    for d in sorted(Path(o).iterdir()):
        m = re.fullmatch(r"(C\d\d)-(\d+)", d.name)
        if m and (d / "patch.diff").exists():
            items.append((d, f"{m.group(1)}-agent{tag}-{m.group(2)}"))


def confirm(it):
    d, name = it
    r = subprocess.run([PY, str(V / "tools/confirm_seed.py"), str(d), name],
                       capture_output=True, text=True)
    ok = (V / "seeded" / name / "patch.diff").exists() and r.returncode == 0
    return name, ok, (r.stdout + r.stderr)[-400:]


def first_run(name):
    d = V / "seeded" / name
    tmp = Path(tempfile.mkdtemp(prefix="pta-seed-"))
    try:
        shutil.copytree("/repo/pytato", tmp / "pytato", ignore=shutil.ignore_patterns("__pycache__"))
        r = subprocess.run(["git", "apply", "--unsafe-paths", "--directory", str(tmp),
                            str(d / "patch.diff")], capture_output=True, text=True, cwd="/")
        if r.returncode:
            return name, None, ["DOES NOT APPLY"]
        fired, lines = [], []
        for p in props:
            r = subprocess.run([PY, "-m", "pta.check", p, "--repo", str(tmp), "--no-evidence"],
                               cwd=str(V), capture_output=True, text=True)
            if r.returncode == 1:
                fired.append(p)
                lines += [f"{p}: " + l.strip()[:200] for l in r.stdout.splitlines()
                          if l.startswith("  R") and " at " in l][:2]
            elif r.returncode != 0:
                lines.append(f"{p}: rc={r.returncode} " + r.stdout.strip().splitlines()[-1][:200])
        return name, fired, lines
    finally:
        shutil.rmtree(tmp, ignore_errors=True)


_st0 = json.load(open(V / "seeded/STATUS.json"))
items = [it for it in items if it[1] not in _st0]       # already filed: not again


def confirm_retry(it):
    for _ in range(3):
        r = confirm(it)
        if r[1] or "worktrees" not in r[2]:     # (git worktree add races with itself)
            return r
    return r


with ThreadPoolExecutor(4) as ex:
    conf = list(ex.map(confirm_retry, items))
good = [n for n, ok, _ in conf if ok]
for n, ok, msg in conf:
    if not ok:
        print("NOT CONFIRMED", n, msg.replace("\n", " | ")[-300:])
with ThreadPoolExecutor(8) as ex:
    res = list(ex.map(first_run, good))
st = json.load(open(V / "seeded/STATUS.json"))
for name, fired, lines in res:
    if fired is None:
        print(name, "patch does not apply to a copy"); continue
    st[name] = {"first_run": "caught" if fired else "missed", "now": fired}
    print(name, "->", ("CAUGHT by " + ",".join(fired)) if fired else "MISSED")
    for l in lines[:3]:
        print("     ", l)
json.dump(st, open(V / "seeded/STATUS.json", "w"), indent=1, sort_keys=True)
print(len(good), "confirmed;", sum(1 for _n, f, _l in res if f), "caught at first run")
