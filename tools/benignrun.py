#!/venv/bin/python
"""benignrun.py [name-substring] [Cnn ...]: apply each stored benign refactoring
(/verif/benign/<name>/patch.diff) to a scratch copy of /repo/pytato and run the
checks on it; prints the alarms (false alarms)."""
import sys, os, json, shutil, subprocess, tempfile
from pathlib import Path
from concurrent.futures import ThreadPoolExecutor
sel = sys.argv[1] if len(sys.argv) > 1 and not sys.argv[1].startswith("C") else ""
props = [a for a in sys.argv[1:] if a.startswith("C") and a[1:].isdigit()] or [
    c["property_id"] for c in json.load(open("/verif/MANIFEST.json"))["checks"]]

def one(d):
    tmp = Path(tempfile.mkdtemp(prefix="pta-benign-"))
    try:
        shutil.copytree("/repo/pytato", tmp / "pytato", ignore=shutil.ignore_patterns("__pycache__"))
        r = subprocess.run(["git", "apply", "--unsafe-paths", "--directory", str(tmp), str(d / "patch.diff")],
                           capture_output=True, text=True, cwd="/")
        if r.returncode:
            r = subprocess.run(f"cd {tmp} && patch -p1 -s < {d}/patch.diff", shell=True, capture_output=True, text=True)
            if r.returncode:
                return d.name, ["DOES NOT APPLY " + (r.stderr or r.stdout)[:200]]
        out = []
        for p in props:
            r = subprocess.run(["/venv/bin/python", "-m", "pta.check", p, "--repo", str(tmp), "--no-evidence"],
                               cwd="/verif", capture_output=True, text=True)
            if r.returncode != 0:
                lines = [l for l in r.stdout.splitlines() if " at " in l or "ANALYSIS-ERROR" in l or "Error" in l]
                out.append(f"{p} rc={r.returncode}: " + " | ".join(l[:230] for l in lines[:4]))
        return d.name, out
    finally:
        shutil.rmtree(tmp, ignore_errors=True)

ds = [d for d in sorted(Path("/verif/benign").iterdir()) if sel in d.name and (d / "patch.diff").exists()]
with ThreadPoolExecutor(8) as ex:
    for name, out in ex.map(one, ds):
        print(name, "->", "silent" if not out else "")
        for o in out: print("    ", o)
