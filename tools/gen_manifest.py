#!/venv/bin/python
"""Regenerates /verif/MANIFEST.json from the table below and the rule modules
that actually exist (a property is claimed only if pta/rules/cXX.py exists)."""
import json
import os
import sys

sys.path.insert(0, "/verif")
V = "/verif"

NOTE = ("Trusted base: CPython ast; the static class/MRO/dataclass model of "
        "pta (cross-validated against reflection in the thorough tier); "
        "pymbolic optimize_mapper; pytools/loopy/islpy/numpy behave as "
        "documented. Decides the named structural clauses only; "
        "value-level behaviour is not decided.")

CLAIMS = {
 "C01": ("dispatch/table exhaustiveness + constructor typestate + unordered-iteration lint (AST)",
         "Decides the structural clauses of C01: every node kind of the supported fragment has a lowering/codegen handler and every reduction/function table is total (code generation never fails for lack of a case), every IndexLambda/Einsum/Call construction site passes an immutable mapping as its own constructor demands, and no hash-ordered iteration feeds loopy code generation (operand/output-order independence). Does NOT decide that generated kernels compute NumPy's values: that needs executing generated code, which static analysis does not do."),
 "C02": ("constructor-keyword dataflow + field-consumption taint over lowering rules (AST flow analysis)",
         "Decides the metadata clause literally (every lowering rule builds its IndexLambda with shape/dtype/axes/tags/non_equality_tags taken from the node) and three necessary conditions of the value clause (every kind has a rule in both registries; every semantic field of the node flows into the emitted expression or bindings; every binding name used in the expression is bound). Does NOT decide the index arithmetic."),
 "C03": ("who-may-call reachability + guard-interval abstract evaluation + sibling agreement of operators / slice halves (AST)",
         "Decides structural clauses: shape/dtype of every concrete kind resolve to a field or run-time property whose call graph never reaches code generation/evaluation (eager availability), and each axis-taking constructor's guard interval lies inside the interval its own shape property can index (rejected at build time, not later); every sequence splice has a non-negative position; forward and reflected operators agree; slice start and stop are clamped alike, like slice.indices; accumulating loops of shape inference read the accumulator. Does NOT decide agreement with NumPy's promotion/broadcast tables."),
 "C04": ("(node kind, field) enumeration of equality handlers vs hash/pickle field sets by access-path flow analysis",
         "Decides that for every concrete node kind the hand-written equality handler reads every dataclass field (except non_equality_tags) on both operands, that every component entering the hash is compared (equal => equal hash), that comparisons pair the same component of both operands in conjunctive form (symmetry/reflexivity by form), that hand-written hashes aggregate mappings order-free, and that generated pickling state is fields-only. Complete over the finite (kind, field) product; transitivity through third-party leaf __eq__ is trusted."),
 "C05": ("effect analysis (no store/mutating call through handler parameters) + rebuild keyword dataflow (AST flow analysis)",
         "Decides: no transformation handler stores through or calls a mutator on anything reachable from its argument (incl. wrapped data); every copy handler rebuilds field f from expr.f only, with the mapping's own keys; identity copies go through replace_if_different; tag-only APIs pass every other field through unchanged. Does NOT decide value preservation or idempotence."),
 "C06": ("finite-domain abstract evaluation of the distribution predicate (truth table) + branch/operator agreement (AST)",
         "Decides exactly, over the 18 x 2 x 2 x 2 abstract domain, that _can_hlo_be_distributed admits only algebraic identities (+,- on equal-shape arrays; * by a scalar; / by a scalar denominator), that each handled op applies the matching Python operator to (x1, x2) in order, and that the einsum context is rebuilt with exactly one operand replaced. Does NOT decide numerical equality for all inputs."),
 "C07": ("must-pass-through + provenance + tag-conditional inventory (AST path walker)",
         "Decides: every ImplementedResult.to_loopy_expression propagates depends_on on every path; every implementation-strategy branch stores a result derived from the one generated expression and unknown strategies raise; no tag-dependent branch exists in expression-producing lowering code other than the documented AssumeNonNegative promise; tag-changing APIs preserve every non-tag field. Does NOT decide equivalence of generated kernels."),
 "C09": ("collective-sequence agreement across rank branches + who-may-return + same-mapping rule (AST path walker)",
         "Decides code-shape conditions without which ranks cannot agree: every rank executes the same sequence of MPI collectives on every path (exception edges included) and continues with the broadcast value; parts cannot contain communication nodes (both comm kinds overridden and replaced); both ends of a message are renumbered through one first-seen, strictly increasing map built from an ordered collection; a stored array's part bound is the minimum over all sends depending on it; the verifier resolves part inputs against the outputs and receives of all parts. Does NOT decide the partition invariants on concrete partitions."),
 "C10": ("raise-site reachability in the call graph + check-before-insert dominance (AST path walker)",
         "Decides: each diagnostic named by the property has a raise site reachable from find_distributed_partition/verify_distributed_partition that no handler swallows; every insertion into a send/recv identifier table is dominated by a raising membership test on the same key; comm identifiers for local nodes are only built by the helpers that reject self-communication; the root broadcasts the exception before re-raising; no recursion between a duplicate test and the insertion it protects; accumulated part-graph edges are never reassigned; the allreduce merge is a key-wise union; the loop over the broadcast schedule is guarded by global values only. Does NOT decide that every malformed pattern is caught."),
 "C12": ("name-origin abstract evaluation of trace_call + recursion-receiver rule (AST flow analysis)",
         "Decides: the parameter set, the binding keys and the placeholder names built by trace_call are the same strings per argument group; FunctionDefinition.__call__ and Call.__post_init__ check the same relation; every map_function_definition recurses into the body through a fresh/cloned mapper, never self; return-key schemes agree. Does NOT decide value equality of outlined and inlined graphs."),
 "C13": ("(mapper, node kind, edge) enumeration by access-path flow analysis + cache path rules (AST path walker)",
         "Decides that every traversal family recurses into every child-carrying access path of every node kind (derived from field annotations), that dispatch in every rec override is reachable only after a failed cache lookup and its result is cached, that no override double-caches, that cache keys include every extra argument, and that collisions are re-raised. Complete over the finite product; visit counts on concrete graphs are not measured."),
 "C14": ("emitted-name set vs NumPy stub __all__ + emitter table totality + field consumption (AST)",
         "Decides: every attribute the generator can emit on the array module exists in the installed NumPy's __all__ (read statically from numpy/__init__.pyi); emitter tables cover every BinaryOpType/ReductionOperation/HighLevelOp or raise; every semantic field of every supported kind is read by its handler; the argument list and the expected-argument set come from one collection, iterated in deterministic order; unsupported kinds raise. Does NOT decide computed values."),
 "C15": ("must-precede + string-provenance abstract evaluation (AST)",
         "Decides: name generators are seeded with all input and output names before anything is minted; every kernel argument/temporary/iname/instruction name is user-given, an output key, or minted by the seeded generator; the Named path tests for conflicts before adding; NameClashError covers the three named input kinds; bound data is handed back unmodified. Does NOT decide collisions with names loopy invents later."),
 "C16": ("who-may-compare rule on shape-typed operands + decision-shape check (AST)",
         "Decides that shape components are compared only through are_shape_components_equal/are_shapes_equal (raw ==/!= on shape-typed operands is flagged unless both sides are proven integers), and that the decision procedure returns True only for a constant-zero difference over a sorted parameter space, every other exit being integer equality; symbolic components are bound in lowered lambdas under generator-made names. Does NOT decide generated code for all sizes."),
 "C17": ("unordered-iteration analysis with form-based discharge and a reviewed-instance table (AST)",
         "Decides that no iteration over a set/frozenset-typed value (or a dict filled from one), and no id()/hash()-derived ordering, reaches generated names, statement order, part order or tag numbers in the artefact-producing modules, and that the sorted/ordered-set mechanisms the property names are still in place. Complete over the listed modules; ordering inside loopy/islpy/mpi4py is trusted."),
 "C18": ("attribute-flow into the key builder + annotation closure (AST)",
         "Decides: the ndarray updater feeds dtype, shape and bytes (logical order) to the key and numpy scalars are keyed with their dtype; key updaters write no shared state and feed compared fields whole; every repo class reachable through field annotations is a dataclass (all fields keyed) or has an update_persistent_hash reading all its fields; no hash()/id()/unordered iteration inside key updaters; the hash cache is not pickled. Does NOT decide digest collision freedom."),
 "C19": ("constructor arity vs dataclass fields + operand-order vs pymbolic field order + cascade contradiction + table totality (AST)",
         "Decides: every HighLevelOp construction binds exactly its fields; ordered operand pairs are extracted in the scalar node's own field order; a value known to be of type T is only handed to a cascade that has a case for T; the op tables cover every type/name the front end emits; producers build the node types the raiser tests for. Does NOT decide pointwise value agreement."),
 "C20": ("converse-relation matrix (users vs predecessors per edge kind) + post-order path rule + count-key rules (AST flow analysis)",
         "Decides per (node kind, edge kind) that the users collectors register exactly the edges the predecessor getter returns, that walkers call post_visit only after recursing into every child (post-order => topological order), and that count/multiplicity/tag-count mappers key and increment as their contract says. Complete over the finite product; counts on concrete graphs are not measured."),
}

NA = {
 "C08": "Quantifies over interleavings of message completions/part executions and over termination: deciding it means exploring the executor's state space (model checking), which no source-level static argument in reach bounds. The partitioner-side structural conditions are claimed under C09/C10.",
 "C11": "Containment of every affine access in its array's extent for all loop-index/size-parameter valuations is a Presburger question about generated kernels that do not exist until code generation runs; deciding it is integer-set solving (ISL/SMT), the solver family, not static analysis of the source.",
}


def main():
    props = [json.loads(l) for l in open(f"{V}/properties.jsonl")]
    checks, na, claimed = [], [], []
    for p in props:
        pid = p["id"]
        if pid in NA:
            na.append({"property_id": pid, "reason": NA[pid]})
            continue
        if not os.path.exists(f"{V}/pta/rules/{pid.lower()}.py"):
            na.append({"property_id": pid, "reason":
                       "check not built yet (designed in DESIGN.md section 5)"})
            continue
        tech, text = CLAIMS[pid]
        claimed.append(pid)
        checks.append({
            "property_id": pid,
            "quick_cmd": f"cd /verif && /venv/bin/python -m pta.check {pid} --tier quick",
            "thorough_cmd": f"cd /verif && /venv/bin/python -m pta.check {pid} --tier thorough",
            "evidence_file": f"/verif/evidence/{pid}.json",
            "replay_cmd_template": f"cd /verif && /venv/bin/python -m pta.check {pid} --replay {{path}}",
            "engine": "pta",
            "level_claimed": {"category": "other", "text": text,
                              "design_ref": f"DESIGN.md section 5 ({pid})"},
            "level_note": NOTE,
            "technique": "static analysis: " + tech,
        })
    man = {
        "version": 1,
        "setup_cmd": "cd /verif && /venv/bin/python -m compileall -q pta",
        "hooks": {
            "guard": "PYTATO_VERIF",
            "enable": "none needed: the checks read /repo's source; there is no instrumentation in /repo",
            "baseline_off_cmd": "/verif/tools/baseline.sh",
            "source_commits": [],
            "add_only": True,
        },
        "engines": [{
            "name": "pta", "path": "/verif/pta", "serves_properties": claimed,
            "kind_free_text": "stdlib-only static analyser over the AST of /repo/pytato: class/MRO/dataclass model, access-path flow analysis, statement-path walker, finite abstract evaluation, unordered-iteration analysis; exit 0 held / 1 VIOLATION / 2 ANALYSIS-ERROR",
        }],
        "checks": checks,
        "not_applicable": na,
        "notes": "Static analysis only (see DESIGN.md). All levels are 'other': each check decides named structural clauses that are necessary conditions of the behavioural property, by complete enumeration over the source; none executes pytato. Genuine defects found on the pinned tree are listed in known_findings.json (fixed ones as 'fixed:' entries with the /repo commit).",
    }
    json.dump(man, open(f"{V}/MANIFEST.json", "w"), indent=1)
    print("claimed:", claimed)
    print("not_applicable:", [x["property_id"] for x in na])


if __name__ == "__main__":
    main()
