"""Case-split evaluation of a short statement list (no solver, no execution).

``run(stmts, decide)`` walks a list of statements once for every combination of
truth values of the tests it meets, and returns what happens in each case as a
tuple of *events*:

    ("call", "indices.append", ("idx % axis_len",))     an expression statement
    ("store", "bindings", "vng('in')", "axis_len")       X[k] = v
    ("aug", "islice_idx", "Add", "1")                    x += 1
    ("exit", "continue" | "break" | "return <e>" | "raise")

Locals that are assigned on the way are substituted into later expressions, so
``m = axis_len`` / ``indices.append(idx % m)`` and ``indices.append(idx %
axis_len)`` give the same event.  ``decide(test) -> True | False | None | "skip"``
says what is known about a test (an ``ast`` expression, locals already
substituted): known, unknown (both arms are walked, the case is recorded), or
not of interest (neither arm is walked).  Conditional expressions inside event
arguments are resolved through the same cases.  Loops, try and with statements
are recorded as opaque events.

Two pieces of code that produce the same table {case -> events} do the same
thing as far as these events are concerned, however their ifs are arranged
(if/elif chain, guard + continue, helper with an early return...).
"""
from __future__ import annotations

import ast

from pta.model import AnalysisError, _cp

MAX_CASES = 64


class _Sub(ast.NodeTransformer):
    def __init__(self, env):
        self.env = env

    def visit_Name(self, n):
        if isinstance(n.ctx, ast.Load) and n.id in self.env:
            return _cp(self.env[n.id])
        return n


def _txt(e):
    return " ".join(ast.unparse(e).split())


def _key(test):
    """(text, polarity) with leading nots folded"""
    pol = True
    while True:
        if isinstance(test, ast.UnaryOp) and isinstance(test.op, ast.Not):
            test, pol = test.operand, not pol
            continue
        # a != b is not (a == b); likewise `not in`, `is not`
        if isinstance(test, ast.Compare) and len(test.ops) == 1 \
                and isinstance(test.ops[0], (ast.NotEq, ast.NotIn, ast.IsNot)):
            pos = {ast.NotEq: ast.Eq, ast.NotIn: ast.In, ast.IsNot: ast.Is}[type(test.ops[0])]
            test = ast.Compare(left=test.left, ops=[pos()], comparators=test.comparators)
            pol = not pol
            continue
        break
    # symmetric comparison: the literal / f-string side on the right, else by text
    if isinstance(test, ast.Compare) and len(test.ops) == 1 \
            and isinstance(test.ops[0], (ast.Eq, ast.Is)):
        l, r = test.left, test.comparators[0]
        lit = lambda x: isinstance(x, (ast.Constant, ast.JoinedStr))   # noqa: E731
        if (lit(l) and not lit(r)) or (lit(l) == lit(r) and _txt(l) > _txt(r)):
            test = ast.Compare(left=r, ops=test.ops, comparators=[l])
    return _txt(test), pol


class Runner:
    def __init__(self, decide):
        self.decide = decide

    # -- tests -------------------------------------------------------------
    def _truth(self, test, cases):
        """[(cases', True|False|"skip")] for a test under the known cases"""
        if isinstance(test, ast.BoolOp):
            # left to right with short circuit
            res = isinstance(test.op, ast.And)
            alts = [(cases, None)]
            for v in test.values:
                nxt = []
                for cs, done in alts:
                    if done is not None:
                        nxt.append((cs, done))
                        continue
                    for cs2, t in self._truth(v, cs):
                        if t == "skip":
                            nxt.append((cs2, "skip"))
                        elif t != res:
                            nxt.append((cs2, t))
                        else:
                            nxt.append((cs2, None))
                alts = nxt
            return [(cs, res if d is None else d) for cs, d in alts]
        txt, pol = _key(test)
        if txt in cases:
            return [(cases, cases[txt] == pol)]
        inner = ast.parse(txt, mode="eval").body
        d = self.decide(inner)
        if d == "skip":
            return [(cases, "skip")]
        if d is True or d is False:
            return [(cases, d == pol)]
        out = []
        for val in (True, False):
            cs = dict(cases)
            cs[txt] = val
            out.append((cs, val == pol))
        return out

    # -- expressions: resolve conditional expressions through the cases -----
    def _expr(self, e, env, cases):
        """[(cases', expression with locals substituted and decided IfExps resolved)]"""
        e = _Sub(env).visit(_cp(e))
        return self._resolve(e, cases)

    def _resolve(self, e, cases):
        for n in ast.walk(e):
            if isinstance(n, ast.IfExp):
                out = []
                for cs, t in self._truth(n.test, cases):
                    if t == "skip":
                        return [(cases, e)]
                    repl = n.body if t else n.orelse
                    e2 = _Replace(n, repl).visit(_cp_keep(e, n))
                    out += self._resolve(e2, cs)
                return out
        return [(cases, e)]

    # -- statements ----------------------------------------------------------
    def run(self, stmts, env=None, cases=None):
        """-> [(cases, events)]"""
        states = [(dict(env or {}), dict(cases or {}), ())]
        done = []
        for st in stmts:
            nxt = []
            for env_, cs, ev in states:
                for r in self._stmt(st, env_, cs, ev):
                    (done if r[3] else nxt).append(r[:3])
            states = nxt
            if len(states) + len(done) > MAX_CASES:
                raise AnalysisError("case explosion in symrun")
        return [(cs, ev) for _e, cs, ev in done + states]

    def _stmt(self, st, env, cases, ev):
        """-> [(env, cases, events, finished?)]"""
        if isinstance(st, (ast.Pass, ast.Assert, ast.Import, ast.ImportFrom,
                           ast.FunctionDef, ast.ClassDef, ast.Global, ast.Nonlocal)):
            return [(env, cases, ev, False)]
        if isinstance(st, ast.AnnAssign) and st.value is None:
            return [(env, cases, ev, False)]
        if isinstance(st, (ast.Assign, ast.AnnAssign)):
            tgts = st.targets if isinstance(st, ast.Assign) else [st.target]
            out = []
            for cs, v in self._expr(st.value, env, cases):
                env2, ev2 = dict(env), ev
                for t in tgts:
                    if isinstance(t, ast.Name):
                        env2 = _prime(env2, t.id)
                        env2[t.id] = v
                    elif isinstance(t, ast.Subscript):
                        k = _Sub(env).visit(_cp(t.slice))
                        ev2 = ev2 + (("store", _txt(_Sub(env).visit(_cp(t.value))),
                                      _txt(k), _txt(v)),)
                    else:
                        ev2 = ev2 + (("assign", _txt(t), _txt(v)),)
                out.append((env2, cs, ev2, False))
            return out
        if isinstance(st, ast.AugAssign):
            out = []
            for cs, v in self._expr(st.value, env, cases):
                env2 = env
                if isinstance(st.target, ast.Name):
                    # values computed from the old value of the target keep it: the
                    # old value is written <name>'
                    env2 = _prime(env, st.target.id)
                out.append((env2, cs, ev + (("aug", _txt(st.target), type(st.op).__name__,
                                             _txt(v)),), False))
            return out
        if isinstance(st, ast.Expr):
            if isinstance(st.value, ast.Constant):
                return [(env, cases, ev, False)]
            out = []
            for cs, v in self._expr(st.value, env, cases):
                if isinstance(v, ast.Call):
                    e = ("call", _txt(v.func), tuple(_txt(a) for a in v.args)
                         + tuple(f"{k.arg}={_txt(k.value)}" for k in v.keywords))
                else:
                    e = ("expr", _txt(v))
                out.append((env, cs, ev + (e,), False))
            return out
        if isinstance(st, ast.If):
            out = []
            t0 = _Sub(env).visit(_cp(st.test))
            for cs, t in self._truth(t0, cases):
                if t == "skip":
                    out.append((env, cs, ev, False))
                    continue
                states = [(dict(env), cs, ev)]
                fin = []
                for s2 in (st.body if t else st.orelse):
                    nxt = []
                    for env_, cs_, ev_ in states:
                        for r in self._stmt(s2, env_, cs_, ev_):
                            (fin if r[3] else nxt).append(r[:3])
                    states = nxt
                out += [(a, b, c_, True) for a, b, c_ in fin]
                out += [(a, b, c_, False) for a, b, c_ in states]
            return out
        if isinstance(st, (ast.Continue, ast.Break)):
            return [(env, cases, ev + (("exit", type(st).__name__.lower()),), True)]
        if isinstance(st, ast.Return):
            if st.value is None:
                return [(env, cases, ev + (("exit", "return"),), True)]
            return [(env, cs, ev + (("exit", "return " + _txt(v)),), True)
                    for cs, v in self._expr(st.value, env, cases)]
        if isinstance(st, ast.Raise):
            return [(env, cases, ev + (("exit", "raise"),), True)]
        return [(env, cases, ev + (("opaque", type(st).__name__),), False)]


def _prime(env, name):
    """env in which every recorded value that mentions ``name`` mentions ``name'``
    (its value before the update) instead"""
    class P_(ast.NodeTransformer):
        def visit_Name(self, x):
            return ast.Name(id=name + "_OLD", ctx=x.ctx) if x.id == name else x
    out = {}
    for k, v in env.items():
        if any(isinstance(x, ast.Name) and x.id == name for x in ast.walk(v)):
            out[k] = P_().visit(_cp(v))
        else:
            out[k] = v
    return out


class _Replace(ast.NodeTransformer):
    def __init__(self, old, new):
        self.old, self.new = old, new

    def visit(self, node):
        if getattr(node, "_mark", None) is self.old:
            return _cp(self.new)
        return super().visit(node)


def _cp_keep(e, marked):
    """copy of e in which the copy of ``marked`` can be found again"""
    def cp(n):
        if isinstance(n, list):
            return [cp(x) for x in n]
        if not isinstance(n, ast.AST):
            return n
        new = type(n)()
        for f in n._fields:
            if hasattr(n, f):
                setattr(new, f, cp(getattr(n, f)))
        for a in n._attributes:
            if hasattr(n, a):
                setattr(new, a, getattr(n, a))
        if n is marked:
            new._mark = marked
        return new
    return cp(e)


def read_then_advance(events):
    """`x += 1` followed by an event that reads the value x had BEFORE (written
    x_OLD) is the same as that event followed by `x += 1`: the canonical order is
    read first, then advance"""
    ev = list(events)
    changed = True
    while changed:
        changed = False
        for i in range(1, len(ev)):
            a, b = ev[i - 1], ev[i]
            if a[0] == "aug" and isinstance(a[1], str) and a[1].isidentifier():
                old = a[1] + "_OLD"
                txt = repr(b)
                import re
                if old in txt and not re.search(r"\b" + re.escape(a[1]) + r"\b(?!_OLD)", txt):
                    def ren(o):
                        if isinstance(o, tuple):
                            return tuple(ren(z) for z in o)
                        if isinstance(o, str):
                            return re.sub(r"\b" + re.escape(old) + r"\b", a[1], o)
                        return o
                    ev[i - 1], ev[i] = ren(b), a
                    changed = True
                    break
    return tuple(ev)


def table(stmts, decide, env=None, cases=None):
    """{frozenset(case items) -> events} for a statement list"""
    out = {}
    for cs, ev in Runner(decide).run(stmts, env, cases):
        out[frozenset(cs.items())] = ev
    return out
