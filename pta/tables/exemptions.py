"""By-design deviations: one construct each, one-line reason each.

Key = (rule, instance).  Reported in evidence as `exempt`, never as findings.
"""

EXEMPT: dict[tuple[str, str], str] = {
    # NamedCallResult: axes/tags are copied from function.returns[name] by
    # Call.__getitem__ (the only producer) and tagging/with_tagged_axis raise;
    # they are functions of (_container, name), which are compared.
    ("R04-EQ-FIELD", "NamedCallResult.axes"):
        "axes of a NamedCallResult are a function of (_container, name): "
        "Call.__getitem__ is the only producer and re-tagging raises",
    ("R04-EQ-FIELD", "NamedCallResult.tags"):
        "tags of a NamedCallResult are a function of (_container, name): "
        "Call.__getitem__ is the only producer and re-tagging raises",
    ("R04-HASH-SUBSET", "NamedCallResult.axes"):
        "determined by (_container, name), see R04-EQ-FIELD exemption",
    ("R04-HASH-SUBSET", "NamedCallResult.tags"):
        "determined by (_container, name), see R04-EQ-FIELD exemption",
}
