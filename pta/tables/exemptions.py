"""By-design deviations: one construct each, one-line reason each.

Key = (rule, instance).  Reported in evidence as `exempt`, never as findings.
"""

_NS = ("the callee body is a different name space: users/dependencies are "
       "collected per name space (comment in DependencyMapper.map_call; "
       "UsersCollector.map_function_definition raises with that instruction)")
_EDL = ("rewriting pass leaves index arrays and shape expressions as they are "
        "(value-preserving: einsums inside them are simply not rewritten)")

EXEMPT: dict[tuple[str, str], str] = {
    ("R20-CONVERSE", "UsersCollector.map_distributed_send_ref_holder:user=expr.send"):
        "by design the user of the sent data is the send, not the holder: there is no "
        "dataflow from send.data to the holder (the list collector says so in a comment "
        "and records no user at all for it)",
    ("R20-CONVERSE", "DistributedSendRefHolder.send.data"):
        "documented in ListOfUsersCollector's docstring: the send-ref holder is "
        "not a user of send.data (no data flows from it into the holder)",
    ("R20-CONVERSE", "UsersCollector:DistributedSendRefHolder.send.data"):
        "same as for the list collector (documented there): the send-ref holder is not a "
        "user of send.data; the data reaches no node through the holder",
    ("R13-CHILDREN", "UsersCollector/Call.function"): _NS,
    ("R13-CHILDREN", "ListOfUsersCollector/Call.function"): _NS,
    ("R13-CHILDREN-OVR", "DependencyMapper/Call.function"): _NS,
    ("R13-CHILDREN-OVR", "SubsetDependencyMapper/Call.function"): _NS,
    ("R13-CHILDREN-OVR",
     "_DistributedInputReplacer/DistributedSendRefHolder.send.data"):
        "the send is processed explicitly through map_distributed_send after "
        "the holders were removed from the DAG (comment in the class)",
    ("R13-CHILDREN-OVR",
     "EinsumDistributiveLawMapper/AdvancedIndexInContiguousAxes.indices"): _EDL,
    ("R13-CHILDREN-OVR",
     "EinsumDistributiveLawMapper/AdvancedIndexInNoncontiguousAxes.indices"): _EDL,
    ("R13-CHILDREN-OVR", "EinsumDistributiveLawMapper/BasicIndex.indices"): _EDL,
    ("R13-CHILDREN-OVR", "EinsumDistributiveLawMapper/IndexLambda.shape"): _EDL,
    ("R13-CHILDREN-OVR", "EinsumDistributiveLawMapper/Reshape.newshape"): _EDL,
    # NamedCallResult: axes/tags are copied from function.returns[name] by
    # Call.__getitem__ (the only producer) and tagging/with_tagged_axis raise;
    # they are functions of (_container, name), which are compared.
    ("R04-EQ-FIELD", "NamedCallResult.axes"):
        "axes of a NamedCallResult are a function of (_container, name): "
        "Call.__getitem__ is the only producer and re-tagging raises",
    ("R04-EQ-FIELD", "NamedCallResult.tags"):
        "tags of a NamedCallResult are a function of (_container, name): "
        "Call.__getitem__ is the only producer and re-tagging raises",
    ("R04-HASH-SUBSET", "NamedCallResult.axes"):
        "determined by (_container, name), see R04-EQ-FIELD exemption",
    ("R04-HASH-SUBSET", "NamedCallResult.tags"):
        "determined by (_container, name), see R04-EQ-FIELD exemption",
}


def exempt_by_rule(rule: str, mapper: str, kind: str, path: tuple) -> str | None:
    """Rule-derived exemptions (one documented design decision each)."""
    if rule.startswith("R13-CHILDREN") and mapper == "MPMSMaterializer" \
            and path[-1] in ("shape", "newshape"):
        return ("materialize_with_mpms docstring: 'Does not attempt to "
                "materialize sub-expressions in Array.shape'")
    return None
