"""Reviewed unordered iterations: one line per instance, keyed by
function qualname + normalised text of the iteration construct (never a line
number), with the reason the order cannot reach an artefact."""

_TAGS = ("lp.tag_inames accumulates into the iname's frozenset of tags: the "
         "resulting kernel does not depend on the order tags are added")
_ERR = "only builds the text of an error message on a path that raises"
_BFS = ("breadth-first work list; the function returns a frozenset, traversal "
        "order does not matter")
_LIN = ("order of unknowns/parameters of a linear system: the (unique) solution "
        "mapping does not depend on it")

REVIEWED: dict[str, str] = {
    # ---- front end
    "array.make_index_lambda::for redn_var in redn_vars":
        "fills a mapping keyed by distinct reduction-variable names that becomes a "
        "constantdict (order-free ==/hash/persistent key); consumers do keyed "
        "lookups and mint one name per key whose base contains the key",
    "array.make_index_lambda::constantdict(processed_var_to_reduction_descr)":
        "see the loop that fills it: a constantdict is order-free for ==/hash/keys",
    "function.FunctionDefinition._placeholders::constantdict({pl.name: pl for pl in placeholders})":
        "name -> placeholder lookup table; iterated only by the argument "
        "validation loop in __call__ (which mismatch is reported first may vary)",
    "loopy.extend_bindings_with_shape_inference::list({_lp_var_to_global_namespace(var) for var in lp_size_params})": _LIN,
    "loopy.extend_bindings_with_shape_inference::list({_pt_var_to_global_namespace(var.name) for var in pt_size_params})": _LIN,
    "utils.are_shape_components_equal::[expr for expr in inputs if isinstance(expr, SizeParam | Placeholder)]":
        "the list is only turned into a set of names; the parameter space is built "
        "from sorted(names)",
    # ---- code generation
    "codegen._generate_name_for_temp::iter(expr.tags_of_type(_BaseNameTag))": _ERR,
    "target.loopy.codegen.CodeGenMapper.map_index_lambda::iter(expr.tags_of_type(ImplementationStrategy))": _ERR,
    "target.loopy.codegen.add_store::for tag in axis.tags": _TAGS,
    "target.loopy.codegen.InlinedExpressionGenMapper.map_reduce::for tag in local_ctx.var_to_reduction_descr[old_var_name].tags": _TAGS,
    "codegen.check_validity_of_outputs::for ary in exprs.values()":
        "validation walk that only raises; nothing is named or emitted",
    "codegen.preprocess::constantdict({name: get_deps(output.expr) for name, output in outputs.items()})":
        "keyed mapping name -> dependencies; its only consumer is "
        "compute_topological_order(dag, key=...), which breaks ties by key",
    # ---- transformations
    "transform.metadata.AxesTagsEquationCollector.record_equations_from_axes_tags::for tag in axis.tags_of_type(self.tag_t)":
        "mints variable names internal to the unification; the solution is a "
        "mapping to sets of tags",
}


# Functions reviewed as a whole: they compute a set-valued closure (worklist
# over a graph), so the order in which the worklist is filled and drained cannot
# be observed: the visited *set* is the reachable set whatever the order.  The
# review holds for any way of writing the loop as long as -- checked by form on
# every run -- every return hands out a freshly built set/frozenset, nothing is
# yielded, and only local names are written.
SET_CLOSURES = {
    "transform._recursively_get_all_users":
        "reachable-set computation over the users graph; returns frozenset(...)",
}


def returns_only_sets(fd):
    import ast
    params = {a.arg for a in fd.args.args + fd.args.kwonlyargs + fd.args.posonlyargs}
    rets = 0
    for n in ast.walk(fd):
        if isinstance(n, (ast.Yield, ast.YieldFrom, ast.Global, ast.Nonlocal)):
            return False
        if isinstance(n, ast.Return):
            rets += 1
            v = n.value
            if not (isinstance(v, ast.SetComp) or (
                    isinstance(v, ast.Call) and isinstance(v.func, ast.Name)
                    and v.func.id in ("set", "frozenset"))):
                return False
        if isinstance(n, (ast.Attribute, ast.Subscript)) and isinstance(
                n.ctx, (ast.Store, ast.Del)):
            return False
        if isinstance(n, ast.Call) and isinstance(n.func, ast.Attribute) \
                and isinstance(n.func.value, ast.Name) and n.func.value.id in params \
                and n.func.attr in ("append", "extend", "insert", "add", "update", "pop",
                                    "remove", "discard", "clear", "setdefault", "sort"):
            return False
    return rets > 0


# --- lookup that survives local renames -------------------------------------
# The table above is written with the code's own variable names so that it
# can be read next to the source; matching is done on the alpha-normalised
# text (plain variables renamed v0, v1, ... in order of occurrence), and one
# entry exempts exactly one site: a second iteration of the same shape in the
# same function is not covered by the review and is reported.
from collections import Counter as _Counter

from pta.pat import alpha as _alpha

_NORM: dict[str, list] = {}
for _k, _v in REVIEWED.items():
    _f, _t = _k.split("::", 1)
    _NORM.setdefault(_f + "::" + _alpha(_t), []).append((_k, _v))


class Reviewed:
    """Lookup of reviewed iterations.  An entry is written for a function, but the
    review is about the iteration, not about where it lives: when the code was
    moved into a helper of the same module ('extract function'), the entry is
    still found through its module; either way one entry covers one site."""

    def __init__(self, model=None):
        self.used = _Counter()
        self.matched: set[str] = set()
        self.m = model
        self._by_module = None

    def _module_index(self):
        if self._by_module is None:
            self._by_module = {}
            mods = sorted((x.replace("pytato.", "", 1) for x in self.m.modules), key=len,
                          reverse=True)
            for nk, entries in _NORM.items():
                f, t = nk.split("::", 1)
                mod = next((x for x in mods if f == x or f.startswith(x + ".")), None)
                if mod is not None:
                    self._by_module.setdefault(mod + "::" + t, []).extend(entries)
        return self._by_module

    def lookup(self, site):
        if site.func in SET_CLOSURES and self.m is not None:
            fd = self.m.enclosing_function(site.node)
            if fd is not None and returns_only_sets(fd):
                self.matched.add(site.func)
                return SET_CLOSURES[site.func]
        if self.m is not None:
            # a private helper (say, a generator that walks the work list) whose only
            # callers are reviewed closures that turn what it hands back into a set
            fd = self.m.enclosing_function(site.node)
            from pta.rules.common import only_called_from
            roots = {k.split(".")[-1]: k for k in SET_CLOSURES}
            if fd is not None and fd.name not in roots and fd.name.startswith("_") \
                    and only_called_from(self.m, fd, tuple(roots)):
                mi = self.m.module_of(fd)
                owners = [mi.functions[r] for r in roots if r in mi.functions]
                if owners and all(returns_only_sets(o) for o in owners):
                    k = roots[owners[0].name]
                    self.matched.add(k)
                    return SET_CLOSURES[k] + f" (helper of {owners[0].name})"
        text = _alpha(site.stmt_text)
        nk = site.func + "::" + text
        entries = _NORM.get(nk, [])
        i = self.used[nk]
        if i < len(entries):
            self.used[nk] += 1
            self.matched.add(entries[i][0])
            return entries[i][1]
        if self.m is not None:
            mod = self.m.module_of(site.node).name.replace("pytato.", "", 1)
            mk = mod + "::" + text
            entries = [e for e in self._module_index().get(mk, []) if e[0] not in self.matched]
            if entries:
                self.matched.add(entries[0][0])
                return entries[0][1] + " (entry written for " + entries[0][0].split("::")[0] + ")"
        return None
