"""Program model of /repo/pytato built from the AST only.

Imports, classes, C3 MRO, dataclass fields, mapper-method dispatch,
class-level aliases, properties, module-level tables and functions.
Nothing from pytato is imported.
"""
from __future__ import annotations

import ast
import hashlib
import re
from pathlib import Path


class AnalysisError(Exception):
    """The analyser could not decide (vanished anchor, unmodelled construct).

    Always ends in exit code 2, never in a VIOLATION."""


DC_DECOS = ("array_dataclass", "opt_frozen_dataclass", "dataclasses.dataclass",
            "dataclass", "tag_dataclass", "expr_dataclass")

# same regular expression as pytato.array._CAMEL_TO_SNAKE_RE
_CAMEL = re.compile(r"(?<=[a-z])(?=[A-Z])|(?<=[A-Z])(?=[A-Z][a-z])")


def norm(node_or_src) -> str:
    """Normalised text of a statement/expression (formatting independent)."""
    if isinstance(node_or_src, ast.AST):
        return ast.unparse(node_or_src)
    return ast.unparse(ast.parse(node_or_src))


class ModuleInfo:
    def __init__(self, name: str, path: Path, src: str, tree: ast.Module,
                 is_pkg: bool):
        self.name = name
        self.path = path
        self.src = src
        self.lines = src.splitlines()
        self.tree = tree
        self.is_pkg = is_pkg
        self.imports: dict[str, str] = {}
        self.functions: dict[str, ast.FunctionDef] = {}   # top-level
        self.assigns: dict[str, ast.expr] = {}            # top-level NAME = value
        self.ann: dict[str, ast.expr] = {}                # top-level NAME: ann
        self.classes: dict[str, ClassInfo] = {}
        self.digest = hashlib.sha1(src.encode()).hexdigest()

    def relpath(self, root: Path) -> str:
        try:
            return str(self.path.relative_to(root))
        except ValueError:
            return str(self.path)


class ClassInfo:
    def __init__(self, module: ModuleInfo, node: ast.ClassDef, outer: str = ""):
        self.module = module
        self.node = node
        self.name = node.name
        self.qn = f"{module.name}.{outer}{node.name}"
        self.bases: list[str] = []
        self.base_srcs: list[str] = []
        self.decorators = [ast.unparse(d) for d in node.decorator_list]
        # (name, annotation node, has_default, kw_only, default node)
        self.own_fields: list[tuple] = []
        self.methods: dict[str, ast.FunctionDef] = {}
        self.props: set[str] = set()
        self.stub_methods: set[str] = set()   # only under TYPE_CHECKING
        self.aliases: dict[str, str] = {}
        self.classvars: dict[str, ast.expr | None] = {}

    def is_dc(self) -> bool:
        return any(d.split("(")[0] in DC_DECOS for d in self.decorators)

    def deco_kwargs(self) -> dict[str, str]:
        out = {}
        for d in self.node.decorator_list:
            if isinstance(d, ast.Call):
                for k in d.keywords:
                    if k.arg:
                        out[k.arg] = ast.unparse(k.value)
        return out

    def __repr__(self):
        return f"<Class {self.qn}>"


def _iter_class_body(body, in_tc=False):
    """Yield (stmt, under_type_checking) descending into ``if __debug__`` and
    ``if TYPE_CHECKING`` class-body blocks."""
    for st in body:
        if isinstance(st, ast.If):
            t = ast.unparse(st.test)
            if t == "TYPE_CHECKING":
                yield from _iter_class_body(st.body, True)
                yield from _iter_class_body(st.orelse, in_tc)
            elif t == "__debug__":
                yield from _iter_class_body(st.body, in_tc)
            else:
                yield from _iter_class_body(st.body, in_tc)
                yield from _iter_class_body(st.orelse, in_tc)
        else:
            yield st, in_tc


class Model:
    def __init__(self, repo: str | Path = "/repo", package: str = "pytato",
                 extra_files: dict[str, Path] | None = None):
        self.repo = Path(repo)
        self.pkg = package
        self.modules: dict[str, ModuleInfo] = {}
        self.classes: dict[str, ClassInfo] = {}
        self.byname: dict[str, list[str]] = {}
        self._mro: dict[str, list[str]] = {}
        self._load(extra_files or {})
        self._index()
        self._resolve_bases()

    # ---------------------------------------------------------------- loading
    def _load(self, extra):
        pkgdir = self.repo / self.pkg
        if not pkgdir.is_dir():
            raise AnalysisError(f"package directory {pkgdir} not found")
        files = []
        for p in sorted(pkgdir.rglob("*.py")):
            rel = p.relative_to(self.repo).with_suffix("")
            parts = list(rel.parts)
            is_pkg = parts[-1] == "__init__"
            if is_pkg:
                parts = parts[:-1]
            files.append((".".join(parts), p, is_pkg))
        for name, p in extra.items():
            files.append((name, Path(p), False))
        for name, p, is_pkg in files:
            src = p.read_text()
            try:
                from pta.pat import canon
                tree = canon(ast.parse(src, filename=str(p)))
            except SyntaxError as e:
                raise AnalysisError(f"cannot parse {p}: {e}") from e
            for parent in ast.walk(tree):
                for child in ast.iter_child_nodes(parent):
                    child._parent = parent  # type: ignore[attr-defined]
            self.modules[name] = ModuleInfo(name, p, src, tree, is_pkg)

    def _import_table(self, mi: ModuleInfo):
        tbl = {}
        for n in ast.walk(mi.tree):
            if isinstance(n, ast.ImportFrom):
                base = n.module or ""
                if n.level:
                    pkg = mi.name.split(".")
                    up = pkg if mi.is_pkg else pkg[:-1]
                    up = up[:len(up) - (n.level - 1)]
                    base = ".".join(up + ([n.module] if n.module else []))
                for a in n.names:
                    tbl[a.asname or a.name] = f"{base}.{a.name}"
            elif isinstance(n, ast.Import):
                for a in n.names:
                    if a.asname:
                        tbl[a.asname] = a.name
                    else:
                        tbl[a.name.split(".")[0]] = a.name.split(".")[0]
        return tbl

    def _index(self):
        for mi in self.modules.values():
            mi.imports = self._import_table(mi)
            for st in mi.tree.body:
                self._index_toplevel(mi, st)
            for n in ast.walk(mi.tree):
                if isinstance(n, ast.ClassDef):
                    outer = ""
                    p = getattr(n, "_parent", None)
                    while p is not None and not isinstance(p, ast.Module):
                        if isinstance(p, ast.ClassDef):
                            outer = p.name + "." + outer
                        p = getattr(p, "_parent", None)
                    ci = self._build_class(mi, n, outer)
                    self.classes[ci.qn] = ci
                    if not outer:
                        mi.classes[ci.name] = ci
                    self.byname.setdefault(ci.name, []).append(ci.qn)

    def _index_toplevel(self, mi, st):
        if isinstance(st, (ast.FunctionDef, ast.AsyncFunctionDef)):
            decs = [ast.unparse(d) for d in st.decorator_list]
            if "overload" in decs:
                return
            mi.functions[st.name] = st
        elif isinstance(st, ast.Assign) and len(st.targets) == 1 \
                and isinstance(st.targets[0], ast.Name):
            mi.assigns[st.targets[0].id] = st.value
        elif isinstance(st, ast.AnnAssign) and isinstance(st.target, ast.Name):
            mi.ann[st.target.id] = st.annotation
            if st.value is not None:
                mi.assigns[st.target.id] = st.value
        elif isinstance(st, ast.If):
            t = ast.unparse(st.test)
            if t == "TYPE_CHECKING":
                for s in st.orelse:
                    self._index_toplevel(mi, s)
            else:
                for s in st.body + st.orelse:
                    self._index_toplevel(mi, s)
        elif isinstance(st, ast.Try):
            for s in st.body:
                self._index_toplevel(mi, s)

    def _build_class(self, mi, n, outer):
        ci = ClassInfo(mi, n, outer)
        for st, in_tc in _iter_class_body(n.body):
            if isinstance(st, ast.AnnAssign) and isinstance(st.target, ast.Name):
                if in_tc:
                    continue
                ann = ast.unparse(st.annotation)
                if ann.startswith("ClassVar"):
                    ci.classvars[st.target.id] = st.value
                    continue
                kw_only = False
                has_default = st.value is not None
                if st.value is not None:
                    v = ast.unparse(st.value)
                    kw_only = "kw_only=True" in v
                    if re.match(r"(dataclasses\.)?field\(", v) and "default" not in v:
                        has_default = False
                ci.own_fields.append(
                    (st.target.id, st.annotation, has_default, kw_only, st.value))
            elif isinstance(st, (ast.FunctionDef, ast.AsyncFunctionDef)):
                decs = [ast.unparse(d) for d in st.decorator_list]
                if "overload" in decs:
                    continue
                if in_tc:
                    ci.stub_methods.add(st.name)
                    continue
                if any(d.endswith(".setter") for d in decs):
                    continue
                ci.methods[st.name] = st
                if any(d in ("property", "cached_property",
                             "functools.cached_property", "abstractproperty")
                       for d in decs):
                    ci.props.add(st.name)
            elif isinstance(st, ast.Assign) and len(st.targets) == 1 \
                    and isinstance(st.targets[0], ast.Name):
                if in_tc:
                    continue
                tgt = st.targets[0].id
                if isinstance(st.value, ast.Name):
                    ci.aliases[tgt] = st.value.id
                else:
                    ci.classvars[tgt] = st.value
        return ci

    # ------------------------------------------------------------- resolution
    def resolve_name(self, module: str, dotted: str) -> str | None:
        """Resolve a (dotted) name used in ``module`` to a qualified repo name
        of a class or function if possible."""
        mi = self.modules[module]
        head, _, rest = dotted.partition(".")
        cands = []
        cands.append(f"{module}.{dotted}")
        if head in mi.imports:
            cands.append(mi.imports[head] + (("." + rest) if rest else ""))
        for c in cands:
            r = self._follow(c)
            if r:
                return r
        return None

    def _follow(self, qn: str, depth=0) -> str | None:
        """Follow re-exports: ``pytato.Array`` -> ``pytato.array.Array``."""
        if qn in self.classes:
            return qn
        modname, _, attr = qn.rpartition(".")
        if modname in self.modules:
            mi = self.modules[modname]
            if attr in mi.functions:
                return qn
            if attr in mi.assigns and depth == 0:
                return qn
            if attr in mi.imports and depth < 5:
                return self._follow(mi.imports[attr], depth + 1)
        if qn in self.modules:
            return qn
        return None

    def _resolve_bases(self):
        for ci in self.classes.values():
            for b in ci.node.bases:
                if isinstance(b, ast.Subscript):
                    b = b.value
                src = ast.unparse(b)
                ci.base_srcs.append(src)
                res = self.resolve_name(ci.module.name, src)
                if res not in self.classes:
                    res = None
                if res is None:
                    head = src.split(".")[0]
                    imp = ci.module.imports.get(head, "")
                    nm = src.split(".")[-1]
                    if imp.startswith(self.pkg + ".") and nm in self.byname \
                            and len(self.byname[nm]) == 1:
                        res = self.byname[nm][0]
                ci.bases.append(res or ("EXT:" + src))

    def mro(self, qn: str) -> list[str]:
        if qn in self._mro:
            return self._mro[qn]
        ci = self.classes[qn]
        rb = [b for b in ci.bases if not b.startswith("EXT:")]
        seqs = [list(self.mro(b)) for b in rb] + [list(rb)]
        res = [qn]
        seqs = [s for s in seqs if s]
        while seqs:
            for s in seqs:
                h = s[0]
                if not any(h in t[1:] for t in seqs):
                    break
            else:
                raise AnalysisError("MRO conflict for " + qn)
            res.append(h)
            seqs = [[x for x in s if x != h] for s in seqs]
            seqs = [s for s in seqs if s]
        self._mro[qn] = res
        return res

    def ext_bases(self, qn: str) -> list[str]:
        out = []
        for c in self.mro(qn):
            out += [b[4:] for b in self.classes[c].bases if b.startswith("EXT:")]
        return out

    def is_subclass(self, qn: str, base: str) -> bool:
        return qn in self.classes and base in self.mro(qn)

    def subclasses(self, base: str, strict=False) -> list[str]:
        return sorted(q for q in self.classes
                      if base in self.mro(q) and not (strict and q == base))

    def fields(self, qn: str) -> dict[str, tuple]:
        """dataclass fields in dataclass order -> (ann node, has_default,
        kw_only, defining class)."""
        out: dict[str, tuple] = {}
        for c in reversed(self.mro(qn)):
            ci = self.classes[c]
            if not ci.is_dc():
                continue
            for (n, ann, d, kw, _v) in ci.own_fields:
                out[n] = (ann, d, kw, c)
        return out

    def init_order(self, qn: str) -> list[str]:
        """positional __init__ order (kw_only fields last, not positional)."""
        out = []
        for n, (_a, _d, kw, c) in self.fields(qn).items():
            if kw:
                continue
            dv = [f[4] for f in self.classes[c].own_fields if f[0] == n][0]
            if dv is not None and "init=False" in ast.unparse(dv):
                continue
            out.append(n)
        return out

    def is_dataclass(self, qn: str) -> bool:
        return any(self.classes[c].is_dc() for c in self.mro(qn))

    def mapper_method(self, qn: str) -> str | None:
        for c in self.mro(qn):
            ci = self.classes[c]
            v = ci.classvars.get("_mapper_method")
            if v is not None:
                try:
                    return ast.literal_eval(v)
                except Exception:
                    raise AnalysisError(f"non-literal _mapper_method on {c}")
            if any(d.startswith("array_dataclass") for d in ci.decorators):
                return "map_" + _CAMEL.sub("_", ci.name).lower()
        return None

    def resolve_method(self, qn: str, name: str, after: str | None = None,
                       _depth=0):
        """-> (defining class qn, FunctionDef) via MRO and class-level aliases.
        ``after``: start after that class in the MRO (``super()`` semantics)."""
        m = self.mro(qn)
        if after is not None:
            if after not in m:
                return None
            m = m[m.index(after) + 1:]
        for c in m:
            ci = self.classes[c]
            if name in ci.methods:
                return c, ci.methods[name]
            if name in ci.aliases and _depth < 5:
                return self.resolve_method(qn, ci.aliases[name], None, _depth + 1)
        return None

    def resolve_attr_kind(self, qn: str, attr: str):
        """How does ``instance.attr`` resolve on class ``qn``?
        -> ('field', cls) | ('property', cls, fd) | ('method', cls, fd) |
           ('classvar', cls) | ('stub', cls) | None"""
        stub = None
        for c in self.mro(qn):
            ci = self.classes[c]
            if attr in ci.methods:
                if attr in ci.props:
                    return ("property", c, ci.methods[attr])
                return ("method", c, ci.methods[attr])
            if ci.is_dc() and any(f[0] == attr for f in ci.own_fields):
                return ("field", c)
            if attr in ci.classvars or attr in ci.aliases:
                return ("classvar", c)
            if attr in ci.stub_methods and stub is None:
                stub = ("stub", c)
        return stub

    def dispatch(self, mapper: str, kind: str, mro_fallback=True) -> str | None:
        """Name of the method ``Mapper.rec`` would call for ``kind``."""
        mm = self.mapper_method(kind)
        if mm and self.resolve_method(mapper, mm):
            return mm
        if mro_fallback:
            for c in self.mro(kind)[1:]:
                m2 = self.mapper_method(c)
                if m2 and self.resolve_method(mapper, m2):
                    return m2
        return None

    # ------------------------------------------------------------------ kinds
    ARRAY = "pytato.array.Array"
    NAMES = "pytato.array.AbstractResultWithNamedArrays"
    FUNCDEF = "pytato.function.FunctionDefinition"

    def is_abstract(self, qn: str) -> bool:
        ci = self.classes[qn]
        if "ABC" in ci.base_srcs or "abc.ABC" in ci.base_srcs:
            return True
        for st in ci.node.body:
            if isinstance(st, ast.FunctionDef):
                for d in st.decorator_list:
                    if ast.unparse(d) in ("abstractmethod", "abc.abstractmethod"):
                        return True
        return False

    def kinds(self, concrete_only=True) -> list[str]:
        """All node kinds: Array subclasses, named-array containers and
        FunctionDefinition, that are array dataclasses."""
        out = []
        for qn, ci in self.classes.items():
            if qn.startswith(self.pkg + ".") is False:
                continue
            m = self.mro(qn)
            if not (self.ARRAY in m or self.NAMES in m or qn == self.FUNCDEF):
                continue
            if not any(d.startswith("array_dataclass") or d.startswith("opt_frozen")
                       for d in ci.decorators) and not self.is_dataclass(qn):
                continue
            out.append(qn)
        return sorted(out)

    # ------------------------------------------------------------------ utils
    def cls(self, qn: str) -> ClassInfo:
        if qn not in self.classes:
            raise AnalysisError(f"anchor vanished: class {qn}")
        return self.classes[qn]

    def func(self, qn: str) -> ast.FunctionDef:
        """module-level function or Class.method by qualified name."""
        modname, _, attr = qn.rpartition(".")
        if modname in self.modules and attr in self.modules[modname].functions:
            return self.modules[modname].functions[attr]
        if modname in self.classes and attr in self.classes[modname].methods:
            return self.classes[modname].methods[attr]
        raise AnalysisError(f"anchor vanished: function {qn}")

    def has_func(self, qn: str) -> bool:
        try:
            self.func(qn)
            return True
        except AnalysisError:
            return False

    def module(self, name: str) -> ModuleInfo:
        if name not in self.modules:
            raise AnalysisError(f"anchor vanished: module {name}")
        return self.modules[name]

    def table(self, module: str, name: str) -> ast.expr:
        mi = self.module(module)
        if name not in mi.assigns:
            raise AnalysisError(f"anchor vanished: table {module}.{name}")
        return mi.assigns[name]

    def loc(self, module: str | ModuleInfo, node: ast.AST) -> str:
        mi = module if isinstance(module, ModuleInfo) else self.modules[module]
        return f"{mi.relpath(self.repo)}:{getattr(node, 'lineno', 0)}"

    def module_of(self, node: ast.AST) -> ModuleInfo:
        p = node
        while not isinstance(p, ast.Module):
            p = p._parent  # type: ignore[attr-defined]
        for mi in self.modules.values():
            if mi.tree is p:
                return mi
        raise AnalysisError("node without module")

    def frag(self, node: ast.AST, limit=160) -> str:
        s = " ".join(ast.unparse(node).split())
        return s if len(s) <= limit else s[:limit - 3] + "..."

    def enclosing_function(self, node):
        p = getattr(node, "_parent", None)
        while p is not None:
            if isinstance(p, (ast.FunctionDef, ast.AsyncFunctionDef)):
                return p
            p = getattr(p, "_parent", None)
        return None

    def enclosing_class(self, node):
        p = getattr(node, "_parent", None)
        while p is not None:
            if isinstance(p, ast.ClassDef):
                return p
            p = getattr(p, "_parent", None)
        return None

    def qualname(self, fd: ast.AST) -> str:
        """Qualified name of a function def (module.Class.func.<locals>)."""
        parts = []
        p = fd
        while p is not None and not isinstance(p, ast.Module):
            if isinstance(p, (ast.FunctionDef, ast.AsyncFunctionDef, ast.ClassDef)):
                parts.append(p.name)
            p = getattr(p, "_parent", None)
        mi = self.module_of(fd)
        return mi.name + "." + ".".join(reversed(parts))

    # -- a function together with the private helpers it was split into ----------
    def private_callees(self, fd, depth=2):
        """FunctionDefs of the private helpers (``_name``: module-level functions of
        the same module, methods of the same class called through self/cls/super,
        nested defs) that ``fd`` calls, transitively up to ``depth``.  'Extract a
        block into a private helper' is the most common refactoring; a rule that
        looks for a construct in an anchored function looks in these as well."""
        out, seen = [], {id(fd)}
        mi = self.module_of(fd)
        cls = self.enclosing_class(fd)
        ci = None
        if cls is not None:
            ci = next((c for c in self.classes.values() if c.node is cls), None)
        frontier = [(fd, 0)]
        while frontier:
            f, d = frontier.pop()
            if d >= depth:
                continue
            for n in ast.walk(f):
                # a private function handed on as a value (partial(_h, ..), map(_h, ..),
                # reduce(_h, ..), key=_h) is called by whoever receives it
                if isinstance(n, ast.Name) and isinstance(n.ctx, ast.Load) \
                        and n.id.startswith("_") and n.id in mi.functions \
                        and not (isinstance(getattr(n, "_parent", None), ast.Call)
                                 and n._parent.func is n):
                    tgt = mi.functions[n.id]
                    if id(tgt) not in seen:
                        seen.add(id(tgt))
                        out.append(tgt)
                        frontier.append((tgt, d + 1))
                    continue
                if not isinstance(n, ast.Call):
                    continue
                tgt = None
                if isinstance(n.func, ast.Name):
                    if n.func.id.startswith("_"):
                        tgt = mi.functions.get(n.func.id)
                    if tgt is None:
                        # a function nested in f is local to it whatever its name
                        for x in ast.walk(f):
                            if isinstance(x, ast.FunctionDef) and x.name == n.func.id \
                                    and x is not f:
                                tgt = x
                elif isinstance(n.func, ast.Attribute) and n.func.attr.startswith("_") \
                        and not n.func.attr.startswith("__") \
                        and isinstance(n.func.value, ast.Name) \
                        and n.func.value.id in ("self", "cls") and ci is not None:
                    r = self.resolve_method(ci.qn, n.func.attr)
                    if r is not None:
                        tgt = r[1]
                if tgt is not None and id(tgt) not in seen:
                    seen.add(id(tgt))
                    out.append(tgt)
                    frontier.append((tgt, d + 1))
        return out

    _inline_public = False

    def _private_target(self, call, f, mi, ci):
        """FunctionDef of the private helper a call resolves to, or None (with
        ``_inline_public`` set: any function of the same module called by its bare
        name, any method of the same class called through self)"""
        n = call
        nm_ = n.func.id if isinstance(n.func, ast.Name) else getattr(n.func, "attr", None)
        if nm_ in getattr(self, "_inline_exclude", ()):
            return None
        if self._inline_public and isinstance(n.func, ast.Attribute) \
                and not n.func.attr.startswith("__") \
                and isinstance(n.func.value, ast.Name) \
                and n.func.value.id in ("self", "cls") and ci is not None:
            r = self.resolve_method(ci.qn, n.func.attr)
            if r is not None:
                return r[1]
        if isinstance(n.func, ast.Name):
            # a nested def is private to its function whatever it is called
            for x in ast.walk(f):
                if isinstance(x, ast.FunctionDef) and x.name == n.func.id and x is not f:
                    return x
            if n.func.id.startswith("_") or self._inline_public:
                return mi.functions.get(n.func.id)
            return None
        if isinstance(n.func, ast.Attribute) and n.func.attr.startswith("_") \
                and not n.func.attr.startswith("__") \
                and isinstance(n.func.value, ast.Name) \
                and n.func.value.id in ("self", "cls") and ci is not None:
            r = self.resolve_method(ci.qn, n.func.attr)
            if r is not None:
                return r[1]
        return None

    def inlined(self, fd, depth=2, exclude=()):
        """A copy of ``fd`` in which calls to private helpers (as in
        :meth:`private_callees`) are replaced by the helper's body: statement-position
        calls (``x = _h(a)``, ``_h(a)``, ``return _h(a)``) by the body in tail form
        with ``return e`` turned into ``x = e``; calls to one-expression helpers
        anywhere.  Parameters are substituted by the argument expressions.  A helper
        with a return inside a loop/try/with, with */** parameters, or called with
        */** arguments stays a call.  Rules that compare the text or the shape of a
        block work on this copy, so that extracting the block into a helper does not
        change what they see."""
        key = (id(fd), depth, self._inline_public, tuple(sorted(exclude)))
        cache = self.__dict__.setdefault("_inl_cache", {})
        if key in cache:
            return cache[key]
        # (helpers a rule wants to keep as calls, by name)
        saved_excl = getattr(self, "_inline_exclude", frozenset())
        self._inline_exclude = frozenset(exclude) | saved_excl
        try:
            return self._inlined(fd, depth, key, cache)
        finally:
            self._inline_exclude = saved_excl

    def _inlined(self, fd, depth, key, cache):
        mi = self.module_of(fd)
        cls = self.enclosing_class(fd)
        ci = None
        if cls is not None:
            ci = next((c for c in self.classes.values() if c.node is cls), None)
        new = _cp(fd)
        stack = {id(fd)}
        new.body = self._inline_body(new.body, fd, mi, ci, depth, stack,
                                     {n.id for n in ast.walk(fd) if isinstance(n, ast.Name)})
        new = _ExprInliner(self, fd, mi, ci).visit(new)
        ast.fix_missing_locations(new)
        for p_ in ast.walk(new):
            for ch in ast.iter_child_nodes(p_):
                ch._parent = p_
        new._parent = getattr(fd, "_parent", None)
        new._derived = True
        cache[key] = new
        return new

    def expand_locals(self, fd, only=None):
        """A copy of ``fd`` in which every use of a local that is bound exactly once,
        by a plain assignment, is replaced by the assigned expression (copy
        propagation on the syntax tree; uses before the assignment in source order
        are left alone).  'Hoist a repeated sub-expression into a local' is the
        inverse refactoring; rules that look at what an argument IS work on this
        copy."""
        cache = self.__dict__.setdefault("_exp_cache", {})
        ckey = (id(fd), only)
        if ckey in cache:
            return cache[ckey]
        new = _cp(fd)
        _split_tuple_assigns(new)
        stores = {}
        seq = [0]

        def number(n):      # source order, also among spliced statements of one line
            seq[0] += 1
            n._seq = seq[0]
            for ch in ast.iter_child_nodes(n):
                number(ch)
        number(new)
        for n in _walk_same_scope(new):
            if isinstance(n, ast.Name) and isinstance(n.ctx, (ast.Store, ast.Del)):
                stores[n.id] = stores.get(n.id, 0) + 1
            elif isinstance(n, (ast.Import, ast.ImportFrom)):     # imports bind names too
                for al in n.names:
                    nm_ = (al.asname or al.name).split(".")[0]
                    stores[nm_] = stores.get(nm_, 0) + 1
            elif isinstance(n, ast.ExceptHandler) and n.name:
                stores[n.name] = stores.get(n.name, 0) + 1
        params = {a.arg for a in new.args.args + new.args.kwonlyargs + new.args.posonlyargs}
        # a container that is filled after it was bound is not its initial value
        mutated = set()
        for n in ast.walk(new):
            if isinstance(n, (ast.Subscript, ast.Attribute)) \
                    and isinstance(n.ctx, (ast.Store, ast.Del)) \
                    and isinstance(n.value, ast.Name):
                mutated.add(n.value.id)
            elif isinstance(n, ast.Call) and isinstance(n.func, ast.Attribute) \
                    and isinstance(n.func.value, ast.Name) and n.func.attr in _MUTATORS:
                mutated.add(n.func.value.id)
        defs = {}
        for n in _walk_same_scope(new):
            tgt = None
            if isinstance(n, ast.Assign) and len(n.targets) == 1:
                tgt = n.targets[0]
            elif isinstance(n, ast.AnnAssign) and n.value is not None:
                tgt = n.target
            if isinstance(tgt, ast.Name) and stores.get(tgt.id) == 1 \
                    and tgt.id not in params and tgt.id not in mutated \
                    and not any(isinstance(x, ast.Name) and x.id == tgt.id
                                for x in ast.walk(n.value)) \
                    and not any(isinstance(x, (ast.Yield, ast.YieldFrom, ast.Await,
                                               ast.NamedExpr)) for x in ast.walk(n.value)):
                # an object built by a constructor has an identity: `c = C()` used twice
                # is one object, `C()` written twice would be two
                builds = any(isinstance(x, ast.Call) and (
                    (isinstance(x.func, ast.Name) and x.func.id.lstrip("_")[:1].isupper())
                    or (isinstance(x.func, ast.Attribute)
                        and x.func.attr.lstrip("_")[:1].isupper()))
                    for x in ast.walk(n.value))
                nuses = sum(1 for x in ast.walk(new) if isinstance(x, ast.Name)
                            and x.id == tgt.id and isinstance(x.ctx, ast.Load))
                # (it matters where the object is used as such: called, subscripted or
                # an attribute read; not where it is merely passed on as a value)
                as_object = any(
                    (isinstance(x, (ast.Attribute, ast.Subscript)) and isinstance(x.value, ast.Name)
                     and x.value.id == tgt.id)
                    or (isinstance(x, ast.Call) and isinstance(x.func, ast.Name)
                        and x.func.id == tgt.id) for x in ast.walk(new))
                if builds and nuses > 1 and as_object:
                    continue
                # an iterator advanced with next() has state: it keeps its name
                if any(isinstance(x, ast.Call) and isinstance(x.func, ast.Name)
                       and x.func.id == "next" and x.args
                       and isinstance(x.args[0], ast.Name) and x.args[0].id == tgt.id
                       for x in ast.walk(new)):
                    continue
                # only="subscripts": propagate `x = table[i]` lookups and plain
                # aliases only, containers keep their names
                if only == "aliases":
                    v_ = n.value
                    while isinstance(v_, ast.Attribute):
                        v_ = v_.value
                    if not isinstance(v_, ast.Name):
                        continue
                if only == "subscripts" and not (
                        isinstance(n.value, (ast.Subscript, ast.Attribute, ast.Name))
                        and _plain(n.value)):
                    continue
                defs[tgt.id] = (n.value, n._seq)

        class Sub(ast.NodeTransformer):
            depth = 0

            def visit_Name(self, x):
                d = defs.get(x.id)
                if d is not None and isinstance(x.ctx, ast.Load) \
                        and getattr(x, "_seq", 0) > d[1] and self.depth < 6:
                    e = _cp(d[0])
                    for y in ast.walk(e):
                        y._seq = x._seq
                        if hasattr(y, "lineno"):
                            y.lineno = x.lineno
                    self.depth += 1
                    e = self.visit(e)
                    self.depth -= 1
                    return e
                return x
        new = Sub().visit(new)
        # an assignment all of whose uses were replaced is dropped ('as if never hoisted')
        left = {x.id for x in ast.walk(new) if isinstance(x, ast.Name)
                and isinstance(x.ctx, ast.Load)}
        dead = {k for k in defs if k not in left}

        class Drop(ast.NodeTransformer):
            def generic_visit(self, node):
                super().generic_visit(node)
                for fld in ("body", "orelse", "finalbody"):
                    b = getattr(node, fld, None)
                    if isinstance(b, list) and b and isinstance(b[0], ast.stmt):
                        nb = [s_ for s_ in b if not (
                            isinstance(s_, (ast.Assign, ast.AnnAssign))
                            and isinstance(getattr(s_, "target", None) or s_.targets[0], ast.Name)
                            and (getattr(s_, "target", None) or s_.targets[0]).id in dead
                            and (isinstance(s_, ast.AnnAssign) or len(s_.targets) == 1))]
                        if not nb and fld == "body":
                            nb = [ast.Pass(lineno=b[0].lineno)]
                        setattr(node, fld, nb)
                return node
        new = Drop().visit(new)
        ast.fix_missing_locations(new)
        for p_ in ast.walk(new):
            for ch in ast.iter_child_nodes(p_):
                ch._parent = p_
        new._parent = getattr(fd, "_parent", None)
        new._derived = True
        cache[ckey] = new
        return new

    def comprehensions(self, fd):
        """A copy of ``fd`` in which a container that is created empty and filled by
        the loop that follows (``d = {}`` / ``for T in I: d[K] = V``; ``l = []`` /
        ``for T in I: l.append(V)``) is written as the comprehension it is."""
        cache = self.__dict__.setdefault("_compr_cache", {})
        if id(fd) in cache:
            return cache[id(fd)]
        new = _cp(fd)

        def empty(v):
            if isinstance(v, ast.Dict) and not v.keys:
                return "dict"
            if isinstance(v, (ast.List,)) and not v.elts:
                return "list"
            if isinstance(v, ast.Call) and isinstance(v.func, ast.Name) and not v.args \
                    and not v.keywords and v.func.id in ("dict", "list", "set"):
                return v.func.id
            return None

        def rewrite(stmts):
            out, i = [], 0
            while i < len(stmts):
                a = stmts[i]
                b = stmts[i + 1] if i + 1 < len(stmts) else None
                tgt = None
                if isinstance(a, ast.Assign) and len(a.targets) == 1:
                    tgt, val = a.targets[0], a.value
                elif isinstance(a, ast.AnnAssign) and a.value is not None:
                    tgt, val = a.target, a.value
                kind = empty(val) if isinstance(tgt, ast.Name) else None
                comp = None
                if kind and isinstance(b, ast.For) and not b.orelse and len(
                        [x for x in b.body if not isinstance(x, ast.Assert)]) == 1:
                    st = next(x for x in b.body if not isinstance(x, ast.Assert))
                    gen = [ast.comprehension(target=b.target, iter=b.iter, ifs=[], is_async=0)]
                    inner = st
                    if isinstance(st, ast.If) and not st.orelse:
                        # (assertions next to the filling statement are not part of
                        # the value that is built)
                        core = [x for x in st.body if not isinstance(x, ast.Assert)]
                        if len(core) == 1:
                            gen[0].ifs = [st.test]
                            inner = core[0]
                    uses = lambda e: any(isinstance(x, ast.Name) and x.id == tgt.id   # noqa
                                         for x in ast.walk(e))
                    if kind == "dict" and isinstance(inner, ast.Assign) \
                            and len(inner.targets) == 1 \
                            and isinstance(inner.targets[0], ast.Subscript) \
                            and isinstance(inner.targets[0].value, ast.Name) \
                            and inner.targets[0].value.id == tgt.id \
                            and not uses(inner.value) and not uses(inner.targets[0].slice) \
                            and not any(uses(t) for t in gen[0].ifs) and not uses(b.iter):
                        comp = ast.DictComp(key=inner.targets[0].slice, value=inner.value,
                                            generators=gen)
                    elif kind in ("list", "set") and isinstance(inner, ast.Expr) \
                            and isinstance(inner.value, ast.Call) \
                            and isinstance(inner.value.func, ast.Attribute) \
                            and isinstance(inner.value.func.value, ast.Name) \
                            and inner.value.func.value.id == tgt.id \
                            and inner.value.func.attr == ("append" if kind == "list" else "add") \
                            and len(inner.value.args) == 1 and not uses(inner.value.args[0]) \
                            and not any(uses(t) for t in gen[0].ifs) and not uses(b.iter):
                        comp = (ast.ListComp if kind == "list" else ast.SetComp)(
                            elt=inner.value.args[0], generators=gen)
                if comp is not None:
                    out.append(ast.Assign(targets=[ast.Name(id=tgt.id, ctx=ast.Store())],
                                          value=comp, lineno=a.lineno))
                    i += 2
                    continue
                # l1 = []; l2 = []; for T in I: (if c: l1.append(x) else: l2.append(y))
                #   ==>  l1 = [x for T in I if c]; l2 = [y for T in I if not c]   (fission)
                c2 = stmts[i + 2] if i + 2 < len(stmts) else None
                if kind == "list" and isinstance(tgt, ast.Name) and isinstance(b, (
                        ast.Assign, ast.AnnAssign)) and isinstance(c2, ast.For) \
                        and not c2.orelse:
                    tgt2 = b.targets[0] if isinstance(b, ast.Assign) and len(b.targets) == 1 \
                        else getattr(b, "target", None)
                    val2 = b.value
                    core = [x for x in c2.body if not isinstance(x, ast.Assert)]
                    if isinstance(tgt2, ast.Name) and val2 is not None and empty(val2) == "list" \
                            and len(core) == 1 and isinstance(core[0], ast.If):
                        iff = core[0]

                        def app(arm):
                            arm = [x for x in arm if not isinstance(x, ast.Assert)]
                            if len(arm) == 1 and isinstance(arm[0], ast.Expr) \
                                    and isinstance(arm[0].value, ast.Call) \
                                    and isinstance(arm[0].value.func, ast.Attribute) \
                                    and arm[0].value.func.attr == "append" \
                                    and isinstance(arm[0].value.func.value, ast.Name) \
                                    and len(arm[0].value.args) == 1:
                                return arm[0].value.func.value.id, arm[0].value.args[0]
                            return None
                        a1, a2 = app(iff.body), app(iff.orelse)
                        names_ = {tgt.id, tgt2.id}

                        def mentions(e):
                            return any(isinstance(x, ast.Name) and x.id in names_
                                       for x in ast.walk(e))
                        if a1 and a2 and {a1[0], a2[0]} == names_ and not mentions(iff.test) \
                                and not mentions(a1[1]) and not mentions(a2[1]) \
                                and not mentions(c2.iter):
                            for (nm, elt), neg in ((a1, False), (a2, True)):
                                test = _cp(iff.test)
                                if neg:
                                    test = test.operand if isinstance(test, ast.UnaryOp) \
                                        and isinstance(test.op, ast.Not) \
                                        else ast.UnaryOp(op=ast.Not(), operand=test)
                                out.append(ast.Assign(
                                    targets=[ast.Name(id=nm, ctx=ast.Store())],
                                    value=ast.ListComp(elt=_cp(elt), generators=[
                                        ast.comprehension(target=_cp(c2.target),
                                                          iter=_cp(c2.iter), ifs=[test],
                                                          is_async=0)]),
                                    lineno=a.lineno))
                            i += 3
                            continue
                # x = A; if T(x): x = B(x)   ==>   x = B(A) if T(A) else A   (A a plain
                # name or attribute chain: evaluating it twice changes nothing)
                if isinstance(tgt, ast.Name) and isinstance(b, ast.If) and not b.orelse \
                        and len(b.body) == 1 and isinstance(b.body[0], ast.Assign) \
                        and len(b.body[0].targets) == 1 \
                        and isinstance(b.body[0].targets[0], ast.Name) \
                        and b.body[0].targets[0].id == tgt.id and _plain(val):
                    class S_(ast.NodeTransformer):
                        def visit_Name(self, x, tgt=tgt, val=val):
                            if x.id == tgt.id and isinstance(x.ctx, ast.Load):
                                return _cp(val)
                            return x
                    out.append(ast.Assign(
                        targets=[ast.Name(id=tgt.id, ctx=ast.Store())],
                        value=ast.IfExp(test=S_().visit(_cp(b.test)),
                                        body=S_().visit(_cp(b.body[0].value)),
                                        orelse=_cp(val)), lineno=a.lineno))
                    i += 2
                    continue
                for fld in ("body", "orelse", "finalbody"):
                    blk = getattr(a, fld, None)
                    if isinstance(blk, list) and blk and isinstance(blk[0], ast.stmt):
                        setattr(a, fld, rewrite(blk))
                for h in getattr(a, "handlers", []):
                    h.body = rewrite(h.body)
                # if c: x = A else: x = B   ==>   x = A if c else B
                # (the same name, or the same entry `d[k]` of the same container)
                if isinstance(a, ast.If) and len(a.body) == 1 and len(a.orelse) == 1 \
                        and all(isinstance(z, ast.Assign) and len(z.targets) == 1
                                and isinstance(z.targets[0], (ast.Name, ast.Subscript))
                                for z in (a.body[0], a.orelse[0])) \
                        and ast.dump(a.body[0].targets[0]) == ast.dump(a.orelse[0].targets[0]):
                    a = ast.Assign(
                        targets=[a.body[0].targets[0]],
                        value=ast.IfExp(test=a.test, body=a.body[0].value,
                                        orelse=a.orelse[0].value), lineno=a.lineno)
                out.append(a)
                i += 1
            return out
        new.body = rewrite(rewrite(new.body))     # (an inner rewrite can enable an outer one)
        ast.fix_missing_locations(new)
        for p_ in ast.walk(new):
            for ch in ast.iter_child_nodes(p_):
                ch._parent = p_
        new._parent = getattr(fd, "_parent", None)
        new._derived = True
        cache[id(fd)] = new
        return new

    def counters(self, fd):
        """A copy of ``fd`` in which a counter object (`c = itertools.count(n0)`, used
        only as `next(c)`) is the integer it counts: `c = n0`, and every simple
        statement that draws a number reads `c` and is followed by `c += 1`."""
        new = _cp(fd)
        for p_ in ast.walk(new):
            for ch in ast.iter_child_nodes(p_):
                ch._parent = p_
        cands = {}
        for n in _walk_same_scope(new):
            if isinstance(n, (ast.Assign, ast.AnnAssign)) and n.value is not None:
                tg = n.targets if isinstance(n, ast.Assign) else [n.target]
                v = n.value
                if len(tg) == 1 and isinstance(tg[0], ast.Name) and isinstance(v, ast.Call) \
                        and ast.unparse(v.func) in ("count", "itertools.count") \
                        and len(v.args) <= 1 and not v.keywords:
                    cands.setdefault(tg[0].id, []).append(n)
        cands = {k: v[0] for k, v in cands.items() if len(v) == 1}
        for name in list(cands):
            for x in ast.walk(new):
                if isinstance(x, ast.Name) and x.id == name and isinstance(x.ctx, ast.Load):
                    par = getattr(x, "_parent", None)
                    if not (isinstance(par, ast.Call) and isinstance(par.func, ast.Name)
                            and par.func.id == "next" and par.args == [x]):
                        cands.pop(name, None)
                        break
        # parent links of the copy (needed above): set them first
        return self._counters_apply(new, fd, cands) if cands else fd

    def _counters_apply(self, new, fd, cands):
        def draws(st, name):
            return [x for x in ast.walk(st) if isinstance(x, ast.Call)
                    and isinstance(x.func, ast.Name) and x.func.id == "next"
                    and len(x.args) == 1 and isinstance(x.args[0], ast.Name)
                    and x.args[0].id == name]
        ok = True

        def rewrite(stmts):
            nonlocal ok
            out = []
            for st in stmts:
                for fld in ("body", "orelse", "finalbody"):
                    blk = getattr(st, fld, None)
                    if isinstance(blk, list) and blk and isinstance(blk[0], ast.stmt) \
                            and not isinstance(st, (ast.FunctionDef, ast.ClassDef)):
                        setattr(st, fld, rewrite(blk))
                for h in getattr(st, "handlers", []):
                    h.body = rewrite(h.body)
                if any(st is d for d in cands.values()):
                    nm = (st.targets[0] if isinstance(st, ast.Assign) else st.target).id
                    start = st.value.args[0] if st.value.args else ast.Constant(value=0)
                    out.append(ast.Assign(targets=[ast.Name(id=nm, ctx=ast.Store())],
                                          value=start, lineno=st.lineno))
                    continue
                after = []
                for nm in cands:
                    if isinstance(st, (ast.Assign, ast.AnnAssign, ast.Expr, ast.AugAssign)):
                        ds = draws(st, nm)
                        if len(ds) > 1:
                            ok = False
                        for d in ds:
                            class R_(ast.NodeTransformer):
                                def visit_Call(self, x, d=d, nm=nm):
                                    if x is d:
                                        return ast.Name(id=nm, ctx=ast.Load())
                                    self.generic_visit(x)
                                    return x
                            st = R_().visit(st)
                            after.append(ast.AugAssign(
                                target=ast.Name(id=nm, ctx=ast.Store()), op=ast.Add(),
                                value=ast.Constant(value=1), lineno=st.lineno))
                    elif not isinstance(st, (ast.If, ast.For, ast.While, ast.Try, ast.With)) \
                            and draws(st, nm):
                        ok = False
                    elif isinstance(st, (ast.If, ast.While)) and draws(st.test, nm):
                        ok = False
                    elif isinstance(st, ast.For) and draws(st.iter, nm):
                        ok = False
                out.append(st)
                out += after
            return out
        new.body = rewrite(new.body)
        if not ok:
            return fd
        ast.fix_missing_locations(new)
        for p_ in ast.walk(new):
            for ch in ast.iter_child_nodes(p_):
                ch._parent = p_
        new._parent = getattr(fd, "_parent", None)
        new._derived = True
        return new

    def unrolled(self, fd):
        """A copy of ``fd`` in which a loop over a short literal table (`for a, b in
        ((x1, y1), (x2, y2)): BODY`, no break/continue/else) is written out: BODY once
        per row with the row's entries substituted for the loop variables.  Dispatch
        through a table and the if/elif chain it stands for become the same code."""
        cache = self.__dict__.setdefault("_unroll_cache", {})
        if id(fd) in cache:
            return cache[id(fd)]
        new = _cp(fd)

        def rows_of(it, ntargets):
            if not isinstance(it, (ast.Tuple, ast.List)) or not (1 <= len(it.elts) <= 8):
                return None
            rows = []
            for e in it.elts:
                if ntargets == 1:
                    rows.append([e])
                elif isinstance(e, (ast.Tuple, ast.List)) and len(e.elts) == ntargets:
                    rows.append(list(e.elts))
                else:
                    return None
            if not all(_plain(x) and not any(isinstance(y, ast.Call) for y in ast.walk(x))
                       for r in rows for x in r):
                return None
            return rows

        def rewrite(stmts):
            out = []
            for st in stmts:
                for fld in ("body", "orelse", "finalbody"):
                    blk = getattr(st, fld, None)
                    if isinstance(blk, list) and blk and isinstance(blk[0], ast.stmt) \
                            and not isinstance(st, (ast.FunctionDef, ast.ClassDef)):
                        setattr(st, fld, rewrite(blk))
                for h in getattr(st, "handlers", []):
                    h.body = rewrite(h.body)
                if isinstance(st, ast.For) and not st.orelse:
                    tg = st.target.elts if isinstance(st.target, ast.Tuple) else [st.target]
                    if all(isinstance(t, ast.Name) for t in tg):
                        rows = rows_of(st.iter, len(tg))
                        names = [t.id for t in tg]
                        jumps = any(isinstance(x, (ast.Break, ast.Continue))
                                    for b in st.body for x in _walk_same_scope(b))
                        rebound = any(isinstance(x, ast.Name) and x.id in names
                                      and isinstance(x.ctx, (ast.Store, ast.Del))
                                      for b in st.body for x in ast.walk(b))
                        if rows is not None and not jumps and not rebound:
                            for r in rows:
                                sub = dict(zip(names, r))

                                class S_(ast.NodeTransformer):
                                    def visit_Name(self, x, sub=sub):
                                        if x.id in sub and isinstance(x.ctx, ast.Load):
                                            return _cp(sub[x.id])
                                        return x
                                out += [S_().visit(_cp(b)) for b in st.body]
                            continue
                out.append(st)
            return out
        new.body = rewrite(new.body)
        ast.fix_missing_locations(new)
        for p_ in ast.walk(new):
            for ch in ast.iter_child_nodes(p_):
                ch._parent = p_
        new._parent = getattr(fd, "_parent", None)
        new._derived = True
        cache[id(fd)] = new
        return new

    def positional(self, fd):
        """A copy of ``fd`` in which sequences of known length are written out by
        position: a comprehension over a literal tuple/list (directly, or a local
        bound once to one) becomes the display of its items, `[f(v) for v in (a, b)]`
        -> `[f(a), f(b)]`; a tuple target fed from a local bound once to such a
        display is split, `x, y = L` -> `x = <L[0]>; y = <L[1]>`.  'Treat the three
        parts of the node in a loop' and 'treat them one by one' are then the same
        code for a field-by-field analysis.  Returns ``fd`` itself when nothing
        applies."""
        cache = self.__dict__.setdefault("_positional_cache", {})
        if id(fd) in cache:
            return cache[id(fd)]
        once = {}
        counts = {}
        for a in ast.walk(fd):
            if isinstance(a, (ast.Assign, ast.AnnAssign, ast.AugAssign, ast.For,
                              ast.comprehension, ast.NamedExpr, ast.withitem)):
                tg = a.targets if isinstance(a, ast.Assign) else [
                    getattr(a, "target", None) or getattr(a, "optional_vars", None)]
                for t in tg:
                    for x in ast.walk(t) if t is not None else ():
                        if isinstance(x, ast.Name):
                            counts[x.id] = counts.get(x.id, 0) + 1
                if isinstance(a, (ast.Assign, ast.AnnAssign)) and a.value is not None:
                    t0 = a.targets[0] if isinstance(a, ast.Assign) else a.target
                    if isinstance(t0, ast.Name):
                        once[t0.id] = a.value
        mutated = {x.func.value.id for x in ast.walk(fd) if isinstance(x, ast.Call)
                   and isinstance(x.func, ast.Attribute) and x.func.attr in _MUTATORS
                   and isinstance(x.func.value, ast.Name)}
        once = {k: v for k, v in once.items() if counts.get(k) == 1 and k not in mutated}

        def display_of(e):
            if isinstance(e, ast.Name) and e.id in once:
                e = once[e.id]
            if isinstance(e, (ast.Tuple, ast.List)) and 1 <= len(e.elts) <= 8 \
                    and not any(isinstance(x, ast.Starred) for x in e.elts) \
                    and all(_plain(x) for x in e.elts):
                return e
            return None
        changed = [False]
        outer = self

        class T(ast.NodeTransformer):
            def _comp(self, n, mk):
                self.generic_visit(n)
                if len(n.generators) == 1 and not n.generators[0].ifs \
                        and isinstance(n.generators[0].target, ast.Name):
                    d = display_of(n.generators[0].iter)
                    if d is not None:
                        v = n.generators[0].target.id

                        class S_(ast.NodeTransformer):
                            def __init__(self, rep):
                                self.rep = rep

                            def visit_Name(self, x):
                                return _cp(self.rep) if x.id == v and isinstance(
                                    x.ctx, ast.Load) else x
                        changed[0] = True
                        return mk([S_(it).visit(_cp(n.elt)) for it in d.elts])
                return n

            def visit_ListComp(self, n):
                return self._comp(n, lambda el: ast.List(elts=el, ctx=ast.Load()))

            def visit_Call(self, n):
                self.generic_visit(n)
                # tuple(<display>) / list(<display>) of a written-out comprehension
                if isinstance(n.func, ast.Name) and n.func.id in ("tuple", "list") \
                        and len(n.args) == 1 and not n.keywords:
                    a = n.args[0]
                    if isinstance(a, ast.GeneratorExp):
                        r = self._comp(a, lambda el: ast.Tuple(elts=el, ctx=ast.Load()))
                        if r is not a:
                            return r if n.func.id == "tuple" else ast.List(
                                elts=r.elts, ctx=ast.Load())
                return n
        new = T().visit(_cp(fd))
        # second step: tuple targets fed from a local bound once to a display
        once2 = {}
        for a in ast.walk(new):
            if isinstance(a, (ast.Assign, ast.AnnAssign)) and a.value is not None:
                t0 = a.targets[0] if isinstance(a, ast.Assign) else a.target
                if isinstance(t0, ast.Name) and t0.id in once \
                        and isinstance(a.value, (ast.Tuple, ast.List)):
                    once2[t0.id] = a.value
        for n in ast.walk(new):
            for fld in ("body", "orelse", "finalbody"):
                blk = getattr(n, fld, None)
                if not (isinstance(blk, list) and blk and isinstance(blk[0], ast.stmt)):
                    continue
                out = []
                for s_ in blk:
                    if isinstance(s_, ast.Assign) and len(s_.targets) == 1 \
                            and isinstance(s_.targets[0], ast.Tuple) \
                            and all(isinstance(t, ast.Name) for t in s_.targets[0].elts) \
                            and isinstance(s_.value, ast.Name) and s_.value.id in once2 \
                            and len(once2[s_.value.id].elts) == len(s_.targets[0].elts) \
                            and all(_plain(x) for x in once2[s_.value.id].elts):
                        for t, v in zip(s_.targets[0].elts, once2[s_.value.id].elts):
                            a = ast.Assign(targets=[t], value=_cp(v), lineno=s_.lineno)
                            ast.copy_location(a, s_)
                            out.append(a)
                        changed[0] = True
                    else:
                        out.append(s_)
                setattr(n, fld, out)
        if not changed[0]:
            cache[id(fd)] = fd
            return fd
        ast.fix_missing_locations(new)
        for p_ in ast.walk(new):
            for ch in ast.iter_child_nodes(p_):
                ch._parent = p_
        new._parent = getattr(fd, "_parent", None)
        new._derived = True
        cache[id(fd)] = new
        return new

    def normal(self, fd):
        """``fd`` with private helpers inlined, single-assignment locals propagated
        and fill-loops written as comprehensions: the form in which 'extract
        helper', 'hoist into a local' and 'comprehension <-> loop' refactorings of
        one function look alike."""
        cache = self.__dict__.setdefault("_normal_cache", {})
        if id(fd) not in cache:
            from pta.pat import canon
            first = self.expand_locals(self.inlined(fd))
            un = self.unrolled(first)
            if ast.dump(un) != ast.dump(first):
                # a table loop was written out: its rows may name helpers to inline
                first = self.expand_locals(self.inlined(un))
            cache[id(fd)] = self.fold_constants(canon(self.expand_locals(
                self.comprehensions(first))))
        return cache[id(fd)]

    def as_expression(self, fd):
        """the value of a function that consists of single assignments, ifs and returns
        only, as ONE (conditional) expression; None for anything else"""
        mi = self.module_of(fd)
        cls = self.enclosing_class(fd)
        ci = next((c for c in self.classes.values() if c.node is cls), None) \
            if cls is not None else None
        return _ExprInliner(self, None, mi, ci)._as_expression(fd)

    def split_tuples(self, fd):
        """copy of ``fd`` with ``a, b = x, y`` written as two assignments"""
        new = _cp(fd)
        _split_tuple_assigns(new)
        ast.fix_missing_locations(new)
        for p_ in ast.walk(new):
            for ch in ast.iter_child_nodes(p_):
                ch._parent = p_
        new._parent = getattr(fd, "_parent", None)
        new._derived = True
        return new

    def fold_constants(self, fd):
        """A copy of ``fd`` in which the names of module-level constants (bound exactly
        once, at the top level of the function's module, to a string or number
        literal) are replaced by the literal, and ``len("literal")`` by its value:
        'name the magic number' refactorings disappear."""
        cache = self.__dict__.setdefault("_fold_cache", {})
        if id(fd) in cache:
            return cache[id(fd)]
        mi = self.module_of(fd)
        consts, count = {}, {}
        for st in mi.tree.body:
            tg = st.targets if isinstance(st, ast.Assign) else (
                [st.target] if isinstance(st, ast.AnnAssign) and st.value is not None else [])
            for t in tg:
                if isinstance(t, ast.Name):
                    count[t.id] = count.get(t.id, 0) + 1
                    if isinstance(st.value, ast.Constant) and isinstance(
                            st.value.value, (str, int, float)) \
                            and not isinstance(st.value.value, bool):
                        consts[t.id] = st.value
        for n in ast.walk(mi.tree):      # rebound anywhere else: not a constant
            if isinstance(n, ast.Name) and isinstance(n.ctx, ast.Store) \
                    and n.id in consts and not isinstance(getattr(n, "_parent", None), (
                        ast.Assign, ast.AnnAssign)):
                count[n.id] = 2
        consts = {k: v for k, v in consts.items() if count.get(k) == 1}
        local = {n.id for n in _walk_same_scope(fd) if isinstance(n, ast.Name)
                 and isinstance(n.ctx, ast.Store)} | {
                     a.arg for a in fd.args.args + fd.args.kwonlyargs + fd.args.posonlyargs}

        class Fold(ast.NodeTransformer):
            def visit_Name(self, x):
                if isinstance(x.ctx, ast.Load) and x.id in consts and x.id not in local:
                    return ast.copy_location(_cp(consts[x.id]), x)
                return x

            def visit_Compare(self, x):
                self.generic_visit(x)
                # <literal> is None / is not None
                if len(x.ops) == 1 and isinstance(x.ops[0], (ast.Is, ast.IsNot)) \
                        and isinstance(x.left, ast.Constant) \
                        and isinstance(x.comparators[0], ast.Constant) \
                        and x.comparators[0].value is None:
                    v = (x.left.value is None) == isinstance(x.ops[0], ast.Is)
                    return ast.copy_location(ast.Constant(value=v), x)
                return x

            def visit_BoolOp(self, x):
                self.generic_visit(x)
                is_and = isinstance(x.op, ast.And)
                vals = []
                for v in x.values:
                    if isinstance(v, ast.Constant) and isinstance(v.value, bool):
                        if v.value == is_and:
                            continue            # neutral element
                        if not vals:
                            return ast.copy_location(ast.Constant(value=v.value), x)
                        vals.append(v)          # absorbing, but earlier operands run first
                        break
                    vals.append(v)
                if not vals:
                    return ast.copy_location(ast.Constant(value=is_and), x)
                if len(vals) == 1:
                    return vals[0]
                x.values = vals
                return x

            def visit_Call(self, x):
                self.generic_visit(x)
                # {K1: v1, K2: v2}.get(k)   ==>   v1 if k == K1 else v2 if k == K2 else None
                if isinstance(x.func, ast.Attribute) and x.func.attr == "get" \
                        and isinstance(x.func.value, ast.Dict) and 1 <= len(x.args) <= 2 \
                        and not x.keywords and 1 <= len(x.func.value.keys) <= 12 \
                        and all(k is not None and _plain(k) for k in x.func.value.keys):
                    e = x.args[1] if len(x.args) == 2 else ast.Constant(value=None)
                    for k, v in reversed(list(zip(x.func.value.keys, x.func.value.values))):
                        e = ast.IfExp(test=ast.Compare(left=_cp(x.args[0]), ops=[ast.Eq()],
                                                       comparators=[k]), body=v, orelse=e)
                    return ast.copy_location(e, x)
                # (f if c else g)(args)   ==>   f(args) if c else g(args)
                if isinstance(x.func, ast.IfExp):
                    def dist(f):
                        if isinstance(f, ast.IfExp):
                            return ast.IfExp(test=f.test, body=dist(f.body), orelse=dist(f.orelse))
                        if isinstance(f, ast.Constant) and f.value is None:
                            return f
                        return self.visit_Call(ast.Call(func=f, args=[_cp(a) for a in x.args],
                                                        keywords=[_cp(k) for k in x.keywords]))
                    return ast.copy_location(dist(x.func), x)
                # operator.add(a, b)   ==>   a + b
                if isinstance(x.func, ast.Attribute) and isinstance(x.func.value, ast.Name) \
                        and x.func.value.id == "operator" and x.func.attr in _OPERATOR_FUNCS \
                        and len(x.args) == 2 and not x.keywords:
                    return ast.copy_location(ast.BinOp(
                        left=x.args[0], op=_OPERATOR_FUNCS[x.func.attr](), right=x.args[1]), x)
                if isinstance(x.func, ast.Name) and x.func.id == "len" and len(x.args) == 1 \
                        and isinstance(x.args[0], ast.Constant) \
                        and isinstance(x.args[0].value, str) and not x.keywords:
                    return ast.copy_location(ast.Constant(value=len(x.args[0].value)), x)
                return x
        new = Fold().visit(_cp(fd))
        ast.fix_missing_locations(new)
        for p_ in ast.walk(new):
            for ch in ast.iter_child_nodes(p_):
                ch._parent = p_
        new._parent = getattr(fd, "_parent", None)
        new._derived = True
        cache[id(fd)] = new
        return new

    def normal_wide(self, fd):
        """like :meth:`normal`, but functions of the same module called by their bare
        name and methods of the same class are inlined whether private or not
        ('delegate to the sibling function that already does this')"""
        cache = self.__dict__.setdefault("_normalw_cache", {})
        if id(fd) not in cache:
            from pta.pat import canon
            self._inline_public = True
            try:
                cache[id(fd)] = canon(self.expand_locals(self.comprehensions(
                    self.expand_locals(self.inlined(fd)))))
            finally:
                self._inline_public = False
        return cache[id(fd)]

    def returns_by_condition(self, fd):
        """[(conditions, value node)] for every return of ``fd`` (in tail form):
        conditions is a tuple of (test text, polarity) of the enclosing ifs, with
        leading ``not`` folded into the polarity.  None when a return sits in a
        loop/try/with."""
        body = _tail_form(list(fd.body))
        if body is None:
            return None
        out = []

        def go(stmts, conds):
            for s_ in stmts:
                if isinstance(s_, ast.Return):
                    def rows(v, conds):
                        w, wrap = v, None
                        if isinstance(v, ast.Call) and isinstance(v.func, ast.Name) \
                                and v.func.id == "cast" and len(v.args) == 2:
                            w, wrap = v.args[1], v
                        if isinstance(w, ast.IfExp):
                            t, pol = w.test, True
                            while isinstance(t, ast.UnaryOp) and isinstance(t.op, ast.Not):
                                t, pol = t.operand, not pol
                            txt = ast.unparse(t)
                            for arm, pl in ((w.body, pol), (w.orelse, not pol)):
                                val = arm if wrap is None else ast.Call(
                                    func=wrap.func, args=[wrap.args[0], arm], keywords=[])
                                rows(val, conds + ((txt, pl),))
                        else:
                            out.append((conds, v))
                    rows(s_.value, conds)
                    return
                if isinstance(s_, ast.If) and any(isinstance(x, ast.Return)
                                                  for x in _walk_same_scope(s_)):
                    t, pol = s_.test, True
                    while isinstance(t, ast.UnaryOp) and isinstance(t.op, ast.Not):
                        t, pol = t.operand, not pol
                    txt = ast.unparse(t)
                    go(s_.body, conds + ((txt, pol),))
                    go(s_.orelse, conds + ((txt, not pol),))
                    return
        go(body, ())
        return out

    def _inline_body(self, stmts, f, mi, ci, depth, stack, taken):
        out = []
        for s in stmts:
            for fld in ("body", "orelse", "finalbody"):
                if isinstance(getattr(s, fld, None), list) and not isinstance(
                        s, (ast.FunctionDef, ast.AsyncFunctionDef, ast.ClassDef)):
                    setattr(s, fld, self._inline_body(getattr(s, fld), f, mi, ci, depth,
                                                      stack, taken))
            for h in getattr(s, "handlers", []):
                h.body = self._inline_body(h.body, f, mi, ci, depth, stack, taken)
            call, fin = None, None
            if isinstance(s, ast.Assign) and len(s.targets) == 1 \
                    and isinstance(s.value, ast.Call):
                call = s.value
                fin = lambda e, s=s: ast.Assign(targets=[s.targets[0]], value=e,   # noqa
                                                lineno=s.lineno)
            elif isinstance(s, ast.AnnAssign) and isinstance(s.value, ast.Call):
                call = s.value
                fin = lambda e, s=s: ast.Assign(targets=[s.target], value=e,   # noqa
                                                lineno=s.lineno)
            elif isinstance(s, ast.Expr) and isinstance(s.value, ast.Call):
                call = s.value
                fin = lambda e, s=s: ast.Expr(value=e)   # noqa
            elif isinstance(s, ast.Return) and isinstance(s.value, ast.Call):
                call = s.value
                fin = lambda e, s=s: ast.Return(value=e)   # noqa
            rep = None
            if call is not None and depth > 0:
                tgt = self._private_target(call, f, mi, ci)
                if tgt is not None and id(tgt) not in stack:
                    tg_ = s.targets[0] if isinstance(s, ast.Assign) else getattr(s, "target", None)
                    self._inl_targets = {x.id for x in ast.walk(tg_) if isinstance(x, ast.Name)} \
                        if tg_ is not None else set()
                    rep = self._inline_call(call, tgt, fin, mi, ci, depth, stack, taken)
                    self._inl_targets = set()
            if rep is None:
                out.append(s)
            else:
                for r in rep:
                    for x in ast.walk(r):
                        if hasattr(x, "lineno") or isinstance(x, (ast.stmt, ast.expr)):
                            x.lineno = s.lineno
                            x.end_lineno = getattr(s, "end_lineno", s.lineno)
                            x.col_offset = getattr(s, "col_offset", 0)
                            x.end_col_offset = getattr(s, "end_col_offset", 0)
                out.extend(rep)
        return out

    def _bind_args(self, call, tgt):
        """parameter name -> argument expression, or None when not expressible"""
        a = tgt.args
        if a.vararg or a.kwarg or a.posonlyargs and False:
            return None
        if any(isinstance(x, ast.Starred) for x in call.args) \
                or any(k.arg is None for k in call.keywords):
            return None
        params = [x.arg for x in a.posonlyargs + a.args]
        is_method = isinstance(call.func, ast.Attribute)
        decs = {ast.unparse(d) for d in tgt.decorator_list}
        if decs - {"staticmethod", "classmethod"}:
            return None
        if is_method and "staticmethod" not in decs:
            recv, params = params[0], params[1:]
        else:
            recv = None
        if len(call.args) > len(params):
            return None
        bind = dict(zip(params, call.args))
        kwonly = [x.arg for x in a.kwonlyargs]
        for k in call.keywords:
            if k.arg in bind or k.arg not in params + kwonly:
                return None
            bind[k.arg] = k.value
        defaults = dict(zip(params[len(params) - len(a.defaults):], a.defaults)) \
            if a.defaults else {}
        for n_, d in zip(kwonly, a.kw_defaults):
            if d is not None:
                defaults[n_] = d
        for p_ in params + kwonly:
            if p_ not in bind:
                if p_ not in defaults:
                    return None
                bind[p_] = defaults[p_]
        if recv is not None:
            bind[recv] = call.func.value
        return bind

    def _inline_call(self, call, tgt, fin, mi, ci, depth, stack, taken):
        bind = self._bind_args(call, tgt)
        if bind is None:
            return None
        body = [_cp(s) for s in tgt.body]
        if body and isinstance(body[0], ast.Expr) and isinstance(body[0].value, ast.Constant) \
                and isinstance(body[0].value.value, str):
            body = body[1:]
        if any(isinstance(x, (ast.Yield, ast.YieldFrom, ast.Await, ast.Global, ast.Nonlocal))
               for s in body for x in ast.walk(s)):
            return None
        body = _tail_form(body)
        if body is None:
            return None
        # names: parameters assigned in the helper and its locals are renamed when
        # they collide with the caller's names; unassigned parameters are substituted
        assigned = {n.id for s in body for n in ast.walk(s)
                    if isinstance(n, ast.Name) and isinstance(n.ctx, (ast.Store, ast.Del))}
        for s in body:
            for n in ast.walk(s):
                if isinstance(n, (ast.FunctionDef, ast.Lambda)):
                    aa = n.args
                    assigned -= set()   # nested scopes keep their own parameters
                    for x in aa.args + aa.kwonlyargs + aa.posonlyargs:
                        if x.arg in bind:
                            return None
        pre, subst, ren = [], {}, {}
        for p_, e in bind.items():
            simple = isinstance(e, (ast.Name, ast.Constant)) or (
                isinstance(e, ast.Attribute) and isinstance(e.value, ast.Name))
            nuse = sum(1 for s in body for n in ast.walk(s)
                       if isinstance(n, ast.Name) and n.id == p_)
            if p_ not in assigned and (simple or nuse <= 1):
                subst[p_] = e
            else:
                nm = p_ if (p_ not in taken or (isinstance(e, ast.Name) and e.id == p_)) \
                    else p_ + "__inl"
                ren[p_] = nm
                if not (isinstance(e, ast.Name) and e.id == nm):
                    pre.append(ast.Assign(targets=[ast.Name(id=nm, ctx=ast.Store())],
                                          value=_cp(e), lineno=call.lineno))
        # a helper local may keep the name of a caller variable that this very
        # statement assigns (`a, b = _h(x)` with locals a, b in _h: the usual shape of
        # an extracted block), unless the call's arguments read that variable
        argnames = {x.id for e in bind.values() for x in ast.walk(e) if isinstance(x, ast.Name)}
        # (only where the helper hands the local back as it is: `return a, b`)
        handed = None
        for r_ in (x for s_ in tgt.body for x in _walk_same_scope(s_) if isinstance(x, ast.Return)):
            v_ = r_.value
            names_ = {v_.id} if isinstance(v_, ast.Name) else (
                {e.id for e in v_.elts} if isinstance(v_, ast.Tuple) and all(
                    isinstance(e, ast.Name) for e in v_.elts) else set())
            handed = names_ if handed is None else handed & names_
        keep = (getattr(self, "_inl_targets", set()) & (handed or set())) - argnames
        for v in assigned - set(bind):
            ren[v] = v if (v not in taken or v in keep) else v + "__inl"
        taken |= set(ren.values())

        class Sub(ast.NodeTransformer):
            def visit_Name(self, n):
                if n.id in subst and isinstance(n.ctx, ast.Load):
                    return _cp(subst[n.id])
                if n.id in ren:
                    return ast.Name(id=ren[n.id], ctx=n.ctx)
                return n
        body = [Sub().visit(s) for s in body]

        class Ret(ast.NodeTransformer):
            def visit_FunctionDef(self, n):
                return n

            def visit_Lambda(self, n):
                return n

            def visit_Return(self, n):
                return fin(n.value if n.value is not None else ast.Constant(value=None))
        body = [Ret().visit(s) for s in body]
        body = self._inline_body(body, tgt, self.module_of(tgt), ci, depth - 1,
                                 stack | {id(tgt)}, taken)
        return pre + body

    def scope(self, fd, depth=2):
        """``fd`` and its private callees"""
        return [fd] + self.private_callees(fd, depth)

    def handed_to(self, fd, name, depth=2):
        """[(function, local name)]: ``fd`` itself with ``name``, and every private
        callee that receives the local ``name`` of ``fd`` as an argument, with the
        parameter it arrives in (transitively).  'The table is built here and
        consulted in a helper that is handed it' is then the same as consulting it
        here."""
        out, seen = [(fd, name)], {(id(fd), name)}
        frontier = [(fd, name, 0)]
        callees = {f.name: f for f in self.private_callees(fd, depth)}
        while frontier:
            f, nm, d = frontier.pop()
            if d >= depth:
                continue
            for call in ast.walk(f):
                if not isinstance(call, ast.Call):
                    continue
                cn = call.func.id if isinstance(call.func, ast.Name) else (
                    call.func.attr if isinstance(call.func, ast.Attribute)
                    and isinstance(call.func.value, ast.Name)
                    and call.func.value.id in ("self", "cls") else None)
                tgt = callees.get(cn)
                if tgt is None or tgt is f:
                    continue
                bind = self._bind_args(call, tgt)
                if bind is None:
                    continue
                for q, e in bind.items():
                    if isinstance(e, ast.Name) and e.id == nm and (id(tgt), q) not in seen:
                        seen.add((id(tgt), q))
                        out.append((tgt, q))
                        frontier.append((tgt, q, d + 1))
        return out

    def walk_scope(self, fd, depth=2):
        for f in self.scope(fd, depth):
            yield from ast.walk(f)

    def all_functions(self, modules=None):
        """Yield (ModuleInfo, FunctionDef) for every def (nested included)."""
        for name, mi in self.modules.items():
            if modules is not None and name not in modules:
                continue
            for n in ast.walk(mi.tree):
                if isinstance(n, (ast.FunctionDef, ast.AsyncFunctionDef)):
                    yield mi, n


_OPERATOR_FUNCS = {"add": ast.Add, "sub": ast.Sub, "mul": ast.Mult, "truediv": ast.Div,
                   "floordiv": ast.FloorDiv, "mod": ast.Mod, "pow": ast.Pow,
                   "and_": ast.BitAnd, "or_": ast.BitOr, "xor": ast.BitXor,
                   "matmul": ast.MatMult, "lshift": ast.LShift, "rshift": ast.RShift}
_MUTATORS = {"append", "extend", "insert", "add", "update", "pop", "popitem", "remove",
             "discard", "clear", "setdefault", "sort", "reverse", "appendleft",
             "difference_update", "intersection_update", "symmetric_difference_update"}


def _split_tuple_assigns(fd):
    """``a, b = x, y`` is ``a = x`` and ``b = y`` when no target occurs in the values"""
    for n in ast.walk(fd):
        for fld in ("body", "orelse", "finalbody"):
            blk = getattr(n, fld, None)
            if not (isinstance(blk, list) and blk and isinstance(blk[0], ast.stmt)):
                continue
            out = []
            for s_ in blk:
                if isinstance(s_, ast.Assign) and len(s_.targets) == 1 \
                        and isinstance(s_.targets[0], ast.Tuple) \
                        and isinstance(s_.value, ast.Tuple) \
                        and len(s_.targets[0].elts) == len(s_.value.elts) \
                        and all(isinstance(t, ast.Name) for t in s_.targets[0].elts) \
                        and not ({t.id for t in s_.targets[0].elts}
                                 & {x.id for x in ast.walk(s_.value)
                                    if isinstance(x, ast.Name)}):
                    for t, v in zip(s_.targets[0].elts, s_.value.elts):
                        a = ast.Assign(targets=[t], value=v, lineno=s_.lineno)
                        ast.copy_location(a, s_)
                        out.append(a)
                else:
                    out.append(s_)
            setattr(n, fld, out)


def _plain(e):
    """an expression that may be written twice without changing what a reader (or a
    rule) understands: no mutating call, no next(), no yield/await/walrus"""
    for x in ast.walk(e):
        if isinstance(x, (ast.Yield, ast.YieldFrom, ast.Await, ast.NamedExpr)):
            return False
        if isinstance(x, ast.Call):
            if isinstance(x.func, ast.Attribute) and x.func.attr in _MUTATORS:
                return False
            if isinstance(x.func, ast.Name) and x.func.id in ("next", "input", "open"):
                return False
    return True


def _tail_form(stmts):
    """the statement list with every ``return`` in tail position (statements after an
    ``if`` that returns on some path are moved into its falling-through arms), or
    None when a return sits inside a loop, try or with"""
    out = []
    for i, s in enumerate(stmts):
        rest = stmts[i + 1:]
        if isinstance(s, ast.Return):
            out.append(s)
            return out
        has_ret = any(isinstance(x, ast.Return) for x in _walk_same_scope(s))
        if not has_ret:
            out.append(s)
            continue
        if not isinstance(s, ast.If):
            return None

        def ends(b):
            return bool(b) and isinstance(b[-1], (ast.Return, ast.Raise))
        b = s.body if ends(s.body) else s.body + [_cp(x) for x in rest]
        o = s.orelse if ends(s.orelse) else s.orelse + [_cp(x) for x in rest]
        tb, to = _tail_form(b), _tail_form(o)
        if tb is None or to is None:
            return None
        out.append(ast.If(test=s.test, body=tb or [ast.Pass()], orelse=to,
                          lineno=getattr(s, "lineno", 0)))
        return out
    return out


def _walk_same_scope(node):
    todo = [node]
    while todo:
        n = todo.pop()
        yield n
        for ch in ast.iter_child_nodes(n):
            if not isinstance(ch, (ast.FunctionDef, ast.AsyncFunctionDef, ast.Lambda,
                                   ast.ClassDef)):
                todo.append(ch)


class _ExprInliner(ast.NodeTransformer):
    """calls to private helpers whose body is one ``return <expr>``, anywhere"""

    def __init__(self, model, f, mi, ci):
        self.m, self.f, self.mi, self.ci = model, f, mi, ci
        self.active = set()

    def _as_expression(self, tgt):
        """the value of a helper that consists of single assignments, ifs and returns
        only, as one (conditional) expression; None for anything else"""
        if getattr(tgt, "_derived", False) or not hasattr(tgt, "_parent"):
            return None
        try:
            h = self.m.expand_locals(tgt)
        except Exception:
            return None
        body = list(h.body)
        if body and isinstance(body[0], ast.Expr) and isinstance(body[0].value, ast.Constant):
            body = body[1:]
        body = _tail_form(body)
        if body is None:
            return None

        def conv(stmts):
            stmts = [s_ for s_ in stmts if not isinstance(s_, (ast.Pass, ast.Assert, ast.Import,
                                                              ast.ImportFrom))]
            if len(stmts) == 1 and isinstance(stmts[0], ast.Return) \
                    and stmts[0].value is not None:
                return stmts[0].value
            if len(stmts) == 1 and isinstance(stmts[0], ast.If):
                b, o = conv(stmts[0].body), conv(stmts[0].orelse)
                if b is not None and o is not None:
                    return ast.IfExp(test=stmts[0].test, body=b, orelse=o)
            return None
        return conv(body)

    def visit_Attribute(self, n):
        """`self.<prop>` where <prop> is a property of the same class whose body is one
        returned expression (assertions aside): the expression"""
        self.generic_visit(n)
        if not (isinstance(n.ctx, ast.Load) and isinstance(n.value, ast.Name)
                and n.value.id == "self" and self.ci is not None
                and not n.attr.startswith("__")):
            return n
        ak = self.m.resolve_attr_kind(self.ci.qn, n.attr)
        if not ak or ak[0] != "property" or ak[2] is self.f or id(ak[2]) in self.active:
            return n
        tgt = ak[2]
        if n.attr in getattr(self.m, "_inline_exclude", ()):
            return n
        body = [s_ for s_ in tgt.body if not isinstance(s_, ast.Assert) and not (
            isinstance(s_, ast.Expr) and isinstance(s_.value, ast.Constant))]
        if len(body) != 1 or not isinstance(body[0], ast.Return) or body[0].value is None:
            return n
        sp = tgt.args.args[0].arg if tgt.args.args else "self"
        e = _cp(body[0].value)
        if sp != "self":
            class R_(ast.NodeTransformer):
                def visit_Name(self, x):
                    return ast.Name(id="self", ctx=x.ctx) if x.id == sp else x
            e = R_().visit(e)
        self.active.add(id(tgt))
        e = self.visit(e)
        self.active.discard(id(tgt))
        return ast.copy_location(e, n)

    def visit_Call(self, n):
        self.generic_visit(n)
        tgt = self.m._private_target(n, self.f, self.mi, self.ci)
        if tgt is None or id(tgt) in self.active or tgt is self.f:
            return n
        body = list(tgt.body)
        if body and isinstance(body[0], ast.Expr) and isinstance(body[0].value, ast.Constant) \
                and isinstance(body[0].value.value, str):
            body = body[1:]
        if len(body) != 1 or not isinstance(body[0], ast.Return) or body[0].value is None:
            e1 = self._as_expression(tgt)
            if e1 is None:
                return n
            body = [ast.Return(value=e1)]
        bind = self.m._bind_args(n, tgt)
        if bind is None:
            return n
        e = _cp(body[0].value)
        if any(isinstance(x, (ast.Lambda, ast.ListComp, ast.SetComp, ast.DictComp,
                              ast.GeneratorExp, ast.NamedExpr, ast.Yield, ast.Await))
               for x in ast.walk(e)):
            # comprehension variables could capture argument names
            bound = {x.id for x in ast.walk(e) if isinstance(x, ast.Name)
                     and isinstance(x.ctx, ast.Store)}
            free = {x.id for a in bind.values() for x in ast.walk(a)
                    if isinstance(x, ast.Name)}
            if bound & (free | set(bind)) or any(isinstance(x, (ast.Lambda, ast.NamedExpr,
                                                               ast.Yield, ast.Await))
                                                  for x in ast.walk(e)):
                return n

        class Sub(ast.NodeTransformer):
            def visit_Name(self, x):
                if x.id in bind and isinstance(x.ctx, ast.Load):
                    return _cp(bind[x.id])
                return x
        e = Sub().visit(e)
        self.active.add(id(tgt))
        e = self.visit(e)
        self.active.discard(id(tgt))
        return ast.copy_location(e, n)


def _cp(node):
    """deep copy of a syntax tree that does not follow the parent links"""
    if isinstance(node, list):
        return [_cp(x) for x in node]
    if not isinstance(node, ast.AST):
        return node
    new = type(node)()
    for f in node._fields:
        if hasattr(node, f):
            setattr(new, f, _cp(getattr(node, f)))
    for a in node._attributes:
        if hasattr(node, a):
            setattr(new, a, getattr(node, a))
    return new


def literal_dict_keys(node: ast.expr) -> list[ast.expr]:
    if isinstance(node, ast.Dict):
        return [k for k in node.keys if k is not None]
    if isinstance(node, ast.Call) and node.args and isinstance(node.args[0], ast.Dict):
        return [k for k in node.args[0].keys if k is not None]
    raise AnalysisError("expected dict literal: " + ast.unparse(node)[:80])


def literal_dict_items(node: ast.expr) -> list[tuple[ast.expr, ast.expr]]:
    if isinstance(node, ast.Call) and node.args and isinstance(node.args[0], ast.Dict):
        node = node.args[0]
    if isinstance(node, ast.Dict):
        return [(k, v) for k, v in zip(node.keys, node.values) if k is not None]
    raise AnalysisError("expected dict literal: " + ast.unparse(node)[:80])
