"""Model cross-validation against reflection (thorough tier only).

Runs in a subprocess that imports pytato and compares dataclass fields, MROs
and _mapper_method of every class with the static model.  This validates the
*model*; it never decides a property.  A disagreement is an ANALYSIS-ERROR.
"""
from __future__ import annotations

import json
import subprocess
import sys

_CHILD = r"""
import dataclasses, importlib, json, sys, warnings
warnings.filterwarnings("ignore")
sys.path.insert(0, sys.argv[1])
spec = json.loads(sys.stdin.read())
out = {}
for qn, (mod, name) in spec.items():
    try:
        m = importlib.import_module(mod)
    except Exception as e:
        out[qn] = {"import_error": repr(e)}
        continue
    obj = m
    for part in name.split("."):
        obj = getattr(obj, part, None)
        if obj is None:
            break
    if obj is None or not isinstance(obj, type):
        out[qn] = {"missing": True}
        continue
    rec = {}
    if dataclasses.is_dataclass(obj):
        rec["fields"] = [f.name for f in dataclasses.fields(obj)]
        rec["init"] = [f.name for f in dataclasses.fields(obj) if f.init and not f.kw_only]
    rec["mm"] = getattr(obj, "_mapper_method", None)
    rec["mro"] = [c.__module__ + "." + c.__qualname__ for c in obj.__mro__
                  if c.__module__.startswith("pytato")]
    rec["module"] = obj.__module__
    out[qn] = rec
print(json.dumps(out))
"""

# classes regenerated at import time by pymbolic's @optimize_mapper: their
# runtime __module__/MRO differ from the source as written (trusted base).
OPTIMIZED = {"TopoSortMapper", "NodeCountMapper", "CallSiteCountMapper",
             "NamesValidityChecker", "_SeenNodesWalkMapper"}


def cross_validate(model, python="/venv/bin/python") -> dict:
    spec = {}
    for qn, ci in model.classes.items():
        if not qn.startswith("pytato."):
            continue
        spec[qn] = (ci.module.name, qn[len(ci.module.name) + 1:])
    p = subprocess.run([python, "-c", _CHILD, str(model.repo)],
                       input=json.dumps(spec), capture_output=True, text=True,
                       timeout=300)
    if p.returncode != 0:
        return {"error": p.stderr[-2000:], "checked": 0, "mismatches": []}
    rt = json.loads(p.stdout.strip().splitlines()[-1])
    mism = []
    checked = 0
    for qn, rec in rt.items():
        ci = model.classes[qn]
        if rec.get("missing") or rec.get("import_error"):
            continue  # nested/conditional classes, optional deps
        if ci.name in OPTIMIZED:
            continue
        checked += 1
        if "fields" in rec:
            st = list(model.fields(qn))
            if st != rec["fields"]:
                mism.append(("fields", qn, rec["fields"], st))
            if model.init_order(qn) != rec["init"]:
                mism.append(("init", qn, rec["init"], model.init_order(qn)))
        if rec["mm"] is not None and model.mapper_method(qn) != rec["mm"]:
            mism.append(("mapper_method", qn, rec["mm"], model.mapper_method(qn)))
        st_mro = [c for c in model.mro(qn)]
        rt_mro = [c for c in rec["mro"]
                  if c.rsplit(".", 1)[-1] not in OPTIMIZED]
        st_mro2 = [c for c in st_mro if c.rsplit(".", 1)[-1] not in OPTIMIZED]
        if rt_mro != st_mro2:
            mism.append(("mro", qn, rt_mro, st_mro2))
    return {"checked": checked, "mismatches": mism}


if __name__ == "__main__":
    from pta.model import Model
    r = cross_validate(Model(sys.argv[1] if len(sys.argv) > 1 else "/repo"))
    print(json.dumps(r, indent=1)[:6000])
