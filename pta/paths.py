"""Statement-path walker: a syntax-directed enumeration of the event sequences
of one function (no CFG library in the standard library).

``walk(fd, classify)`` returns a set of ``(events, exit)`` pairs where
``events`` is the tuple of labels ``classify`` assigned to the expression /
statement nodes met on the path, in evaluation order, and ``exit`` is one of
'return', 'raise', 'fall'.  Loops are taken 0, 1 or 2 times; an exception may
leave a ``try`` body after any prefix of its events; ``and``/``or``/conditional
expressions branch.  Sequences are de-duplicated, so the result stays small as
long as few node kinds are labelled.
"""
from __future__ import annotations

import ast

from pta.model import AnalysisError

MAX_SEQS = 20000
RAISEPOINT = "\u00b7"


class Unsupported(AnalysisError):
    pass


def _cat(a: set, b: set) -> set:
    out = {x + y for x in a for y in b}
    if len(out) > MAX_SEQS:
        raise Unsupported("path explosion in statement-path walker")
    return out


class Walker:
    def __init__(self, classify, follow=None, assert_raises=True):
        """classify(node) -> label | None, called for every expression node and
        for Assign/AugAssign/Delete/Raise/Return statements (pre-evaluation
        position: statements are labelled *after* their sub-expressions)."""
        self.classify = classify
        self.assert_raises = assert_raises
        self.in_try = 0
        self.depth = 0
        self.inlining = []

    # ------------------------------------------------------------ expressions
    def ex(self, n) -> set:
        """set of event tuples for evaluating expression n"""
        if n is None:
            return {()}
        if isinstance(n, ast.BoolOp):
            seqs = self.ex(n.values[0])
            acc = set(seqs)
            cur = seqs
            for v in n.values[1:]:
                cur = _cat(cur, self.ex(v))
                acc |= cur
            return self._label(n, acc)
        if isinstance(n, ast.IfExp):
            t = self.ex(n.test)
            return self._label(n, _cat(t, self.ex(n.body)) | _cat(t, self.ex(n.orelse)))
        if isinstance(n, (ast.ListComp, ast.SetComp, ast.GeneratorExp, ast.DictComp)):
            # generators: iter evaluated once; element 0..2 times
            seqs = {()}
            for g in n.generators:
                seqs = _cat(seqs, self.ex(g.iter))
            inner = {()}
            for g in n.generators:
                for c in g.ifs:
                    inner = _cat(inner, self.ex(c))
            if isinstance(n, ast.DictComp):
                inner = _cat(inner, _cat(self.ex(n.key), self.ex(n.value)))
            else:
                inner = _cat(inner, self.ex(n.elt))
            return self._label(n, seqs | _cat(seqs, inner) | _cat(_cat(seqs, inner), inner))
        if isinstance(n, ast.Lambda):
            return {()}
        if isinstance(n, ast.Call):
            seqs = self.ex(n.func)
            for a in n.args:
                seqs = _cat(seqs, self.ex(a))
            for k in n.keywords:
                seqs = _cat(seqs, self.ex(k.value))
            return self._label(n, seqs)
        if isinstance(n, ast.Compare):
            seqs = self.ex(n.left)
            for c in n.comparators:
                seqs = _cat(seqs, self.ex(c))
            return self._label(n, seqs)
        if isinstance(n, ast.expr):
            seqs = {()}
            for ch in ast.iter_child_nodes(n):
                if isinstance(ch, ast.expr):
                    seqs = _cat(seqs, self.ex(ch))
                elif isinstance(ch, (ast.keyword,)):
                    seqs = _cat(seqs, self.ex(ch.value))
                elif isinstance(ch, ast.comprehension):
                    seqs = _cat(seqs, self.ex(ch.iter))
            return self._label(n, seqs)
        return {()}

    def _label(self, n, seqs):
        lab = self.classify(n)
        if isinstance(lab, tuple) and lab and lab[0] == "INLINE":
            # splice the callee's normal-exit event sequences (bounded depth)
            fd = lab[1]
            if self.depth >= 3 or fd in self.inlining:
                return seqs
            self.depth += 1
            self.inlining.append(fd)
            try:
                sub = {e for (e, x) in self.block(fd.body)
                       if x in ("return", "fall", "break", "continue")}
            finally:
                self.depth -= 1
                self.inlining.pop()
            return _cat(seqs, sub or {()})
        if lab is None:
            if self.in_try and isinstance(n, (ast.Call, ast.Subscript, ast.Raise)):
                lab = RAISEPOINT   # something that may raise inside a try body
            else:
                return seqs
        return {s + (lab,) for s in seqs}

    # ------------------------------------------------------------- statements
    def block(self, body) -> set:
        """set of (events, exit) with exit in fall/return/raise/break/continue"""
        cur = {((), "fall")}
        for st in body:
            nxt = set()
            falls = {e for (e, x) in cur if x == "fall"}
            nxt |= {(e, x) for (e, x) in cur if x != "fall"}
            if falls:
                for (e2, x2) in self.stmt(st):
                    for e in falls:
                        nxt.add((e + e2, x2))
            cur = nxt
            if len(cur) > MAX_SEQS:
                raise Unsupported("path explosion in statement-path walker")
        return cur

    def stmt(self, st) -> set:
        if isinstance(st, ast.Return):
            return {(e, "return") for e in self._label(st, self.ex(st.value))}
        if isinstance(st, ast.Raise):
            seqs = _cat(self.ex(st.exc), self.ex(st.cause))
            return {(e, "raise") for e in self._label(st, seqs)}
        if isinstance(st, ast.Expr):
            return {(e, "fall") for e in self.ex(st.value)}
        if isinstance(st, ast.Assign):
            seqs = self.ex(st.value)
            for t in st.targets:
                seqs = _cat(seqs, self._target(t))
            return {(e, "fall") for e in self._label(st, seqs)}
        if isinstance(st, ast.AnnAssign):
            seqs = self.ex(st.value)
            if st.value is not None:
                seqs = _cat(seqs, self._target(st.target))
            return {(e, "fall") for e in self._label(st, seqs)}
        if isinstance(st, ast.AugAssign):
            seqs = _cat(self.ex(st.value), self._target(st.target))
            return {(e, "fall") for e in self._label(st, seqs)}
        if isinstance(st, ast.Assert):
            t = self.ex(st.test)
            if not self.assert_raises:
                return {(e, "fall") for e in t}
            return {(e, "fall") for e in t} | {(e, "raise") for e in t}
        if isinstance(st, ast.Delete):
            seqs = {()}
            for t in st.targets:
                seqs = _cat(seqs, self._target(t))
            return {(e, "fall") for e in self._label(st, seqs)}
        if isinstance(st, ast.If):
            t = self.ex(st.test)
            out = set()
            for br in (st.body, st.orelse):
                for (e2, x2) in self.block(br):
                    for e in t:
                        out.add((e + e2, x2))
            return out
        if isinstance(st, (ast.For, ast.AsyncFor, ast.While)):
            head = self.ex(st.iter) if not isinstance(st, ast.While) else self.ex(st.test)
            body = self.block(st.body)
            out = set()
            # zero iterations
            done = set(head)
            exits = set()
            cur = set(head)
            for _ in range(2):
                nxt = set()
                for (e2, x2) in body:
                    for e in cur:
                        if x2 in ("fall", "continue"):
                            nxt.add(e + e2)
                        elif x2 == "break":
                            exits.add((e + e2, "fall"))
                        else:
                            exits.add((e + e2, x2))
                done |= nxt
                cur = nxt
                if len(done) > MAX_SEQS:
                    raise Unsupported("path explosion in loop")
            orelse = self.block(st.orelse) if st.orelse else {((), "fall")}
            for e in done:
                for (e2, x2) in orelse:
                    out.add((e + e2, x2))
            return out | exits
        if isinstance(st, (ast.With, ast.AsyncWith)):
            seqs = {()}
            for it in st.items:
                seqs = _cat(seqs, self.ex(it.context_expr))
            return {(e + e2, x2) for e in seqs for (e2, x2) in self.block(st.body)}
        if isinstance(st, ast.Try):
            self.in_try += 1
            try:
                body = self.block(st.body)
            finally:
                self.in_try -= 1
            out = set()
            # an exception leaves the body at a raise point (any call /
            # subscript / labelled event): the prefix up to and including the
            # attempted event
            prefixes = set()
            for (e, x) in body:
                for i in range(1, len(e) + 1):
                    prefixes.add(e[:i])
            if not self.in_try:
                prefixes = {_strip(p) for p in prefixes}
                body = {(_strip(e), x) for (e, x) in body}
            handlers_catch_all = any(
                h.type is None or ast.unparse(h.type) in ("Exception", "BaseException")
                for h in st.handlers)
            for h in st.handlers:
                hb = self.block(h.body)
                for p in prefixes:
                    for (e2, x2) in hb:
                        out.add((p + e2, x2))
            for (e, x) in body:
                if x == "raise":
                    if not handlers_catch_all:
                        out.add((e, x))
                elif x == "fall" and st.orelse:
                    for (e2, x2) in self.block(st.orelse):
                        out.add((e + e2, x2))
                else:
                    out.add((e, x))
            if not st.handlers:
                # try/finally: exception propagates after finally
                for p in prefixes:
                    out.add((p, "raise"))
            if st.finalbody:
                fin = self.block(st.finalbody)
                out2 = set()
                for (e, x) in out:
                    for (e2, x2) in fin:
                        out2.add((e + e2, x if x2 == "fall" else x2))
                out = out2
            return out
        if isinstance(st, ast.Match):
            t = self.ex(st.subject)
            out = set()
            for c in st.cases:
                for (e2, x2) in self.block(c.body):
                    for e in t:
                        out.add((e + e2, x2))
            out |= {(e, "fall") for e in t}
            return out
        if isinstance(st, ast.Break):
            return {((), "break")}
        if isinstance(st, ast.Continue):
            return {((), "continue")}
        if isinstance(st, (ast.Pass, ast.Import, ast.ImportFrom, ast.Global,
                           ast.Nonlocal, ast.FunctionDef, ast.AsyncFunctionDef,
                           ast.ClassDef)):
            return {((), "fall")}
        raise Unsupported(f"statement kind {type(st).__name__} not modelled "
                          f"(line {getattr(st, 'lineno', '?')})")

    def _target(self, t) -> set:
        if isinstance(t, ast.Name):
            return {()}
        if isinstance(t, (ast.Tuple, ast.List)):
            seqs = {()}
            for e in t.elts:
                seqs = _cat(seqs, self._target(e))
            return seqs
        if isinstance(t, ast.Starred):
            return self._target(t.value)
        if isinstance(t, ast.Attribute):
            return self._label(t, self.ex(t.value))
        if isinstance(t, ast.Subscript):
            return self._label(t, _cat(self.ex(t.value), self.ex(t.slice)))
        return {()}


def _strip(e):
    return tuple(x for x in e if x != RAISEPOINT)


def walk(fd, classify) -> set:
    """all (events, exit) of function fd; exit in return/raise/fall"""
    w = Walker(classify)
    res = w.block(fd.body)
    out = set()
    for (e, x) in res:
        if x in ("break", "continue"):
            x = "fall"
        out.add((_strip(e), x))
    return out


def normal(paths):
    return {e for (e, x) in paths if x in ("return", "fall")}


def must_pass(paths, label) -> list:
    """normal-exit paths that do NOT contain label"""
    return [e for e in normal(paths) if label not in e]


def precedes(paths, first, then) -> list:
    """paths (any exit) where `then` occurs without an earlier `first`"""
    bad = []
    for (e, _x) in paths:
        seen = False
        for lab in e:
            if lab == first:
                seen = True
            elif lab == then and not seen:
                bad.append(e)
                break
    return bad


def followed_by(paths, first, then) -> list:
    """normal-exit paths where `first` occurs and no `then` occurs after its
    last occurrence"""
    bad = []
    for e in normal(paths):
        if first in e:
            i = len(e) - 1 - e[::-1].index(first)
            if then not in e[i:]:
                bad.append(e)
    return bad
