"""Access-path flow analysis of mapper handlers (abstract interpretation).

Abstract value = frozenset of ``AP(root, path, rec)``: the value may be (or be
derived from / contain) the object reached from handler parameter ``root``
through the attribute path ``path``; ``rec`` is True if it went through a
recursion sink (``self.rec(...)``) on the way.  Element-of and mapping views
are transparent.

Precision stance: over-approximate reads (path-insensitive join), never guess
violations.
"""
from __future__ import annotations

import ast
from dataclasses import dataclass, field

from pta.model import AnalysisError, Model

TRANSPARENT = {
    "sorted", "list", "tuple", "enumerate", "zip", "reversed", "iter",
    "frozenset", "set", "dict", "constantdict", "_verify_is_array", "cast",
    "not_none", "FrozenOrderedSet", "OrderedSet", "chain", "next", "map",
    "filter", "Map", "deepcopy", "copy", "zip_longest", "unique", "id", "hash",
}
VIEW_METHODS = {"values", "items", "keys", "get", "copy", "union",
                "intersection", "difference", "__getitem__"}
# results carry no path (pure scalars)
SCALARISING = {"len", "isinstance", "type", "str", "repr", "int",
               "bool", "float", "any", "all", "issubclass", "hasattr",
               "callable", "print", "range"}
MUTATORS = {"append", "extend", "update", "pop", "popitem", "add", "remove",
            "discard", "clear", "sort", "insert", "setdefault", "__setitem__",
            "__setattr__", "fill", "itemset", "reverse", "put", "resize",
            "setflags", "__delitem__", "byteswap", "partition", "setfield"}
REC_NAMES = {"rec", "rec_function_definition", "rec_arith"}
CTOR_METHODS = {"replace_if_different", "copy", "_with_new_tags", "tagged",
                "without_tags", "with_tagged_axis", "with_tagged_reduction"}

AP = tuple  # (root, path tuple, rec flag)
NAMED = "<named>"   # element of an AbstractResultWithNamedArrays (a NamedArray)


def ap(root, path=(), rec=False):
    path = tuple(path)
    while NAMED in path:
        i = path.index(NAMED)
        if i + 1 < len(path) and path[i + 1] == "_container":
            path = path[:i] + path[i + 2:]
        else:
            break
    return (root, path, rec)


def freshen(val):
    """a new container whose *elements* alias ``val`` (alias mode)"""
    return frozenset((r if r.startswith("~") else "~" + r, p, f) for (r, p, f) in val)


def elements(val):
    """elements of a value: for a fresh container, the aliased objects"""
    return frozenset((r[1:] if r.startswith("~") else r, p, f) for (r, p, f) in val)


def paths_of(val, root=None, rec=None):
    return {p for (r, p, f) in val
            if (root is None or r == root) and (rec is None or f == rec)}


def fmt_paths(ps):
    return sorted(".".join(p) if p else "<self>" for p in ps)


@dataclass
class CtorEvent:
    callee: str                 # text of the callee
    kind: str                   # 'class' | 'replace_if_different' | 'replace' | 'type(self)' | method name
    cls: str | None             # resolved repo class (for 'class')
    kwargs: dict                # kw -> abstract value
    args: list                  # positional abstract values
    node: ast.Call
    recv: frozenset = frozenset()   # abstract value of receiver for methods
    owner: str | None = None


@dataclass
class RecEvent:
    receiver: str               # 'self' | 'super' | 'Mapper' | 'clone' | 'new:<cls>' | 'other:<txt>'
    method: str
    value: frozenset
    node: ast.Call
    extra_args: int = 0
    args: list = field(default_factory=list)     # all positional arg values


@dataclass
class MutEvent:
    how: str                    # 'store-attr' | 'store-subscript' | 'augassign' | 'call:<m>' | 'setattr' | 'del'
    value: frozenset
    node: ast.AST
    owner: str | None = None


@dataclass
class KeyedEvent:
    attr: str                   # self.<attr>
    key: frozenset
    value: frozenset            # what is added under that key
    node: ast.AST


@dataclass
class Summary:
    reads: set = field(default_factory=set)      # (root, path)
    rec: list = field(default_factory=list)      # RecEvent
    ret: frozenset = frozenset()
    rets: list = field(default_factory=list)     # (node, value)
    keyed: list = field(default_factory=list)    # KeyedEvent
    ctors: list = field(default_factory=list)    # CtorEvent
    muts: list = field(default_factory=list)     # MutEvent
    opaque: list = field(default_factory=list)   # (callee text, value, node)
    raises_only: bool = False
    calls: list = field(default_factory=list)    # (resolved qn or text, node)
    compares: list = field(default_factory=list)  # (node, left value, [right values])
    where: tuple | None = None
    depth_exceeded: bool = False

    def rec_paths(self, root=None):
        out = set()
        for e in self.rec:
            out |= paths_of(e.value, root)
        return out

    def read_paths(self, root=None):
        return {p for (r, p) in self.reads if root is None or r == root}


class Flow:
    def __init__(self, model: Model, mapper: str | None, max_depth: int = 6,
                 follow_module_funcs: bool = True, alias_only: bool = False):
        self.alias_only = alias_only
        self.m = model
        self.mapper = mapper
        self.max_depth = max_depth
        self.follow_module_funcs = follow_module_funcs
        self.stack: list = []
        self.kind_for_root: dict[str, str] = {}

    # ------------------------------------------------------------ type of path
    def class_of_path(self, root: str, path: tuple) -> str | None:
        k = self.kind_for_root.get(root)
        for attr in path:
            if k is None:
                return None
            if attr == NAMED:
                k = "pytato.array.NamedArray" if k in self.m.classes and \
                    self.m.NAMES in self.m.mro(k) else None
                continue
            f = self.m.fields(k) if k in self.m.classes else {}
            if attr not in f:
                return None
            k = self.ann_class(f[attr][0], self.m.classes[f[attr][3]].module.name)
        return k

    def ann_class(self, ann: ast.expr, module: str) -> str | None:
        """The single repo class an annotation names (None if not a plain
        class reference)."""
        if isinstance(ann, ast.Constant) and isinstance(ann.value, str):
            try:
                ann = ast.parse(ann.value, mode="eval").body
            except SyntaxError:
                return None
        if isinstance(ann, (ast.Name, ast.Attribute)):
            r = self.m.resolve_name(module, ast.unparse(ann))
            if r in self.m.classes:
                return r
        return None

    def _named_view(self, val):
        """Elements of a named-array container are NamedArrays pointing back."""
        out = set()
        for (r, p, f) in val:
            c = self.class_of_path(r, p)
            if c is not None and c in self.m.classes \
                    and self.m.NAMES in self.m.mro(c) and (not p or p[-1] != NAMED):
                out.add(ap(r, p + (NAMED,), f))
            else:
                out.add((r, p, f))
        return frozenset(out)

    # ------------------------------------------------------ attribute expansion
    def expand_attr(self, base, attr, summ, depth, node=None):
        out = set()
        for (root, p, rf) in base:
            if root.startswith("~"):
                continue
            if rf or root == "__mapper__":
                # attribute of a recursion result: still "derived from rec(p)"
                out.add((root, p, rf))
                continue
            cls = self.class_of_path(root, p)
            if cls is not None and cls in self.m.classes:
                ak = self.m.resolve_attr_kind(cls, attr)
                if ak and ak[0] == "property" and depth < self.max_depth:
                    fd = ak[2]
                    summ.reads.add((root, p + ("@" + attr,)))
                    saved = dict(self.kind_for_root)
                    sub_root = root if p == () else f"{root}:{'.'.join(p)}"
                    if p != ():
                        self.kind_for_root[sub_root] = cls
                    sub = self.run_function(
                        fd, {fd.args.args[0].arg: frozenset({ap(sub_root)})},
                        summ, depth + 1, owner=ak[1], mapper=None)
                    self.kind_for_root = saved
                    # re-root results of nested property expansion
                    for (r2, p2, f2) in sub:
                        if r2 == sub_root and p != ():
                            out.add(ap(root, p + p2, f2 or rf))
                        else:
                            out.add(ap(r2, p2, f2 or rf))
                    continue
                if ak and ak[0] == "method":
                    # bound method object: keep receiver paths
                    out.add(ap(root, p, rf))
                    continue
            summ.reads.add((root, p + (attr,)))
            out.add(ap(root, p + (attr,), rf))
        return frozenset(out)

    # -------------------------------------------------------------- expressions
    def ev(self, n, env, summ, depth):
        if n is None:
            return frozenset()
        if isinstance(n, ast.Name):
            return env.get(n.id, frozenset()) if isinstance(
                env.get(n.id, frozenset()), frozenset) else frozenset()
        if isinstance(n, ast.Attribute):
            base = self.ev(n.value, env, summ, depth)
            if not base:
                return frozenset()
            if n.attr in VIEW_METHODS:
                return base
            return self.expand_attr(base, n.attr, summ, depth, n)
        if isinstance(n, ast.Subscript):
            v = self._named_view(self.ev(n.value, env, summ, depth))
            if self.alias_only:
                v = freshen(elements(v)) if isinstance(n.slice, ast.Slice) \
                    else elements(v)
            k = self.ev(n.slice, env, summ, depth)
            if isinstance(n.value, ast.Attribute) \
                    and isinstance(n.value.value, ast.Name) \
                    and n.value.value.id == "self" and k:
                summ.keyed.append(KeyedEvent(n.value.attr, k, frozenset(), n))
            return v
        if isinstance(n, ast.Starred):
            return self.ev(n.value, env, summ, depth)
        if isinstance(n, (ast.Tuple, ast.List, ast.Set)):
            s = frozenset()
            for e in n.elts:
                s |= self.ev(e, env, summ, depth)
            return freshen(s) if self.alias_only else s
        if isinstance(n, ast.Dict):
            s = frozenset()
            for e in list(n.keys) + list(n.values):
                if e is not None:
                    s |= self.ev(e, env, summ, depth)
            return freshen(s) if self.alias_only else s
        if isinstance(n, ast.IfExp):
            self.ev(n.test, env, summ, depth)
            return self.ev(n.body, env, summ, depth) | self.ev(n.orelse, env, summ, depth)
        if isinstance(n, ast.BoolOp):
            s = frozenset()
            for v in n.values:
                s |= self.ev(v, env, summ, depth)
            return s
        if isinstance(n, ast.BinOp):
            v = self.ev(n.left, env, summ, depth) | self.ev(n.right, env, summ, depth)
            return freshen(elements(v)) if self.alias_only else v
        if isinstance(n, ast.UnaryOp):
            v = self.ev(n.operand, env, summ, depth)
            return frozenset() if self.alias_only else v
        if isinstance(n, ast.Compare):
            lv = self.ev(n.left, env, summ, depth)
            rvs = [self.ev(c, env, summ, depth) for c in n.comparators]
            summ.compares.append((n, lv, rvs))
            return frozenset()
        if isinstance(n, (ast.ListComp, ast.SetComp, ast.GeneratorExp, ast.DictComp)):
            env2 = dict(env)
            for g in n.generators:
                self.bind_iter(g.target, g.iter, env2, summ, depth)
                for c in g.ifs:
                    self.ev(c, env2, summ, depth)
            if isinstance(n, ast.DictComp):
                v = self.ev(n.key, env2, summ, depth) | self.ev(n.value, env2, summ, depth)
            else:
                v = self.ev(n.elt, env2, summ, depth)
            return freshen(v) if self.alias_only else v
        if isinstance(n, ast.JoinedStr):
            for v in n.values:
                if isinstance(v, ast.FormattedValue):
                    self.ev(v.value, env, summ, depth)
            return frozenset()
        if isinstance(n, ast.FormattedValue):
            self.ev(n.value, env, summ, depth)
            return frozenset()
        if isinstance(n, ast.Lambda):
            # evaluate body for reads; the lambda's value carries what it closes over
            env2 = dict(env)
            for a in n.args.args:
                env2[a.arg] = frozenset()
            return self.ev(n.body, env2, summ, depth)
        if isinstance(n, ast.Call):
            return self.call(n, env, summ, depth)
        if isinstance(n, ast.NamedExpr):
            v = self.ev(n.value, env, summ, depth)
            self.bind(n.target, v, env)
            return v
        if isinstance(n, ast.Slice):
            for e in (n.lower, n.upper, n.step):
                self.ev(e, env, summ, depth)
            return frozenset()
        if isinstance(n, (ast.Await, ast.Yield, ast.YieldFrom)):
            return self.ev(n.value, env, summ, depth)
        return frozenset()

    def bind_iter(self, tgt, it_node, env, summ, depth):
        """bind a loop/comprehension target to the elements of ``it_node``;
        ``zip(A, B)`` and ``enumerate(A)`` bind element-wise."""
        if isinstance(it_node, ast.Call) and isinstance(it_node.func, ast.Name) \
                and isinstance(tgt, (ast.Tuple, ast.List)):
            fn = it_node.func.id
            if fn == "zip" and len(it_node.args) == len(tgt.elts) \
                    and not any(isinstance(a, ast.Starred) for a in it_node.args):
                for a, t in zip(it_node.args, tgt.elts):
                    self.bind_iter(t, a, env, summ, depth)
                return
            if fn == "enumerate" and len(tgt.elts) == 2 and it_node.args:
                self.bind(tgt.elts[0], frozenset(), env)
                self.bind_iter(tgt.elts[1], it_node.args[0], env, summ, depth)
                return
        v = self.ev(it_node, env, summ, depth)
        self.bind(tgt, elements(v) if self.alias_only else v, env)

    def bind(self, tgt, val, env):
        if isinstance(tgt, ast.Name):
            env[tgt.id] = frozenset(val)
            if tgt.id in env.get("__fresh__", ()) and not env.get("__keepfresh__"):
                env["__fresh__"] = env["__fresh__"] - {tgt.id}
        elif isinstance(tgt, (ast.Tuple, ast.List)):
            for e in tgt.elts:
                self.bind(e, val, env)
        elif isinstance(tgt, ast.Starred):
            self.bind(tgt.value, val, env)

    # -------------------------------------------------------------------- calls
    def _receiver_kind(self, f, env):
        """classify a call ``X.rec(...)``/``X(...)`` as recursion sink."""
        if isinstance(f, ast.Attribute) and f.attr in REC_NAMES:
            v = f.value
            if isinstance(v, ast.Name) and v.id == "self":
                return "self"
            if isinstance(v, ast.Call) and isinstance(v.func, ast.Name) \
                    and v.func.id == "super":
                return "super"
            if isinstance(v, ast.Name) and v.id in env.get("__mappers__", {}):
                return env["__mappers__"][v.id]
            if isinstance(v, ast.Name) and v.id[:1].isupper():
                return "Mapper"        # Mapper.rec(self, expr)
            if isinstance(v, ast.Attribute) and isinstance(v.value, ast.Name) \
                    and v.value.id == "self":
                return "other:self." + v.attr
            return "other:" + ast.unparse(v)[:40]
        if isinstance(f, ast.Name) and f.id == "self":
            return "self"
        if isinstance(f, ast.Name) and f.id in env.get("__mappers__", {}):
            return env["__mappers__"][f.id]
        return None

    def call(self, n, env, summ, depth):
        f = n.func
        args = [self.ev(a, env, summ, depth) for a in n.args]
        kwargs = {k.arg: self.ev(k.value, env, summ, depth) for k in n.keywords}
        allargs = frozenset().union(*args, *kwargs.values()) if (args or kwargs) \
            else frozenset()
        fname = f.id if isinstance(f, ast.Name) else (
            f.attr if isinstance(f, ast.Attribute) else None)

        rk = self._receiver_kind(f, env)
        if rk is not None:
            first = args[0] if args else frozenset()
            if rk == "Mapper" and len(args) >= 2:
                first = args[1]
            elif rk == "Mapper":
                first = frozenset()
            summ.rec.append(RecEvent(rk, fname or "__call__", first, n,
                                     extra_args=max(0, len(args) - 1),
                                     args=(args[1:] if rk == "Mapper" else args)))
            return frozenset(ap(r, p, True) for (r, p, _f) in first)

        if isinstance(f, ast.Name) and f.id in SCALARISING:
            return frozenset()
        if isinstance(f, ast.Name) and f.id in TRANSPARENT:
            if self.alias_only:
                if f.id in ("cast", "not_none", "_verify_is_array", "next", "iter"):
                    return elements(allargs) if f.id == "next" else allargs
                if f.id in ("id", "hash"):
                    return frozenset()
                return freshen(elements(allargs))
            return allargs
        if isinstance(f, ast.Name) and f.id == "getattr" and len(n.args) >= 2:
            if isinstance(n.args[1], ast.Constant):
                return self.expand_attr(args[0], n.args[1].value, summ, depth, n)
            # reflective access: any attribute of the object
            return frozenset((r, p if rf or (p and p[-1] == "*") else p + ("*",), rf)
                             for (r, p, rf) in args[0])
        if isinstance(f, ast.Name) and f.id == "setattr" or (
                isinstance(f, ast.Attribute) and f.attr == "__setattr__"):
            tgt = args[0] if args else frozenset()
            if tgt:
                summ.muts.append(MutEvent("setattr", tgt, n, env.get("__owner__")))
            return frozenset()

        # method on a path-carrying object
        if isinstance(f, ast.Attribute):
            recv = self.ev(f.value, env, summ, depth)
            if f.attr in VIEW_METHODS:
                if f.attr in ("values", "items", "get", "__getitem__"):
                    recv = self._named_view(recv)
                return recv | (allargs if f.attr == "get" else frozenset())
            # self.attr.setdefault(K, ..) / .add(V) chains: key tracking
            ke = self._keyed_chain(n, env, summ, depth)
            if ke is not None:
                return frozenset()
            if f.attr in ("append", "add", "extend", "update", "insert") \
                    and isinstance(f.value, ast.Name) \
                    and f.value.id in env.get("__fresh__", ()):
                # accumulation into a locally created container
                env[f.value.id] = env.get(f.value.id, frozenset()) | allargs
                return frozenset()
            if recv and f.attr in MUTATORS:
                real = frozenset(x for x in recv if not x[0].startswith("~"))
                if real or not self.alias_only:
                    summ.muts.append(MutEvent("call:" + f.attr, real or recv, n,
                                              env.get("__owner__")))
                return frozenset()
            if f.attr in CTOR_METHODS and recv:
                summ.ctors.append(CtorEvent(ast.unparse(f)[:80], f.attr, None,
                                            kwargs, args, n, recv,
                                            env.get("__owner__")))
                return recv | allargs

        # self.method(...) / super().method(...): inter-procedural
        target = None
        tmapper = self.mapper
        if isinstance(f, ast.Attribute) and isinstance(f.value, ast.Name) \
                and f.value.id == "self" and env.get("__selfcls__"):
            target = self.m.resolve_method(env["__selfcls__"], f.attr)
        elif isinstance(f, ast.Attribute) and isinstance(f.value, ast.Call) \
                and isinstance(f.value.func, ast.Name) \
                and f.value.func.id == "super" and env.get("__selfcls__"):
            owner = env.get("__owner__")
            if f.value.args and len(f.value.args) == 2:
                o2 = self.m.resolve_name(self.m.classes[owner].module.name,
                                         ast.unparse(f.value.args[0])) \
                    if owner in self.m.classes else None
                owner = o2 or owner
            if owner:
                target = self.m.resolve_method(env["__selfcls__"], f.attr,
                                               after=owner)
        elif isinstance(f, ast.Name) and f.id in env.get("__localfuncs__", {}):
            target = (env.get("__owner__"), env["__localfuncs__"][f.id])
        elif isinstance(f, ast.Attribute) and isinstance(f.value, ast.Name) \
                and f.value.id[:1].isupper() and env.get("__modname__"):
            # Class.method(self, ...) explicit base call
            c = self.m.resolve_name(env["__modname__"], f.value.id)
            if c in self.m.classes:
                t = self.m.resolve_method(c, f.attr)
                if t is not None:
                    target = t
                    args = args[1:]
        if target is None and self.follow_module_funcs and env.get("__modname__") \
                and isinstance(f, (ast.Name, ast.Attribute)):
            qn = self.m.resolve_name(env["__modname__"], ast.unparse(f)) \
                if (isinstance(f, ast.Name) or isinstance(f.value, ast.Name)) else None
            if qn and qn not in self.m.classes:
                mod, _, fn = qn.rpartition(".")
                if mod in self.m.modules and fn in self.m.modules[mod].functions:
                    target = ("@" + mod, self.m.modules[mod].functions[fn])
                    summ.calls.append((qn, n))
            elif qn in self.m.classes:
                # constructor of a repo class
                summ.ctors.append(CtorEvent(ast.unparse(f)[:80], "class", qn,
                                            kwargs, args, n, frozenset(),
                                            env.get("__owner__")))
                if self._is_mapper_class(qn):
                    return frozenset({("__mapper__", (qn,), False)})
                return frozenset() if self.alias_only else allargs

        if target is not None:
            if depth >= self.max_depth:
                summ.depth_exceeded = True
                if allargs:
                    summ.opaque.append((ast.unparse(f)[:60], allargs, n))
                return allargs
            owner, fd = target
            params = [a.arg for a in fd.args.posonlyargs + fd.args.args]
            is_method = owner is not None and not str(owner).startswith("@") \
                and params and params[0] in ("self", "cls")
            if is_method:
                params = params[1:]
            penv = {}
            for pname, a in zip(params, args):
                penv[pname] = a
            for k, v in kwargs.items():
                if k:
                    penv[k] = v
                else:
                    # **kwargs splat: flows to every unbound parameter
                    for pn in params:
                        penv.setdefault(pn, v)
            if fd.args.vararg and len(args) > len(params):
                penv[fd.args.vararg.arg] = frozenset().union(*args[len(params):])
            return self.run_function(fd, penv, summ, depth + 1, owner=owner,
                                     mapper=env.get("__selfcls__"))

        # type(self)(...) / type(expr)(...) constructor
        if isinstance(f, ast.Call) and isinstance(f.func, ast.Name) \
                and f.func.id == "type" and f.args:
            tv = self.ev(f.args[0], env, summ, depth)
            summ.ctors.append(CtorEvent(ast.unparse(f)[:80], "type(self)", None,
                                        kwargs, args, n, tv, env.get("__owner__")))
            return frozenset() if self.alias_only else allargs
        if fname == "replace" and args:
            summ.ctors.append(CtorEvent(ast.unparse(f)[:80], "replace", None,
                                        kwargs, args[1:], n, args[0],
                                        env.get("__owner__")))
            return frozenset() if self.alias_only else allargs
        if allargs:
            summ.opaque.append((ast.unparse(f)[:60], allargs, n))
        return frozenset() if self.alias_only else allargs

    def _is_mapper_class(self, qn):
        return any(c.endswith(".Mapper") or c == "pytato.equality.EqualityComparer"
                   for c in self.m.mro(qn))

    def _keyed_chain(self, n, env, summ, depth):
        """self.A.setdefault(K, ..).add(V) | self.A[K].append(V) |
        self.A.setdefault(K, ...)"""
        f = n.func
        if not isinstance(f, ast.Attribute):
            return None

        def self_attr(x):
            return (isinstance(x, ast.Attribute) and isinstance(x.value, ast.Name)
                    and x.value.id == "self")
        # X.add(V)/X.append(V) where X = self.A.setdefault(K, ..) or self.A[K]
        if f.attr in ("add", "append", "update", "extend"):
            x = f.value
            if isinstance(x, ast.Call) and isinstance(x.func, ast.Attribute) \
                    and x.func.attr == "setdefault" and self_attr(x.func.value) \
                    and x.args:
                k = self.ev(x.args[0], env, summ, depth)
                v = frozenset().union(*[self.ev(a, env, summ, depth)
                                        for a in n.args]) if n.args else frozenset()
                summ.keyed.append(KeyedEvent(x.func.value.attr, k, v, n))
                return True
            if isinstance(x, ast.Subscript) and self_attr(x.value):
                k = self.ev(x.slice, env, summ, depth)
                v = frozenset().union(*[self.ev(a, env, summ, depth)
                                        for a in n.args]) if n.args else frozenset()
                summ.keyed.append(KeyedEvent(x.value.attr, k, v, n))
                return True
            if self_attr(x):
                # self.A.add(V): own attribute, allowed sink
                v = frozenset()
                for a in n.args:
                    v |= self.ev(a, env, summ, depth)
                summ.keyed.append(KeyedEvent(x.attr, frozenset(), v, n))
                return True
        if f.attr == "setdefault" and self_attr(f.value) and n.args:
            k = self.ev(n.args[0], env, summ, depth)
            summ.keyed.append(KeyedEvent(f.value.attr, k, frozenset(), n))
            return True
        return None

    # --------------------------------------------------------------- statements
    def run_function(self, fd, penv, summ, depth, owner, mapper=None):
        key = (id(fd), tuple(sorted((k, v) for k, v in penv.items()
                                    if isinstance(v, frozenset))))
        if key in self.stack:
            return frozenset()
        self.stack.append(key)
        env = dict(penv)
        env["__owner__"] = owner if owner and not str(owner).startswith("@") else None
        if owner and str(owner).startswith("@"):
            env["__modname__"] = owner[1:]
            env["__selfcls__"] = None
        else:
            env["__selfcls__"] = mapper if mapper is not None else (
                self.mapper if owner and self.mapper and owner in self.m.mro(self.mapper)
                else owner)
            env["__modname__"] = self.m.classes[owner].module.name \
                if owner in self.m.classes else None
        env["__mappers__"] = {}
        env["__localfuncs__"] = {}
        env["__fresh__"] = frozenset()
        ret = []
        self.block(fd.body, env, summ, depth, ret)
        self.stack.pop()
        out = frozenset()
        for (_n, v) in ret:
            out |= v
        if depth == 0:
            summ.rets = ret
        return out

    def _note_mapper_assign(self, st, env, summ, depth):
        """x = self.clone_for_callee(..) / x = SomeMapper(..) / x = type(self)(..)"""
        v = st.value
        if not isinstance(v, ast.Call):
            return
        s = ast.unparse(v.func)
        kind = None
        if s.endswith("clone_for_callee"):
            kind = "clone"
        elif s.startswith("type(self)"):
            kind = "new:type(self)"
        elif isinstance(v.func, (ast.Name, ast.Attribute)) and env.get("__modname__"):
            qn = self.m.resolve_name(env["__modname__"], s)
            if qn in self.m.classes and self._is_mapper_class(qn):
                kind = "new:" + qn
        if kind:
            for t in st.targets if isinstance(st, ast.Assign) else [st.target]:
                if isinstance(t, ast.Name):
                    env["__mappers__"] = {**env["__mappers__"], t.id: kind}

    def block(self, body, env, summ, depth, ret):
        for st in body:
            self.stmt(st, env, summ, depth, ret)

    def stmt(self, st, env, summ, depth, ret):
        if isinstance(st, ast.Return):
            ret.append((st, self.ev(st.value, env, summ, depth)))
        elif isinstance(st, ast.Assign):
            v = self.ev(st.value, env, summ, depth)
            self._note_mapper_assign(st, env, summ, depth)
            for t in st.targets:
                self.assign_target(t, v, env, summ, depth, st)
                self._note_fresh(t, st.value, env)
        elif isinstance(st, ast.AnnAssign):
            v = self.ev(st.value, env, summ, depth) if st.value else frozenset()
            if st.value is not None:
                self._note_mapper_assign(st, env, summ, depth)
                self.assign_target(st.target, v, env, summ, depth, st)
                self._note_fresh(st.target, st.value, env)
        elif isinstance(st, ast.AugAssign):
            v = self.ev(st.value, env, summ, depth)
            if isinstance(st.target, ast.Name):
                old = env.get(st.target.id, frozenset())
                if isinstance(old, frozenset):
                    env[st.target.id] = old | v
            else:
                tv = self.ev(st.target.value, env, summ, depth) \
                    if isinstance(st.target, (ast.Attribute, ast.Subscript)) \
                    else frozenset()
                if tv and not self._is_self_attr(st.target):
                    summ.muts.append(MutEvent("augassign", tv, st, env.get("__owner__")))
        elif isinstance(st, ast.Expr):
            self.ev(st.value, env, summ, depth)
        elif isinstance(st, (ast.For, ast.AsyncFor)):
            self.bind_iter(st.target, st.iter, env, summ, depth)
            # two passes: loop-carried flow
            self.block(st.body, env, summ, depth, ret)
            self.block(st.body, env, summ, depth, ret)
            self.block(st.orelse, env, summ, depth, ret)
        elif isinstance(st, ast.While):
            self.ev(st.test, env, summ, depth)
            self.block(st.body, env, summ, depth, ret)
            self.block(st.body, env, summ, depth, ret)
            self.block(st.orelse, env, summ, depth, ret)
        elif isinstance(st, ast.If):
            self.ev(st.test, env, summ, depth)
            e1 = dict(env)
            e2 = dict(env)
            self.block(st.body, e1, summ, depth, ret)
            self.block(st.orelse, e2, summ, depth, ret)
            self._join(env, e1, e2)
        elif isinstance(st, ast.Try):
            e0 = dict(env)
            self.block(st.body, env, summ, depth, ret)
            for h in st.handlers:
                eh = dict(e0)
                self._join(eh, dict(env), dict(e0))
                self.block(h.body, eh, summ, depth, ret)
                self._join(env, dict(env), eh)
            self.block(st.orelse, env, summ, depth, ret)
            self.block(st.finalbody, env, summ, depth, ret)
        elif isinstance(st, (ast.With, ast.AsyncWith)):
            for it in st.items:
                v = self.ev(it.context_expr, env, summ, depth)
                if it.optional_vars is not None:
                    self.bind(it.optional_vars, v, env)
            self.block(st.body, env, summ, depth, ret)
        elif isinstance(st, ast.Assert):
            self.ev(st.test, env, summ, depth)
        elif isinstance(st, ast.Raise):
            self.ev(st.exc, env, summ, depth)
        elif isinstance(st, ast.Delete):
            for t in st.targets:
                if isinstance(t, (ast.Subscript, ast.Attribute)):
                    tv = self.ev(t.value, env, summ, depth)
                    if tv and not self._is_self_attr(t):
                        summ.muts.append(MutEvent("del", tv, st, env.get("__owner__")))
        elif isinstance(st, (ast.FunctionDef, ast.AsyncFunctionDef)):
            env["__localfuncs__"] = {**env["__localfuncs__"], st.name: st}
        elif isinstance(st, ast.Match):
            self.ev(st.subject, env, summ, depth)
            for c in st.cases:
                self.block(c.body, dict(env), summ, depth, ret)
        # Import/Pass/Global/Nonlocal/Break/Continue/ClassDef: no flow

    def _note_fresh(self, tgt, value, env):
        fresh = False
        if isinstance(value, (ast.List, ast.Set, ast.Dict, ast.ListComp,
                              ast.SetComp, ast.DictComp)):
            fresh = True
        elif isinstance(value, ast.Call) and isinstance(value.func, ast.Name) \
                and value.func.id in ("list", "set", "dict", "OrderedSet",
                                      "defaultdict", "deque"):
            fresh = True
        elif isinstance(value, ast.BinOp) and isinstance(value.op, ast.Add) and any(
                isinstance(x, (ast.List, ast.ListComp)) for x in (value.left, value.right)):
            fresh = True
        elif isinstance(value, ast.Call) and self._returns_fresh_container(value, env):
            fresh = True       # `preds = self._helper(..)`: a list the helper built
        if fresh and isinstance(tgt, ast.Name):
            env["__fresh__"] = frozenset(env.get("__fresh__", frozenset())) | {tgt.id}

    def _returns_fresh_container(self, call, env):
        """the call goes to a private method of the same class (self._h(..)) every
        return of which hands back a container it created itself: a display, a
        comprehension, list(..)/sorted(..), a + of lists, or a local bound only to such"""
        f = call.func
        if not (isinstance(f, ast.Attribute) and isinstance(f.value, ast.Name)
                and f.value.id in ("self", "cls") and f.attr.startswith("_")
                and not f.attr.startswith("__")):
            return False
        cls = env.get("__selfcls__") or env.get("__owner__")
        if not cls or cls not in self.m.classes:
            return False
        r = self.m.resolve_method(cls, f.attr)
        if r is None:
            return False
        h = r[1]

        def fresh_expr(e, depth=0):
            if isinstance(e, (ast.List, ast.Set, ast.Dict, ast.ListComp, ast.SetComp,
                              ast.DictComp)):
                return True
            if isinstance(e, ast.Call) and isinstance(e.func, ast.Name) \
                    and e.func.id in ("list", "set", "dict", "sorted", "OrderedSet"):
                return True
            if isinstance(e, ast.BinOp) and isinstance(e.op, ast.Add):
                return fresh_expr(e.left, depth) or fresh_expr(e.right, depth)
            if isinstance(e, ast.Name) and depth < 2:
                asg = [a.value for a in ast.walk(h)
                       if isinstance(a, (ast.Assign, ast.AnnAssign)) and a.value is not None
                       and any(isinstance(t, ast.Name) and t.id == e.id for t in (
                           a.targets if isinstance(a, ast.Assign) else [a.target]))]
                return bool(asg) and all(fresh_expr(v, depth + 1) for v in asg)
            return False
        rets = [x.value for x in ast.walk(h) if isinstance(x, ast.Return)]
        return bool(rets) and all(v is not None and fresh_expr(v) for v in rets)

    def _is_self_attr(self, t):
        """``self.x`` / ``self.x[...]`` / ``self.x.y``: the mapper's own state."""
        while isinstance(t, (ast.Attribute, ast.Subscript)):
            t = t.value
        return isinstance(t, ast.Name) and t.id == "self"

    def assign_target(self, t, v, env, summ, depth, st):
        if isinstance(t, ast.Name):
            self.bind(t, v, env)
        elif isinstance(t, (ast.Tuple, ast.List)):
            for e in t.elts:
                self.assign_target(e, v, env, summ, depth, st)
        elif isinstance(t, ast.Starred):
            self.assign_target(t.value, v, env, summ, depth, st)
        elif isinstance(t, ast.Attribute):
            tv = self.ev(t.value, env, summ, depth)
            if tv and not self._is_self_attr(t):
                summ.muts.append(MutEvent("store-attr", tv, st, env.get("__owner__")))
        elif isinstance(t, ast.Subscript):
            tv = self.ev(t.value, env, summ, depth)
            k = self.ev(t.slice, env, summ, depth)
            if self._is_self_attr(t):
                if isinstance(t.value, ast.Attribute) and k:
                    summ.keyed.append(KeyedEvent(t.value.attr, k, v, st))
            elif isinstance(t.value, ast.Name) \
                    and t.value.id in env.get("__fresh__", ()):
                # store into a locally created container
                env[t.value.id] = env.get(t.value.id, frozenset()) | k | v
            elif tv:
                summ.muts.append(MutEvent("store-subscript", tv, st,
                                          env.get("__owner__")))

    def _join(self, env, e1, e2):
        for k in set(e1) | set(e2):
            a, b = e1.get(k), e2.get(k)
            if isinstance(a, frozenset) or isinstance(b, frozenset):
                env[k] = (a if isinstance(a, frozenset) else frozenset()) | \
                         (b if isinstance(b, frozenset) else frozenset())
            elif k == "__fresh__":
                env[k] = frozenset(a or ()) | frozenset(b or ())
            elif isinstance(a, dict) or isinstance(b, dict):
                env[k] = {**(b if isinstance(b, dict) else {}),
                          **(a if isinstance(a, dict) else {})}
            else:
                env[k] = a if a is not None else b

    # --------------------------------------------------------------- entry point
    def handler(self, method_name: str, kinds, roots=("expr",),
                cls: str | None = None) -> Summary | None:
        """Analyse ``cls.method_name`` (default: the mapper) with its first
        len(roots) non-self parameters bound to the roots of the given kinds."""
        cls = cls or self.mapper
        r = self.m.resolve_method(cls, method_name)
        if r is None:
            return None
        owner, fd = r
        return self.function(fd, kinds, roots, owner=owner, selfcls=cls)

    def function(self, fd, kinds, roots=("expr",), owner=None, selfcls=None,
                 self_root: str | None = None) -> Summary:
        params = [a.arg for a in fd.args.posonlyargs + fd.args.args]
        if owner and not str(owner).startswith("@") and params \
                and params[0] in ("self", "cls"):
            selfname = params[0]
            params = params[1:]
        else:
            selfname = None
        if isinstance(kinds, str) or kinds is None:
            kinds = [kinds] * len(roots)
        self.kind_for_root = {}
        penv = {}
        if self_root is not None and selfname:
            penv[selfname] = frozenset({ap(self_root)})
            self.kind_for_root[self_root] = selfcls
        for i, root in enumerate(roots):
            if i < len(params):
                penv[params[i]] = frozenset({ap(root)})
                if kinds[i]:
                    self.kind_for_root[root] = kinds[i]
        summ = Summary()
        self.stack = []
        # sequences of known length written out by position (model.positional)
        fd = self.m.positional(fd)
        ret = self.run_function(fd, penv, summ, 0, owner, mapper=selfcls)
        summ.ret = ret
        mi = self.m.module_of(fd)
        summ.where = (owner, fd.name, f"{mi.relpath(self.m.repo)}:{fd.lineno}")
        summ.raises_only = _raises_only(fd)
        return summ


def _raises_only(fd) -> bool:
    """Body consists of (docstring +) a raise: handler is a deliberate refusal."""
    body = [s for s in fd.body
            if not (isinstance(s, ast.Expr) and isinstance(s.value, ast.Constant))]
    return len(body) >= 1 and all(isinstance(s, (ast.Raise, ast.Assert, ast.Import,
                                                 ast.ImportFrom)) for s in body) \
        and any(isinstance(s, ast.Raise) for s in body)


def child_paths(model: Model, kind: str) -> dict[tuple, str]:
    """Child-carrying access paths of a node kind, derived from the field
    annotations: path -> 'array' | 'container' | 'funcdef' | 'maybe-array'
    (a union/tuple that *may* hold arrays, e.g. shape, indices, bindings of a
    loopy call)."""
    out: dict[tuple, str] = {}
    _child_paths(model, kind, (), out, set())
    return out


_ARRAYISH = {"Array", "ArrayOrNames", "ArrayOrScalar"}
_MAYBE = {"ShapeType", "ShapeComponent", "IndexExpr", "IndexOrShapeExpr",
          "ArrayOrScalar", "ConvertibleToShape"}


def _child_paths(model, cls, prefix, out, seen):
    if cls in seen:
        return
    seen = seen | {cls}
    for name, (ann, _d, _kw, defcls) in model.fields(cls).items():
        mod = model.classes[defcls].module.name
        kind = classify_ann(model, ann, mod)
        if kind is None:
            continue
        if kind.startswith("embed:"):
            _child_paths(model, kind[6:], prefix + (name,), out, seen)
        else:
            out[prefix + (name,)] = kind


def classify_ann(model: Model, ann: ast.expr, module: str) -> str | None:
    """'array' | 'maybe-array' | 'container' | 'funcdef' | 'embed:<cls>' | None"""
    if isinstance(ann, ast.Constant) and isinstance(ann.value, str):
        try:
            ann = ast.parse(ann.value, mode="eval").body
        except SyntaxError:
            return None
    names = set()
    for n in ast.walk(ann):
        if isinstance(n, ast.Name):
            names.add(n.id)
        elif isinstance(n, ast.Attribute):
            names.add(n.attr)
        elif isinstance(n, ast.Constant) and isinstance(n.value, str):
            names.add(n.value)
    # expand module-level aliases one level
    expanded = set(names)
    for nm in names:
        for mi in (model.modules.get(module), model.modules.get("pytato.array")):
            if mi and nm in mi.assigns and nm not in model.byname:
                for n in ast.walk(mi.assigns[nm]):
                    if isinstance(n, ast.Name):
                        expanded.add(n.id)
                    elif isinstance(n, ast.Constant) and isinstance(n.value, str):
                        expanded.add(n.value)
    if "FunctionDefinition" in expanded:
        return "funcdef"
    if expanded & {"AbstractResultWithNamedArrays", "LoopyCall", "Call",
                   "DictOfNamedArrays"}:
        return "container"
    if isinstance(ann, ast.Name) and ann.id == "Array":
        return "array"
    src = ast.unparse(ann)
    if src in ("tuple[Array, ...]", "Mapping[str, Array]", "Array"):
        return "array"
    if expanded & _MAYBE or "Array" in expanded or "ArrayOrScalar" in expanded:
        return "maybe-array"
    # embedded repo dataclass that itself carries children
    if isinstance(ann, (ast.Name, ast.Attribute)):
        r = model.resolve_name(module, src)
        if r in model.classes and model.is_dataclass(r) \
                and "pytato.array.Array" not in model.mro(r):
            sub = {}
            _child_paths(model, r, (), sub, set())
            if sub:
                return "embed:" + r
    return None
