"""Obligations, results, evidence, known findings, replay."""
from __future__ import annotations

import hashlib
import json
import time
from dataclasses import dataclass, field
from pathlib import Path

VERIF = Path(__file__).resolve().parent.parent

OK, EXEMPT, VIOLATION, IMPRECISE = "ok", "exempt", "violation", "imprecise"


@dataclass
class Ob:
    """One obligation: rule applied to one instance of one construct."""
    rule: str
    construct: str
    instance: str
    status: str
    where: str = ""
    detail: str = ""
    facts: dict = field(default_factory=dict)
    nontrivial: bool = True

    @property
    def key(self) -> str:
        return f"{self.rule}/{self.construct}/{self.instance}"

    def as_sample(self) -> dict:
        d = {"rule": self.rule, "construct": self.construct,
             "instance": self.instance, "status": self.status,
             "where": self.where}
        if self.detail:
            d["detail"] = self.detail
        return d


class Collector:
    """Collects obligations for one property run."""

    def __init__(self, prop: str, model, tier: str, seed: int):
        self.prop = prop
        self.model = model
        self.tier = tier
        self.seed = seed
        self.obs: list[Ob] = []
        self.units: dict = {}
        self.notes: list[str] = []
        self._seen: set[str] = set()

    def add(self, rule, construct, instance, status, where="", detail="",
            facts=None, nontrivial=True):
        ob = Ob(rule, construct, instance, status, where, detail,
                facts or {}, nontrivial)
        # keep keys unique: same key twice = rule bug unless identical status
        k = ob.key
        n = 2
        while k in self._seen:
            ob.instance = f"{instance}#{n}"
            k = ob.key
            n += 1
        self._seen.add(k)
        self.obs.append(ob)
        return ob

    def ok(self, rule, construct, instance, where="", detail="", **kw):
        return self.add(rule, construct, instance, OK, where, detail, **kw)

    def violation(self, rule, construct, instance, where="", detail="", **kw):
        return self.add(rule, construct, instance, VIOLATION, where, detail, **kw)

    def exempt(self, rule, construct, instance, where="", detail="", **kw):
        return self.add(rule, construct, instance, EXEMPT, where, detail, **kw)

    def imprecise(self, rule, construct, instance, where="", detail="", **kw):
        return self.add(rule, construct, instance, IMPRECISE, where, detail, **kw)

    def check(self, cond, rule, construct, instance, where="", detail="",
              ok_detail="", **kw):
        if cond:
            return self.ok(rule, construct, instance, where, ok_detail, **kw)
        return self.violation(rule, construct, instance, where, detail, **kw)

    def count(self, rule=None, status=None):
        return sum(1 for o in self.obs
                   if (rule is None or o.rule == rule)
                   and (status is None or o.status == status))


def load_known_findings() -> list[dict]:
    p = VERIF / "known_findings.json"
    if not p.exists():
        return []
    return json.loads(p.read_text()).get("findings", [])


def replay_path(prop: str, key: str) -> Path:
    h = hashlib.sha1(key.encode()).hexdigest()[:16]
    return VERIF / "replay" / prop / f"{h}.json"


def write_replay(prop: str, ob: Ob, model) -> Path:
    p = replay_path(prop, ob.key)
    p.parent.mkdir(parents=True, exist_ok=True)
    digest = ""
    fn = ob.where.rsplit(":", 1)[0] if ob.where else ""
    if fn:
        try:
            digest = hashlib.sha1((model.repo / fn).read_bytes()).hexdigest()
        except OSError:
            pass
    p.write_text(json.dumps({
        "property": prop, "key": ob.key, "rule": ob.rule,
        "construct": ob.construct, "instance": ob.instance,
        "where": ob.where, "detail": ob.detail, "facts": ob.facts,
        "file_digest": digest,
        "how": f"cd /verif && /venv/bin/python -m pta.check {prop} "
               f"--replay {p.relative_to(VERIF)}",
    }, indent=1, default=str))
    return p


def write_evidence(prop: str, spec, coll: Collector, wall: float,
                   new_violations: list[Ob], known: list[Ob],
                   extra: dict | None = None):
    obs = coll.obs
    nontriv = {o.key for o in obs if o.nontrivial}
    by_rule: dict[str, dict[str, int]] = {}
    for o in obs:
        d = by_rule.setdefault(o.rule, {})
        d[o.status] = d.get(o.status, 0) + 1
    # samples: first ok of each rule, then all non-ok (capped)
    samples = []
    seen_rules = set()
    for o in obs:
        if o.status == OK and o.rule not in seen_rules:
            seen_rules.add(o.rule)
            samples.append(o.as_sample())
    for o in obs:
        if o.status != OK and len(samples) < 60:
            samples.append(o.as_sample())
    for o in obs:
        if len(samples) >= 12:
            break
        s = o.as_sample()
        if s not in samples:
            samples.append(s)
    cov = {
        "explanation": spec.explanation,
        "not_decided": spec.not_decided,
        "rule": ("obligations are enumerated from the source of /repo/pytato "
                 "(classes, handlers, call sites, table entries in the rule's "
                 "scope); one obligation = one (rule, construct, instance) "
                 "key; distinct = distinct keys; non-trivial = the reference "
                 "set for that instance is non-empty (something had to be "
                 "found in the code for it to pass)"),
        "evaluations": len(obs),
        "distinct_nontrivial": len(nontriv),
        "obligations": len(obs),
        "discharged": sum(1 for o in obs if o.status == OK),
        "exempt": sum(1 for o in obs if o.status == EXEMPT),
        "known_findings": len(known),
        "violations": len(new_violations),
        "by_rule": by_rule,
        "units": coll.units,
        "samples": samples,
        "exhaustive": True,
        "checker_cmd": f"cd /verif && /venv/bin/python -m pta.check {prop} "
                       f"--tier {coll.tier}",
        "trusted_base": spec.trusted_base,
        "notes": coll.notes,
    }
    if extra:
        cov.update(extra)
    ev = {
        "property_id": prop,
        "tier": coll.tier,
        "seed": coll.seed,
        "level": "other",
        "coverage": cov,
        "assumptions": spec.assumptions,
        "wall_s": round(wall, 3),
        "violations": len(new_violations),
    }
    p = VERIF / "evidence" / f"{prop}.json"
    p.parent.mkdir(exist_ok=True)
    p.write_text(json.dumps(ev, indent=1, default=str) + "\n")
    return p


class Timer:
    def __init__(self):
        self.t0 = time.time()

    def wall(self):
        return time.time() - self.t0
