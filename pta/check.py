"""CLI:  python -m pta.check Cxx [--tier quick|thorough] [--repo /repo]
                              [--replay replay/Cxx/<h>.json]

exit 0  property's structural clauses held on everything analysed
        (possibly with KNOWN-FINDING lines)
exit 1  VIOLATION property=<id> replay=<path>   (one line per new violation)
exit 2  ANALYSIS-ERROR (checker could not decide; never a property verdict)
"""
from __future__ import annotations

import argparse
import importlib
import json
import os
import sys
import traceback

from pta.model import AnalysisError, Model
from pta.report import (
    IMPRECISE, VIOLATION, Collector, Timer, load_known_findings, write_evidence,
    write_replay, VERIF,
)


class Spec:
    def __init__(self, prop, rules, floors, explanation, not_decided,
                 trusted_base=None, assumptions=None, selftest=None,
                 thorough_rules=None):
        self.prop = prop
        self.rules = rules
        self.thorough_rules = thorough_rules or []
        self.floors = floors
        self.explanation = explanation
        self.not_decided = not_decided
        self.trusted_base = trusted_base or [
            "CPython ast module", "dataclasses field-ordering semantics",
            "pymbolic optimize_mapper source rewriting", "pytools, loopy, islpy"]
        self.assumptions = assumptions or [
            "the source files under /repo/pytato are what is imported at run "
            "time (no monkey patching)",
            "third-party libraries behave as documented (trusted base)"]
        self.selftest = selftest


def load_spec(prop: str) -> Spec:
    try:
        mod = importlib.import_module(f"pta.rules.{prop.lower()}")
    except ModuleNotFoundError as e:
        raise AnalysisError(f"no rules for {prop}: {e}") from e
    return mod.SPEC


def run_rules(spec: Spec, model: Model, tier: str, seed: int) -> Collector:
    coll = Collector(spec.prop, model, tier, seed)
    coll.units = {
        "modules": len(model.modules),
        "classes": len(model.classes),
        "mapper_classes": len(model.subclasses("pytato.transform.Mapper"))
        if "pytato.transform.Mapper" in model.classes else 0,
        "kinds": len([k for k in model.kinds() if not model.is_abstract(k)]),
    }
    rules = list(spec.rules) + (list(spec.thorough_rules)
                                if tier == "thorough" else [])
    # a rule that cannot decide (vanished anchor, fewer instances than confirmed by
    # hand) does not stop the other rules: if one of them finds a specific
    # violation that is what gets reported (exit 1, with a NOTE); only when
    # nothing specific was found does the run end as ANALYSIS-ERROR (exit 2)
    coll.floor_errors = []
    for rule in rules:
        n_before = len(coll.obs)
        try:
            rule(coll)
        except AnalysisError as e:
            coll.floor_errors.append(f"{rule.__name__}: {e}")
    for rname, floor in spec.floors.items():
        n = coll.count(rule=rname)
        if n < floor:
            coll.floor_errors.append(
                f"rule {rname} matched {n} instances, below the floor of "
                f"{floor} confirmed by hand (vacuous pass refused)")
    return coll


def main(argv=None) -> int:
    ap = argparse.ArgumentParser()
    ap.add_argument("prop")
    ap.add_argument("--tier", default=os.environ.get("VERIF_TIER", "quick"),
                    choices=["quick", "thorough"])
    ap.add_argument("--repo", default=os.environ.get("PTA_REPO", "/repo"))
    ap.add_argument("--replay")
    ap.add_argument("--no-evidence", action="store_true")
    ap.add_argument("--no-selftest", action="store_true")
    ap.add_argument("-v", "--verbose", action="store_true")
    args = ap.parse_args(argv)
    prop = args.prop.upper()
    try:
        seed = int(os.environ.get("VERIF_SEED", "0"))
    except ValueError:
        seed = 0
    timer = Timer()
    try:
        model = Model(args.repo)
        from pta import pat as _pat
        _pat.set_model(model)
        spec = load_spec(prop)
        coll = run_rules(spec, model, args.tier, seed)

        if args.replay:
            rp = args.replay if os.path.isabs(args.replay) \
                else str(VERIF / args.replay)
            rec = json.loads(open(rp).read())
            hits = [o for o in coll.obs if o.key == rec["key"]]
            if not hits:
                print(f"REPLAY {rec['key']}: obligation no longer exists "
                      "on this tree")
                return 0
            o = hits[0]
            print(f"REPLAY {o.key}: status={o.status} at {o.where}")
            if o.detail:
                print("   " + o.detail)
            if o.status == VIOLATION:
                print(f"VIOLATION property={prop} replay={rp}")
                return 1
            return 0

        impr = [o for o in coll.obs if o.status == IMPRECISE]
        if impr:
            for o in impr[:20]:
                print(f"IMPRECISE {o.key} at {o.where}: {o.detail}")
            raise AnalysisError(
                f"{len(impr)} obligation(s) could not be decided")

        extra = {}
        if args.tier == "thorough":
            from pta.xcheck import cross_validate
            xr = cross_validate(model)
            if xr.get("error"):
                raise AnalysisError("model cross-validation could not run: "
                                    + xr["error"][-400:])
            if xr["mismatches"]:
                raise AnalysisError("static model disagrees with reflection: "
                                    + json.dumps(xr["mismatches"][:5]))
            extra["model_cross_validation"] = {
                "classes_checked": xr["checked"], "mismatches": 0}

        known = [k for k in load_known_findings()
                 if k["property"] == prop and k.get("status") == "open"]
        known_keys = {k["key"]: k for k in known}
        viol = [o for o in coll.obs if o.status == VIOLATION]
        new = [o for o in viol if o.key not in known_keys]
        old = [o for o in viol if o.key in known_keys]
        # a rule that found fewer instances than confirmed by hand cannot
        # certify anything (exit 2) -- unless a specific violation was found
        # anyway, which is reported as such (the missing instances are then
        # usually a consequence of the same change)
        if coll.floor_errors and not new:
            raise AnalysisError("; ".join(coll.floor_errors))
        for fe in coll.floor_errors:
            print("NOTE:", fe)
        # rule self-test (thorough tier, only when the tree itself is clean:
        # on a tree with a violation every passing twin would alarm too):
        # every breaking variant of the catalogue must make this property's
        # check fire, every passing twin must leave it silent
        if args.tier == "thorough" and not new and not args.no_selftest \
                and not os.environ.get("PTA_IN_SELFTEST"):
            from pta.selftest.runner import run_selftest
            st = run_selftest(prop, spec.selftest, model, seed)
            extra["selftest"] = st["summary"]
            if st["failures"]:
                for f in st["failures"][:20]:
                    print("SELFTEST-FAILURE", f)
                raise AnalysisError(
                    f"rule self-test failed for {len(st['failures'])} "
                    "variant(s): checker defect")

        if not args.no_evidence:
            write_evidence(prop, spec, coll, timer.wall(), new, old, extra)

        by_rule = {}
        for o in coll.obs:
            by_rule.setdefault(o.rule, []).append(o)
        print(f"{prop} tier={args.tier} repo={model.repo} "
              f"obligations={len(coll.obs)} "
              f"ok={coll.count(status='ok')} exempt={coll.count(status='exempt')} "
              f"violations={len(viol)} (known={len(old)}, new={len(new)}) "
              f"wall={timer.wall():.2f}s")
        for r, obs in by_rule.items():
            print(f"  {r}: {len(obs)} obligations, "
                  f"{sum(1 for o in obs if o.status == 'ok')} ok, "
                  f"{sum(1 for o in obs if o.status == 'exempt')} exempt, "
                  f"{sum(1 for o in obs if o.status == VIOLATION)} violated")
        if args.verbose:
            for o in coll.obs:
                print(f"    [{o.status}] {o.key} @ {o.where} {o.detail}")
        for o in old:
            print(f"KNOWN-FINDING: property={prop} {o.key} -- "
                  f"{known_keys[o.key].get('what', o.detail)} ({o.where})")
        seen = {o.key for o in viol}
        for k in known:
            if k["key"] not in seen:
                print(f"NOTE: listed finding no longer present: {k['key']}")
        for o in new:
            rp = write_replay(prop, o, model)
            print(f"  {o.rule} {o.construct} [{o.instance}] at {o.where}: "
                  f"{o.detail}")
            print(f"VIOLATION property={prop} replay={rp}")
        return 1 if new else 0
    except AnalysisError as e:
        print(f"ANALYSIS-ERROR property={prop}: {e}")
        return 2
    except Exception:  # noqa: BLE001
        traceback.print_exc()
        print(f"ANALYSIS-ERROR property={prop}: internal error (see traceback)")
        return 2


if __name__ == "__main__":
    import signal
    signal.signal(signal.SIGPIPE, signal.SIG_DFL)
    sys.stdout.reconfigure(line_buffering=True)
    rc = main()
    sys.stdout.flush()
    os._exit(rc)
