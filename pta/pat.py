"""Small AST pattern matcher with metavariables (rename-robust anchors).

Pattern syntax = Python source where
  $x    matches any identifier (ast.Name / function argument), consistently
  $$x   matches any expression, consistently (compared by ast.dump)
  $_    matches any identifier, $$_ any expression (no consistency)
A pattern of several statements matches a consecutive run of statements in
some body.  Formatting, comments, type annotations on assignments
(``x: T = v`` matches the pattern ``x = v``) and string quote style do not
matter because both sides are compared as syntax trees.
"""
from __future__ import annotations

import ast
import re

def canon(tree):
    """Canonical polarity of two-armed `if` statements: when an `if` has an `else`
    that is not an `elif`, its test does not start with `not` (the arms are
    exchanged instead).  `if not c: A else: B` and `if c: B else: A` are the same
    program and, after this, the same tree.  Applied to every module the model
    loads and to every pattern, so that no rule depends on which way round a
    two-armed conditional happens to be written."""
    for n in ast.walk(tree):
        if isinstance(n, ast.If) and n.orelse and not (
                len(n.orelse) == 1 and isinstance(n.orelse[0], ast.If)) \
                and isinstance(n.test, ast.UnaryOp) and isinstance(n.test.op, ast.Not):
            n.test = n.test.operand
            n.body, n.orelse = n.orelse, n.body
        # isinstance(x, A | B) and isinstance(x, (A, B)) are the same test
        if isinstance(n, ast.Call) and isinstance(n.func, ast.Name) \
                and n.func.id == "isinstance" and len(n.args) == 2 \
                and isinstance(n.args[1], ast.BinOp) and isinstance(n.args[1].op, ast.BitOr):
            parts = []

            def flat(x):
                if isinstance(x, ast.BinOp) and isinstance(x.op, ast.BitOr):
                    flat(x.left)
                    flat(x.right)
                else:
                    parts.append(x)
            flat(n.args[1])
            tup = ast.Tuple(elts=parts, ctx=ast.Load())
            ast.copy_location(tup, n.args[1])
            n.args[1] = tup
        # tuple([x for ...]) and tuple(x for ...) build the same value
        if isinstance(n, ast.Call) and isinstance(n.func, ast.Name) \
                and n.func.id in _ITER_CONSUMERS and len(n.args) == 1 \
                and isinstance(n.args[0], ast.ListComp):
            g = ast.GeneratorExp(elt=n.args[0].elt, generators=n.args[0].generators)
            ast.copy_location(g, n.args[0])
            n.args[0] = g
        # frozenset(d.keys()) and frozenset(d) hold the same elements
        if isinstance(n, ast.Call) and isinstance(n.func, ast.Name) \
                and n.func.id in ("frozenset", "set", "tuple", "list", "sorted") \
                and len(n.args) == 1 and not n.keywords \
                and isinstance(n.args[0], ast.Call) and not n.args[0].args \
                and not n.args[0].keywords and isinstance(n.args[0].func, ast.Attribute) \
                and n.args[0].func.attr == "keys":
            n.args[0] = n.args[0].func.value
        # a literal compared with == / != / is stands on the right
        if isinstance(n, ast.Compare) and len(n.ops) == 1 and isinstance(
                n.ops[0], (ast.Eq, ast.NotEq, ast.Is, ast.IsNot)) \
                and ((_is_lit(n.left) and not _is_lit(n.comparators[0]))
                     or (_is_const_name(n.left) and not _is_const_name(n.comparators[0])
                         and not _is_lit(n.comparators[0]))):
            n.left, n.comparators = n.comparators[0], [n.left]
    return tree


_ITER_CONSUMERS = {"tuple", "list", "set", "frozenset", "sorted", "any", "all", "sum",
                   "min", "max", "dict", "constantdict", "FrozenOrderedSet", "OrderedSet"}


def _is_const_name(x):
    """Enum.MEMBER / CONSTANT / module.CONSTANT: the constant side of a comparison"""
    while isinstance(x, ast.Attribute):
        if x.attr.isupper():
            return True
        x = x.value
    return isinstance(x, ast.Name) and x.id.isupper()


def _is_lit(x):
    if isinstance(x, ast.Constant):
        return True
    if isinstance(x, ast.UnaryOp) and isinstance(x.operand, ast.Constant):
        return True
    if isinstance(x, (ast.Tuple, ast.List)):
        return all(_is_lit(e) for e in x.elts)
    return False


_MV = "MV__"
_MX = "MX__"


def _prep(src: str) -> str:
    src = re.sub(r"\$\$(\w+)", lambda m: _MX + m.group(1), src)
    src = re.sub(r"\$(\w+)", lambda m: _MV + m.group(1), src)
    return src


_cache: dict[str, list] = {}


def compile_pat(pattern: str):
    if pattern not in _cache:
        tree = canon(ast.parse(_prep(pattern.strip())))
        body = tree.body
        if len(body) == 1 and isinstance(body[0], ast.Expr):
            _cache[pattern] = ("expr", body[0].value)
        else:
            _cache[pattern] = ("stmts", body)
    return _cache[pattern]


def _bind(env, key, val):
    if key.endswith("__") or key in ("_", "$_", "$$_"):
        return True
    if key in env:
        return env[key] == val
    env[key] = val
    return True


def match(p, n, env) -> bool:
    # metavariables
    if isinstance(p, ast.Name):
        if p.id.startswith(_MX):
            return _bind(env, "$$" + p.id[len(_MX):], ast.dump(n)) \
                if isinstance(n, ast.expr) else False
        if p.id.startswith(_MV):
            if isinstance(n, ast.Name):
                return p.id[len(_MV):] == "_" or _bind(env, "$" + p.id[len(_MV):], n.id)
            return False
    if isinstance(p, ast.arg) and p.arg.startswith(_MV):
        return isinstance(n, ast.arg) and _bind(env, "$" + p.arg[len(_MV):], n.arg)
    if isinstance(p, ast.Expr) and isinstance(n, ast.Expr):
        return match(p.value, n.value, env)
    # x = v  matches  x: T = v
    if isinstance(p, ast.Assign) and isinstance(n, ast.AnnAssign) and n.value is not None \
            and len(p.targets) == 1:
        return match(p.targets[0], n.target, env) and match(p.value, n.value, env)
    if type(p) is not type(n):
        return False
    if isinstance(p, ast.Compare) and len(p.ops) == 1 and len(n.ops) == 1 \
            and type(p.ops[0]) is type(n.ops[0]) \
            and isinstance(p.ops[0], (ast.Eq, ast.NotEq, ast.Is, ast.IsNot)):
        # symmetric operators match in either operand order
        e1 = dict(env)
        if match(p.left, n.left, e1) and match(p.comparators[0], n.comparators[0], e1):
            env.update(e1)
            return True
        e2 = dict(env)
        if match(p.left, n.comparators[0], e2) and match(p.comparators[0], n.left, e2):
            env.update(e2)
            return True
        return False
    if isinstance(p, ast.Call) and p.keywords and all(k.arg is not None for k in p.keywords) \
            and all(k.arg is not None for k in n.keywords):
        # keyword arguments are matched by name, in any order
        if len(p.keywords) != len(n.keywords) or len(p.args) != len(n.args):
            return False
        if not match(p.func, n.func, env):
            return False
        for a, b in zip(p.args, n.args):
            if not match(a, b, env):
                return False
        nk = {k.arg: k.value for k in n.keywords}
        for k in p.keywords:
            if k.arg not in nk or not match(k.value, nk[k.arg], env):
                return False
        return True
    for fname in p._fields:
        if fname in ("ctx", "type_comment", "lineno", "col_offset", "end_lineno",
                     "end_col_offset", "kind"):
            continue
        pv, nv = getattr(p, fname, None), getattr(n, fname, None)
        if fname in ("returns", "annotation", "type_params") and not pv:
            continue        # annotations the pattern does not mention do not matter
        if isinstance(pv, list):
            if not isinstance(nv, list) or len(pv) != len(nv):
                return False
            for a, b in zip(pv, nv):
                if isinstance(a, ast.AST):
                    if not match(a, b, env):
                        return False
                elif a != b:
                    return False
        elif isinstance(pv, ast.AST):
            if not isinstance(nv, ast.AST) or not match(pv, nv, env):
                return False
        else:
            if isinstance(pv, str) and pv.startswith(_MV) and isinstance(nv, str):
                if not _bind(env, "$" + pv[len(_MV):], nv):
                    return False
            elif pv != nv:
                return False
    return True


_MODEL = None
import os as _os


def set_model(m):
    """With a model set, a pattern that matches nowhere in a function of the model
    is tried on the function's normal forms as well (private helpers inlined; then
    locals propagated, fill loops as comprehensions): an anchor written for today's
    text is still found after 'extract helper' / 'hoist local' refactorings."""
    global _MODEL
    _MODEL = m


def find(root, pattern: str, env0=None) -> list[dict]:
    """all matches of pattern among the descendants of root (root included)"""
    out = _find(root, pattern, env0)
    if out or _MODEL is None or _os.environ.get("PTA_FIND_FALLBACK", "1") != "1" \
            or not isinstance(root, (ast.FunctionDef, ast.AsyncFunctionDef)) \
            or getattr(root, "_derived", False) or not hasattr(root, "_parent"):
        return out
    for form in (_MODEL.inlined, _MODEL.normal, _MODEL.normal_wide):
        try:
            alt = form(root)
        except Exception:       # a form that cannot be built is simply not tried
            continue
        out = _find(alt, pattern, env0)
        if out:
            return out
    return out


def _find(root, pattern: str, env0=None) -> list[dict]:
    kind, pat = compile_pat(pattern)
    out = []
    if kind == "expr":
        for n in ast.walk(root):
            if isinstance(n, ast.expr):
                env = dict(env0 or {})
                if match(pat, n, env):
                    env["@node"] = n
                    out.append(env)
        return out
    k = len(pat)
    for n in ast.walk(root):
        for fname in ("body", "orelse", "finalbody"):
            body = getattr(n, fname, None)
            if not isinstance(body, list):
                continue
            for i in range(0, len(body) - k + 1):
                env = dict(env0 or {})
                if all(match(pat[j], body[i + j], env) for j in range(k)):
                    env["@node"] = body[i]
                    out.append(env)
    return out


def has(root, pattern: str, env0=None) -> bool:
    return bool(find(root, pattern, env0))


def count(root, pattern: str) -> int:
    return len(find(root, pattern))


# -- auto-generalised snippets ------------------------------------------------
import builtins as _bi

_BUILTINS = set(dir(_bi))
_auto_cache: dict[str, tuple] = {}


def _auto(snippet: str):
    """Parse ``snippet`` (ordinary Python, no $) and turn every identifier that
    is a plain variable -- not a builtin, not Capitalised (class/constant), not
    in call-function position -- into a consistent metavariable.  Attribute
    names, keyword names, literals and called function names stay literal, so
    the anchor survives local/parameter renames and reformatting but not a
    change of the API that is being called."""
    if snippet in _auto_cache:
        return _auto_cache[snippet]
    tree = canon(ast.parse(snippet.strip()))
    funcs = {id(n.func) for n in ast.walk(tree)
             if isinstance(n, ast.Call) and isinstance(n.func, ast.Name)}
    for n in ast.walk(tree):
        if isinstance(n, ast.Name) and id(n) not in funcs \
                and n.id not in _BUILTINS and not n.id[:1].isupper() \
                and not n.id.startswith((_MV, _MX)):
            n.id = _MV + n.id
        elif isinstance(n, ast.arg) and not n.arg.startswith(_MV):
            n.arg = _MV + n.arg
    body = tree.body
    if len(body) == 1 and isinstance(body[0], ast.Expr):
        r = ("expr", body[0].value)
    else:
        r = ("stmts", body)
    _auto_cache[snippet] = r
    return r


def tfind(root, snippet: str) -> list[dict]:
    """like find(), with the snippet auto-generalised by _auto()"""
    key = "\0auto\0" + snippet
    if key not in _cache:
        _cache[key] = _auto(snippet)
    if root is None:
        return []
    if isinstance(root, (list, tuple)):
        out = []
        for r in root:
            out += tfind(r, snippet)
        return out
    return find(root, key)


def th(root, snippet: str) -> bool:
    return bool(tfind(root, snippet))


def kwarg(root, name: str, value_snippet: str | None = None, func: str | None = None) -> list:
    """calls under root passing keyword ``name`` (whose value matches the
    auto-generalised snippet, if given; whose callee's last name component is
    ``func``, if given)"""
    out = []
    for n in ast.walk(root):
        if not isinstance(n, ast.Call):
            continue
        if func is not None:
            f = n.func
            fn = f.id if isinstance(f, ast.Name) else f.attr if isinstance(f, ast.Attribute) else None
            if fn != func:
                continue
        for k in n.keywords:
            if k.arg == name and (value_snippet is None or
                                  any(e.get("@node") is k.value
                                      for e in tfind(k.value, value_snippet))):
                out.append(n)
    return out


def stmt_is(stmt, pattern: str, env0=None) -> bool:
    """does the single statement ``stmt`` itself match the pattern?"""
    kind, pat = compile_pat(pattern)
    if kind == "expr":
        pat = [ast.Expr(value=pat)]
    return len(pat) == 1 and match(pat[0], stmt, dict(env0 or {}))


def expr_is(node, pattern: str, env0=None) -> bool:
    """does the expression ``node`` itself match the (expression) pattern?"""
    kind, pat = compile_pat(pattern)
    return kind == "expr" and node is not None and match(pat, node, dict(env0 or {}))


def returns_are(model, fd, table: dict) -> bool:
    """``table``: {((test pattern, polarity), ...): value pattern}.  True when the
    returns of ``fd`` -- helpers inlined, locals propagated, early returns and
    if/else treated alike (model.normal, model.returns_by_condition) -- are exactly
    these, each under exactly these conditions (in any nesting order)."""
    got = model.returns_by_condition(model.normal(fd))
    if got is None or len(got) != len(table):
        return False
    todo = dict(table)
    for conds, val in got:
        hit = None
        for pc, pv in todo.items():
            if len(pc) != len(conds) or not expr_is(val, pv):
                continue
            rest = list(conds)
            ok = True
            for (pt, ppol) in pc:
                j = next((i for i, (t, pol) in enumerate(rest)
                          if pol == ppol and expr_is(ast.parse(t, mode="eval").body, pt)), None)
                if j is None:
                    ok = False
                    break
                rest.pop(j)
            if ok:
                hit = pc
                break
        if hit is None:
            return False
        del todo[hit]
    return not todo


_KNOWN_CALLABLES = {"constantdict", "flatten", "OrderedSet", "FrozenOrderedSet", "chain",
                    "Counter", "defaultdict", "cast", "replace", "fields"}


def alpha(text: str) -> str:
    """``text`` with every plain variable (same notion as _auto) renamed to
    v0, v1, ... in order of first occurrence: keys built from code text stay
    the same under local/parameter renames.  Unparseable text is returned
    unchanged."""
    src, suffix = text, ""
    try:
        tree = ast.parse(src)
    except SyntaxError:
        if text.startswith(("for ", "async for ")):
            try:
                tree = ast.parse(text + ": pass")
                suffix = ": pass"
            except SyntaxError:
                return text
        else:
            return text
    # called names stay literal only when they are well-known callables: a
    # local holding a callable (get_deps = SubsetDependencyMapper(...)) is a
    # variable like any other
    funcs = {id(n.func) for n in ast.walk(tree)
             if isinstance(n, ast.Call) and isinstance(n.func, ast.Name)
             and n.func.id in _KNOWN_CALLABLES}
    ren: dict[str, str] = {}

    class V(ast.NodeTransformer):
        def visit_Name(self, n):
            if id(n) in funcs or n.id in _BUILTINS or n.id[:1].isupper():
                return n
            if n.id.startswith("_") and n.id.lstrip("_")[:1].isupper():
                return n
            ren.setdefault(n.id, f"v{len(ren)}")
            return ast.copy_location(ast.Name(id=ren[n.id], ctx=n.ctx), n)
    out = ast.unparse(V().visit(canon(tree)))
    if suffix:
        out = out.split(":\n")[0] if out.endswith("pass") else out
    return " ".join(out.split())


def find_in(roots, pattern: str, env0=None) -> list[dict]:
    """find() over several roots (a function and the helpers it was split into)"""
    out = []
    for r in roots:
        out += find(r, pattern, env0)
    return out


def has_in(roots, pattern: str, env0=None) -> bool:
    return any(has(r, pattern, env0) for r in roots)
