"""Canary for R05-NOMUT: every function here mutates its argument and must be
flagged on every run (a silent canary = analysis broken)."""


class BadMapper:
    def map_data_wrapper(self, expr):
        expr.data[0] = 0.0          # store-subscript into wrapped data
        return expr

    def map_index_lambda(self, expr):
        expr.tags = frozenset()     # store-attr
        return expr

    def map_stack(self, expr):
        arrays = expr.arrays
        arrays.append(expr)         # mutating call through an alias
        return expr

    def map_roll(self, expr):
        expr.shift += 1             # augmented assignment
        return expr

    def map_reshape(self, expr):
        object.__setattr__(expr, "order", "F")   # setattr on the argument
        return expr
