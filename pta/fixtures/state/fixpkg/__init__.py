"""Canary for the shared-mutable-state rule: every construct below must be
flagged on every run (a silent canary ends the run with ANALYSIS-ERROR)."""


def levels(graph, seen=set()):          # mutable default argument
    seen.add(1)
    return seen


class Comparer:
    _cache = {}                         # class-level container mutated via self

    def compare(self, a, b):
        self._cache[id(a), id(b)] = True
        return True


class Fine:
    TABLE = {"a": 1}                    # read-only class table: not flagged
    _cache = {}

    def __init__(self):
        self._cache = {}                # re-bound per instance: not flagged

    def f(self, k):
        self._cache[k] = 1
        return self.TABLE[k]


_memo = {}                              # module-level table filled by a function
_CONSTANTS = {"x": 1}                   # read-only module table: not flagged


def decide(a, b):
    key = (id(a), id(b))
    if key not in _memo:
        _memo[key] = a == b
    return _memo[key] and _CONSTANTS["x"]


_EMPTY = {}                             # module-level container handed out to callers


def components(dim):
    if isinstance(dim, int):
        return dim, _EMPTY
    return dim, {"n": dim}
