"""Canary for R05-CROSSED: the rule must flag `swapped` and stay silent on `straight`."""


class Node:
    def __init__(self, left, right):
        self.left = left
        self.right = right


class M:
    def rec(self, x):
        return x

    def map_swapped(self, expr):
        rec_left = self.rec(expr.left)
        rec_right = self.rec(expr.right)
        return Node(left=rec_right, right=rec_left)

    def map_straight(self, expr):
        rec_left = self.rec(expr.left)
        rec_right = self.rec(expr.right)
        return Node(left=rec_left, right=rec_right)
