"""C13 -- cached mappers visit once, preserve sharing, reach every child."""
from __future__ import annotations

import ast

from pta import paths as P
from pta.check import Spec
from pta.flow import Flow, child_paths, fmt_paths, paths_of
from pta.model import AnalysisError
from pta.rules.common import (
    CACHED, COMBINE, COPY, COPYX, CWALK, EQ, LPREDS, LUSERS, MAPPER, MPMS, USERS,
    WALK, concrete_kinds, handler_name, short,
)
from pta.tables.exemptions import EXEMPT, exempt_by_rule

FAMILIES = [COPY, COPYX, COMBINE, WALK, USERS, LUSERS, LPREDS, EQ, MPMS]


def strip_markers(ps):
    return {tuple(x for x in p if not x.startswith("@")) for p in ps}


def reached_paths(m, flow, mapper, kind, mm):
    """paths of ``kind`` that the handler hands on (recursion / return / both
    operands)."""
    if mapper == EQ:
        s = flow.handler(mm, [kind, kind], roots=("expr1", "expr2"))
        a = strip_markers(s.read_paths("expr1"))
        b = strip_markers(s.read_paths("expr2"))
        return a & b, s
    s = flow.handler(mm, kind)
    if mapper == LPREDS:
        return strip_markers(paths_of(s.ret, "expr")), s
    return strip_markers(s.rec_paths("expr")), s


_DERIVED_ATTRS = {"shape", "ndim", "dtype", "size", "name", "tags", "axes", "T", "real",
                  "imag", "non_equality_tags"}


def covers(path, reached):
    for q in reached:
        # the child itself, or an element / entry of it; NOT something computed from
        # it (recursing into child.shape is not recursing into the child)
        if q[:len(path)] == path and all(
                e in ("<named>", "_data", "_container", "*") for e in q[len(path):]):
            return True
        if q and q[-1] == "*" and path[:len(q) - 1] == q[:-1]:
            return True     # reflective getattr over all fields
    return False


def r_children(c):
    m = c.model
    kinds = concrete_kinds(m)
    for mapper in FAMILIES:
        m.cls(mapper)
        flow = Flow(m, mapper, max_depth=8)
        for k in kinds:
            ch = child_paths(m, k)
            if mapper == LPREDS:
                # data-flow predecessors are arrays / containers / (optionally) functions
                pass
            mm = handler_name(m, mapper, k, mro_fallback=(mapper != EQ))
            cname = f"{short(mapper)}"
            if mm is None:
                c.exempt("R13-CHILDREN", cname, f"{short(k)}:<no handler>",
                         m.loc(m.classes[mapper].module, m.classes[mapper].node),
                         "no handler: the dispatcher raises UnsupportedArrayError "
                         "(loud refusal, not a silently skipped child)",
                         nontrivial=False)
                continue
            reached, s = reached_paths(m, flow, mapper, k, mm)
            where = s.where[2]
            hname = f"{short(mapper)}.{mm}"
            if s.raises_only:
                c.exempt("R13-CHILDREN", hname, f"{short(k)}:<raises>", where,
                         "handler refuses by raising (by design)", nontrivial=False)
                continue
            identity = False
            if mapper == EQ:
                from pta.rules.c04 import is_identity_handler
                identity = is_identity_handler(m.resolve_method(EQ, mm)[1])
            if not ch:
                c.ok("R13-CHILDREN", hname, f"{short(k)}:<leaf>", where,
                     nontrivial=False)
            for path, ckind in sorted(ch.items()):
                inst = f"{short(k)}.{'.'.join(path)}"
                ex = EXEMPT.get(("R13-CHILDREN", f"{short(mapper)}/{inst}")) \
                    or exempt_by_rule("R13-CHILDREN", short(mapper), short(k), path)
                if identity or covers(path, reached):
                    c.ok("R13-CHILDREN", hname, inst, where, f"{ckind} edge")
                elif ex:
                    c.exempt("R13-CHILDREN", hname, inst, where, ex)
                else:
                    c.violation(
                        "R13-CHILDREN", hname, inst, where,
                        f"{hname} never hands on {'.'.join(path)} ({ckind} edge of "
                        f"{short(k)}); reached: {fmt_paths(reached)}",
                        facts={"reached": fmt_paths(reached),
                               "children": fmt_paths(ch)})


_SIZE_ONLY = ("the shape of an input holds size-parameter expressions only; this mapper "
              "looks for nothing that can occur in them")
CUTS_REVIEWED = {
    ("_DistributedInputReplacer", "map_placeholder"): _SIZE_ONLY + " (it replaces inputs by name)",
    ("_DistributedInputReplacer", "map_distributed_recv"):
        _SIZE_ONLY + " (the receive becomes a placeholder of the same shape)",
    ("_LocalSendRecvDepGatherer", "map_data_wrapper"): _SIZE_ONLY + " (communication nodes)",
    ("_LocalSendRecvDepGatherer", "map_placeholder"): _SIZE_ONLY + " (communication nodes)",
    ("_LocalSendRecvDepGatherer", "map_distributed_recv"):
        _SIZE_ONLY + " (communication nodes)",
    ("DataWrapperDeduplicator", "map_data_wrapper"): _SIZE_ONLY + " (data wrappers)",
    ("EinsumDistributiveLawMapper", "map_data_wrapper"): _SIZE_ONLY + " (einsums)",
    ("EinsumDistributiveLawMapper", "map_placeholder"): _SIZE_ONLY + " (einsums)",
    ("PlaceholderSubstitutor", "map_placeholder"):
        "the placeholder is replaced wholesale by the caller's argument",
    ("PlaceholderSubstitutor", "map_function_definition"):
        "by design does not enter nested function definitions (their parameters are "
        "another name space; R12-INLINE requires exactly this)",
    ("TopoSortMapper", "map_function_definition"):
        "orders the nodes of ONE name space; function bodies are ordered by a clone "
        "where needed (class docstring: 'Does not consider the nodes inside a FunctionDefinition')",
}


def r_children_overrides(c):
    """handlers defined in subclasses of the families: recursing into some child
    of expr means recursing into all of them (or delegating to super())."""
    m = c.model
    kinds = concrete_kinds(m)
    fam = set(FAMILIES)
    n = 0
    scope = {COPY, COPYX, COMBINE, WALK, CWALK, "pytato.transform.TransformMapper",
             "pytato.transform.TransformMapperWithExtraArgs"}
    base_cut_flow = {}
    for mapper in m.subclasses(MAPPER, strict=True):
        if mapper in fam or not mapper.startswith("pytato."):
            continue
        if not (scope & set(m.mro(mapper))):
            continue    # code generators / stringifiers: not traversals-for-completeness
        flow = Flow(m, mapper, max_depth=8)
        for k in kinds:
            mm = handler_name(m, mapper, k)
            if mm is None:
                continue
            owner, fd = m.resolve_method(mapper, mm)
            if owner in fam or owner == MAPPER or owner not in m.classes:
                continue
            # only handlers written in a subclass (own or intermediate, non-family)
            if owner != mapper and owner in m.mro(mapper) and any(
                    owner == x for x in fam):
                continue
            ch = child_paths(m, k)
            if not ch:
                continue
            s = flow.handler(mm, k)
            if s.raises_only:
                continue
            if any(q.endswith("to_index_lambda") for (q, _n) in s.calls):
                continue    # handled through lowering (children reached via the
                #             lowered node; consumption is C02's R02-CONSUME)
            reached = strip_markers(s.rec_paths("expr"))
            hname = f"{short(mapper)}.{mm}"
            where = s.where[2]
            if not reached:
                # no recursion at all: a cut.  Deliberate cuts are reviewed one by one
                # (a traversal that stops at a node must not care about anything
                # below it); a new one is reported
                r_fam = None
                for f_ in m.mro(mapper):
                    if f_ in fam and m.resolve_method(f_, mm) is not None:
                        fb = base_cut_flow.setdefault(f_, Flow(m, f_, max_depth=8))
                        sb = fb.handler(mm, k)
                        r_fam = strip_markers(sb.rec_paths("expr")) if not sb.raises_only else None
                        break
                for path, ckind in sorted(ch.items()):
                    if r_fam is None or not covers(path, r_fam):
                        continue
                    inst = f"{short(k)}.{'.'.join(path)}:cut"
                    why_ = CUTS_REVIEWED.get((short(mapper), mm))
                    if why_:
                        c.exempt("R13-CHILDREN-OVR", hname, inst, where, why_)
                    else:
                        c.violation(
                            "R13-CHILDREN-OVR", hname, inst, where,
                            f"{hname} does not recurse at all, while the handler it replaces "
                            f"hands on {'.'.join(path)} ({ckind} edge of {short(k)}): whatever "
                            "is reachable only through that edge is invisible to "
                            f"{short(mapper)} (an unreviewed cut)")
                continue
            n += 1
            for path, ckind in sorted(ch.items()):
                inst = f"{short(k)}.{'.'.join(path)}"
                ex = EXEMPT.get(("R13-CHILDREN-OVR", f"{short(mapper)}/{inst}")) \
                    or exempt_by_rule("R13-CHILDREN-OVR", short(mapper), short(k),
                                      path)
                if covers(path, reached):
                    c.ok("R13-CHILDREN-OVR", hname, inst, where)
                elif ex:
                    c.exempt("R13-CHILDREN-OVR", hname, inst, where, ex)
                else:
                    c.violation(
                        "R13-CHILDREN-OVR", hname, inst, where,
                        f"{hname} recurses into {fmt_paths(reached)} but not into "
                        f"{'.'.join(path)} ({ckind} edge of {short(k)})",
                        facts={"reached": fmt_paths(reached)})
    c.units["override_handlers_analysed"] = n
    # ... and overrides of the HELPERS a family handler delegates to
    # (`self._map_index_base`, `self.rec_idx_or_size_tuple`, ...): the subclass must
    # still hand on every child the family's own handler hands on
    base_flow = {}
    n2 = 0
    for mapper in m.subclasses(MAPPER, strict=True):
        if mapper in fam or not mapper.startswith("pytato."):
            continue
        if not (scope & set(m.mro(mapper))):
            continue
        flow = None
        for k in kinds:
            mm = handler_name(m, mapper, k)
            if mm is None:
                continue
            owner, fd = m.resolve_method(mapper, mm)
            if owner not in fam:
                continue
            helpers = {x.func.attr for x in ast.walk(fd) if isinstance(x, ast.Call)
                       and isinstance(x.func, ast.Attribute)
                       and isinstance(x.func.value, ast.Name) and x.func.value.id == "self"
                       and x.func.attr not in ("rec", "combine", "visit", "post_visit")}
            over = []
            for h in sorted(helpers):
                r = m.resolve_method(mapper, h)
                if r is not None and r[0] not in fam and r[0] != MAPPER and r[0] in m.classes \
                        and r[0] != owner and m.resolve_method(owner, h) is not None:
                    over.append((h, r[0]))
            if not over:
                continue
            ch = child_paths(m, k)
            if not ch:
                continue
            if flow is None:
                flow = Flow(m, mapper, max_depth=8)
            if owner not in base_flow:
                base_flow[owner] = Flow(m, owner, max_depth=8)
            s_sub = flow.handler(mm, k)
            s_base = base_flow[owner].handler(mm, k)
            if s_sub.raises_only:
                continue
            r_sub = strip_markers(s_sub.rec_paths("expr"))
            r_base = strip_markers(s_base.rec_paths("expr"))
            n2 += 1
            for path, ckind in sorted(ch.items()):
                if not covers(path, r_base):
                    continue
                inst = f"{short(k)}.{'.'.join(path)}"
                hname = f"{short(mapper)}.{mm}"
                ex = EXEMPT.get(("R13-CHILDREN-OVR", f"{short(mapper)}/{inst}")) \
                    or exempt_by_rule("R13-CHILDREN-OVR", short(mapper), short(k), path)
                if covers(path, r_sub):
                    c.ok("R13-CHILDREN-OVR", hname, inst + ":via-overridden-helper",
                         s_sub.where[2])
                elif ex:
                    c.exempt("R13-CHILDREN-OVR", hname, inst + ":via-overridden-helper",
                             s_sub.where[2], ex)
                else:
                    c.violation(
                        "R13-CHILDREN-OVR", hname, inst + ":via-overridden-helper",
                        s_sub.where[2],
                        f"{short(owner)}.{mm} hands on {'.'.join(path)} ({ckind} edge of "
                        f"{short(k)}) through {[h for h, _o in over]}, which "
                        f"{[short(o) for _h, o in over]} overrides without handing it on: "
                        f"{short(mapper)} silently skips that edge",
                        facts={"reached": fmt_paths(r_sub), "base": fmt_paths(r_base)})
    c.units["helper_overrides_analysed"] = n2


# ---------------------------------------------------------------- cache rules
def _self_attr(n):
    return (isinstance(n, ast.Attribute) and isinstance(n.value, ast.Name)
            and n.value.id == "self")


def rec_classifier(m, cls, owner):
    """label LOOKUP / ADD / DISPATCH (plain) / CDISPATCH (caching super) events"""
    def classify(n):
        if isinstance(n, ast.Call):
            f = n.func
            if isinstance(f, ast.Attribute):
                if f.attr in ("_cache_retrieve", "_function_cache_retrieve") \
                        and _self_attr(f):
                    return "LOOKUP"
                if f.attr in ("_cache_add", "_function_cache_add") and _self_attr(f):
                    return "ADD"
                if f.attr in ("add", "append") and _self_attr(f.value) \
                        and ("visited" in f.value.attr or "cache" in f.value.attr
                             or "seen" in f.value.attr):
                    return "ADD"
                if f.attr in ("rec", "rec_function_definition"):
                    v = f.value
                    if isinstance(v, ast.Call) and isinstance(v.func, ast.Name) \
                            and v.func.id == "super":
                        after = owner
                        if len(v.args) == 2:
                            after = m.resolve_name(m.classes[owner].module.name,
                                                   ast.unparse(v.args[0])) or owner
                        r = m.resolve_method(cls, f.attr, after=after)
                        if r is None:
                            return "DISPATCH"
                        return "CDISPATCH" if _is_caching_rec(m, r[0], r[1]) \
                            else "DISPATCH"
                    if isinstance(v, ast.Name) and v.id[:1].isupper():
                        r = m.resolve_name(m.classes[owner].module.name, v.id)
                        if r in m.classes:
                            t = m.resolve_method(r, f.attr)
                            if t and _is_caching_rec(m, t[0], t[1]):
                                return "CDISPATCH"
                        return "DISPATCH"
                # EqualityComparer: method(expr1, expr2) / self.map_x(...)
                if f.attr.startswith("map_") and _self_attr(f):
                    return "DISPATCH"
                if f.attr == "handle_unsupported_array":
                    return "DISPATCH"
            if isinstance(f, ast.Name) and f.id == "method":
                return "DISPATCH"
        if isinstance(n, ast.Compare) and len(n.ops) == 1 \
                and isinstance(n.ops[0], (ast.In, ast.NotIn)) \
                and _self_attr(n.comparators[0]):
            return "LOOKUP"
        if isinstance(n, ast.Subscript) and _self_attr(n.value) \
                and ("cache" in n.value.attr or "visited" in n.value.attr):
            return "LOOKUP" if isinstance(n.ctx, ast.Load) else "ADD"
        return None
    return classify


def _is_caching_rec(m, owner, fd):
    """does this rec implementation itself look up and fill a cache?"""
    labs = set()
    cl = rec_classifier.__wrapped__(m, owner, owner) if hasattr(
        rec_classifier, "__wrapped__") else None
    for n in ast.walk(fd):
        if isinstance(n, ast.Call) and isinstance(n.func, ast.Attribute):
            if n.func.attr in ("_cache_retrieve", "_function_cache_retrieve"):
                labs.add("LOOKUP")
            if n.func.attr in ("_cache_add", "_function_cache_add", "add"):
                labs.add("ADD")
        if isinstance(n, ast.Compare) and isinstance(n.ops[0], (ast.In, ast.NotIn)):
            labs.add("LOOKUP")
    return {"LOOKUP", "ADD"} <= labs


def rec_overrides(m):
    """(class, method name, owner, fd) for every rec / rec_function_definition
    defined in a class that belongs to a cached family or keeps a visited set."""
    out = []
    for qn, ci in sorted(m.classes.items()):
        if not qn.startswith("pytato."):
            continue
        for name in ("rec", "rec_function_definition"):
            if name not in ci.methods:
                continue
            fd = ci.methods[name]
            mro = m.mro(qn)
            cached_family = CACHED in mro or CWALK in mro
            has_lookup = _is_caching_rec(m, qn, fd) or any(
                isinstance(n, ast.Call) and isinstance(n.func, ast.Attribute)
                and n.func.attr in ("_cache_retrieve", "_function_cache_retrieve")
                for n in ast.walk(fd))
            if cached_family or has_lookup:
                out.append((qn, name, fd))
    return out


def r_once(c):
    m = c.model
    ovs = rec_overrides(m)
    if len(ovs) < 5:
        raise AnalysisError(f"only {len(ovs)} cached rec implementations found")
    for (qn, name, fd) in ovs:
        cl = rec_classifier(m, qn, qn)
        try:
            ps = P.walk(fd, cl)
        except P.Unsupported as e:
            c.imprecise("R13-ONCE", f"{short(qn)}.{name}", "paths",
                        m.loc(m.module_of(fd), fd), str(e))
            continue
        where = m.loc(m.module_of(fd), fd)
        cname = f"{short(qn)}.{name}"
        labels = {lab for (e, _x) in ps for lab in e}
        if "DISPATCH" not in labels and "CDISPATCH" not in labels:
            c.exempt("R13-ONCE", cname, "no-dispatch", where,
                     "does not dispatch (identity / refusal)", nontrivial=False)
            continue
        bad = P.precedes(ps, "LOOKUP", "DISPATCH")
        c.check(not bad, "R13-ONCE", cname, "lookup-before-dispatch", where,
                "a path reaches the per-node dispatch without a preceding cache "
                f"lookup: events {bad[:1]}",
                ok_detail=f"{len(ps)} paths")
        bad = P.followed_by(ps, "DISPATCH", "ADD")
        c.check(not bad, "R13-ONCE", cname, "add-after-dispatch", where,
                "a path dispatches and returns without recording the result in "
                f"the cache: events {bad[:1]}")
        # R13-DOUBLE-CACHE
        bad = [e for (e, x) in ps if "CDISPATCH" in e and "ADD" in e]
        c.check(not bad, "R13-DOUBLE-CACHE", cname, "no-add-around-caching-super",
                where,
                "calls the caching super().rec and adds to the cache itself "
                "(double caching, see pytato PR 654): "
                f"events {bad[:1]}")


def _extra_params(fd):
    ps = [a.arg for a in fd.args.posonlyargs + fd.args.args][1:]
    return ps[1:], (fd.args.vararg.arg if fd.args.vararg else None), \
        (fd.args.kwarg.arg if fd.args.kwarg else None)


def r_key(c):
    m = c.model
    n = 0
    for qn, ci in sorted(m.classes.items()):
        if MAPPER not in m.mro(qn) if qn in m.classes else True:
            continue
        for name in ("get_cache_key", "get_function_definition_cache_key"):
            if name not in ci.methods:
                continue
            fd = ci.methods[name]
            from pta.flow import _raises_only
            if _raises_only(fd):
                continue
            n += 1
            params = [a.arg for a in fd.args.posonlyargs + fd.args.args][1:]
            if fd.args.vararg:
                params.append(fd.args.vararg.arg)
            if fd.args.kwarg:
                params.append(fd.args.kwarg.arg)
            flow = Flow(m, qn, max_depth=3)
            roots = tuple(params)
            s = flow.function(fd, None, roots=roots[:len(fd.args.args) - 1],
                              owner=qn, selfcls=qn)
            # varargs are not bound by Flow.function: bind textually
            src_ret = " ".join(ast.unparse(r.value) for r in ast.walk(fd)
                               if isinstance(r, ast.Return) and r.value is not None)
            where = m.loc(ci.module, fd)
            for p_ in params:
                in_ret = any(r == p_ for (r, _p, _f) in s.ret) or \
                    any(isinstance(x, ast.Name) and x.id == p_
                        for r in ast.walk(fd) if isinstance(r, ast.Return)
                        and r.value is not None for x in ast.walk(r.value))
                guarded = any(
                    isinstance(a, (ast.Assert, ast.If)) and any(
                        isinstance(x, ast.Name) and x.id == p_
                        for x in ast.walk(a.test))
                    and (isinstance(a, ast.Assert) or any(
                        isinstance(b, ast.Raise) for b in a.body))
                    for a in ast.walk(fd))
                c.check(in_ret or guarded, "R13-KEY", f"{short(qn)}.{name}", p_,
                        where,
                        f"cache key does not depend on parameter {p_!r}: two calls "
                        "differing only there share one cache entry "
                        f"(returns: {src_ret[:80]})")
    if n < 8:
        raise AnalysisError(f"only {n} cache-key functions found (floor 8)")
    # concrete cached walkers need a function-definition key unless they cut map_call
    for qn in m.subclasses(CWALK, strict=True):
        from pta.flow import _raises_only
        r1 = m.resolve_method(qn, "get_cache_key")
        if r1 is None or _raises_only(r1[1]):
            continue
        r2 = m.resolve_method(qn, "get_function_definition_cache_key")
        mc = m.resolve_method(qn, "map_call")
        reaches = mc is not None and any(
            isinstance(x, ast.Call) and isinstance(x.func, ast.Attribute)
            and x.func.attr == "rec_function_definition" for x in ast.walk(mc[1]))
        ci = m.classes[qn]
        ok = (r2 is not None and not _raises_only(r2[1])) or not reaches
        c.check(ok, "R13-KEY", short(qn), "function-definition-key",
                m.loc(ci.module, ci.node),
                f"{short(qn)} defines get_cache_key but inherits the raising "
                "get_function_definition_cache_key while its map_call reaches "
                "rec_function_definition: any graph containing a Call raises "
                "NotImplementedError")
    # cached mappers with extra handler arguments must override get_cache_key
    for qn in m.subclasses(CACHED, strict=True):
        ci = m.classes[qn]
        if m.subclasses(qn, strict=True):
            continue  # not a leaf
        extra = False
        for mn, fd in ci.methods.items():
            if mn.startswith("map_"):
                ps, va, kw = _extra_params(fd)
                if ps:
                    extra = True
        if not extra:
            continue
        r1 = m.resolve_method(qn, "get_cache_key")
        c.check(r1 is not None and r1[0] != CACHED, "R13-KEY", short(qn),
                "extra-args-need-own-key", m.loc(ci.module, ci.node),
                f"{short(qn)} passes extra arguments to its handlers but uses "
                "CachedMapper.get_cache_key, which raises for extra arguments")


def r_collision(c):
    m = c.model
    # retrieve raises on a different object under the same key
    fd = m.func("pytato.transform.CachedMapperCache.retrieve")
    ok = False
    for n in ast.walk(fd):
        if isinstance(n, ast.If):
            t = ast.unparse(n.test)
            if "is not" in t and "inputs.expr" in t and "_input_key_to_expr" in t \
                    and any(isinstance(s, ast.Raise) and "CacheCollisionError"
                            in ast.unparse(s) for s in n.body):
                ok = True
    c.check(ok, "R13-COLLISION", "CachedMapperCache.retrieve",
            "raises-on-foreign-object", m.loc(m.module_of(fd), fd),
            "retrieve no longer raises CacheCollisionError when the stored "
            "expression is a different object than the one looked up")
    # add() records the expression under err_on_collision in every cache class
    for cls in m.subclasses("pytato.transform.CachedMapperCache"):
        ci = m.classes[cls]
        if "add" not in ci.methods:
            continue
        fd = m.inlined(ci.methods["add"])      # a storing helper is seen through
        src = ast.unparse(fd)
        stores_expr = any(
            isinstance(n, ast.Assign) and "_input_key_to_expr" in ast.unparse(
                n.targets[0]) and ast.unparse(n.value) == fd.args.args[1].arg + ".expr"
            for n in ast.walk(fd)) or "super().add(" in src
        c.check(stores_expr, "R13-COLLISION", f"{short(cls)}.add",
                "records-expr-for-collision-check", m.loc(ci.module, fd),
                "add() no longer records inputs.expr, so collisions cannot be "
                "detected at retrieve time")
    # the two internal errors are only caught to be re-raised
    n = 0
    for mi, fd in m.all_functions():
        for h in ast.walk(fd):
            if isinstance(h, ast.ExceptHandler) and h.type is not None:
                t = ast.unparse(h.type)
                if "CacheCollisionError" in t or "MapperCreatedDuplicateError" in t:
                    n += 1
                    c.check(any(isinstance(s, ast.Raise) for s in ast.walk(h)),
                            "R13-COLLISION", m.qualname(fd).replace("pytato.", ""),
                            f"reraises:{t}", m.loc(mi, h),
                            f"{t} is caught and swallowed")
    if n < 2:
        raise AnalysisError(f"only {n} handlers of cache errors found (floor 2)")
    # TransformMapperCache.add: first-seen equal result wins
    fd = m.func("pytato.transform.TransformMapperCache.add")
    mi_ = m.module_of(fd)
    ci_ = m.cls("pytato.transform.TransformMapperCache")

    def cl(nd):
        if isinstance(nd, ast.Subscript) and "_result_to_cached_result" in \
                ast.unparse(nd.value) and isinstance(nd.ctx, ast.Load):
            return "DEDUP-LOOKUP"
        if isinstance(nd, ast.Subscript) and "_input_key_to_result" in \
                ast.unparse(nd.value) and isinstance(nd.ctx, ast.Store):
            return "INSERT"
        if isinstance(nd, ast.Call):
            tgt = m._private_target(nd, fd, mi_, ci_)
            if tgt is not None and tgt is not fd:
                return ("INLINE", tgt)     # a private helper is walked through
        return None
    ps = P.walk(fd, cl)
    bad = P.precedes(ps, "DEDUP-LOOKUP", "INSERT")
    has = any("INSERT" in e for (e, _x) in ps)
    c.check(has and not bad, "R13-COLLISION", "TransformMapperCache.add",
            "dedup-lookup-before-insert", m.loc(m.module_of(fd), fd),
            "a result is inserted without first consulting the table of "
            "already-cached equal results (sharing is no longer preserved)")
    # the table of equal results is keyed by the result itself (==), not a digest:
    # in add() by its `result` parameter, in a private helper by the parameter that
    # receives it
    rparam = fd.args.args[2].arg if len(fd.args.args) > 2 else "result"
    holder = {id(fd): rparam}
    for call in ast.walk(fd):
        if isinstance(call, ast.Call):
            tgt = m._private_target(call, fd, mi_, ci_)
            bind = m._bind_args(call, tgt) if tgt is not None else None
            for k, v in (bind or {}).items():
                if isinstance(v, ast.Name) and v.id == rparam:
                    holder[id(tgt)] = k
    keys, okk = [], True
    for f_ in m.scope(fd):
        for nd in ast.walk(f_):
            if isinstance(nd, ast.Subscript) \
                    and "_result_to_cached_result" in ast.unparse(nd.value):
                keys.append(ast.unparse(nd.slice))
                okk = okk and ast.unparse(nd.slice) == holder.get(id(f_))
    c.check(len(keys) >= 2 and okk, "R13-COLLISION",
            "TransformMapperCache.add", "dedup-table-keyed-by-result",
            m.loc(m.module_of(fd), fd),
            f"the equal-results table is indexed by {sorted(set(keys))} instead of "
            f"the result object {rparam!r}: unequal results sharing a digest would be "
            "merged")

    # the value inserted is the de-duplicated one
    def from_table(f_, v, depth=0):
        """is the value v (in function f_) what the equal-results table holds?"""
        if "_result_to_cached_result" in ast.unparse(v) and isinstance(v, ast.Subscript):
            return True
        if isinstance(v, ast.Name):
            asg = [a for a in ast.walk(f_) if isinstance(a, ast.Assign)
                   and any(isinstance(t, ast.Name) and t.id == v.id for t in a.targets)]
            if any(from_table(f_, a.value, depth) for a in asg):
                return True
            # x registered as its own representative: table[x] = x
            return any(isinstance(a, ast.Assign) and isinstance(a.targets[0], ast.Subscript)
                       and "_result_to_cached_result" in ast.unparse(a.targets[0].value)
                       and ast.unparse(a.targets[0].slice) == v.id
                       and ast.unparse(a.value) == v.id for a in ast.walk(f_)) \
                and depth > 0
        if isinstance(v, ast.Call) and depth < 2:
            tgt = m._private_target(v, f_, mi_, ci_)
            if tgt is not None:
                rets = [r for r in ast.walk(tgt) if isinstance(r, ast.Return)]
                return bool(rets) and all(r.value is not None
                                          and from_table(tgt, r.value, depth + 1)
                                          for r in rets)
        return False
    fdi = m.inlined(fd)
    ok = any(isinstance(a, ast.Assign) and "_input_key_to_result" in
             ast.unparse(a.targets[0]) and isinstance(a.value, ast.Name)
             and from_table(fdi, a.value) for a in ast.walk(fdi))
    c.check(ok, "R13-COLLISION", "TransformMapperCache.add",
            "inserts-deduplicated-result", m.loc(m.module_of(fd), fd),
            "the object stored under the input key is not the one returned by the "
            "equal-results table")


def _strip_cast(n):
    while isinstance(n, ast.Call) and isinstance(n.func, ast.Name) \
            and n.func.id == "cast" and len(n.args) == 2:
        n = n.args[1]
    return n


def r_clone(c):
    """clone_for_callee hands every setting to the parameter of the same name"""
    m = c.model
    n_sites = 0
    for qn, ci in sorted(m.classes.items()):
        if "clone_for_callee" not in ci.methods or MAPPER not in m.mro(qn):
            continue
        fd = ci.methods["clone_for_callee"]
        local = {}
        for st in ast.walk(fd):
            if isinstance(st, ast.Assign) and isinstance(st.targets[0], ast.Name):
                local[st.targets[0].id] = _strip_cast(st.value)
        for call in ast.walk(fd):
            if not (isinstance(call, ast.Call) and isinstance(call.func, ast.Call)
                    and ast.unparse(call.func) == "type(self)"):
                continue
            init = m.resolve_method(qn, "__init__")
            iparams = [a.arg for a in init[1].args.args][1:] if init else []
            pairs = [(k.arg, k.value) for k in call.keywords if k.arg]
            pairs += [(iparams[i], a) for i, a in enumerate(call.args)
                      if i < len(iparams)]
            for kw, v in pairs:
                v = _strip_cast(v)
                if isinstance(v, ast.Name) and v.id in local:
                    v = local[v.id]
                if not isinstance(v, ast.Attribute):
                    continue
                n_sites += 1
                ok = v.attr.lstrip("_") == kw.lstrip("_")
                c.check(ok, "R13-CLONE", f"{short(qn)}.clone_for_callee", kw,
                        m.loc(ci.module, call),
                        f"parameter {kw!r} of the mapper cloned for a function body "
                        f"receives {ast.unparse(v)!r}: settings are swapped or lost "
                        "inside function bodies")
    if n_sites < 8:
        raise AnalysisError(f"only {n_sites} clone_for_callee arguments found")


# (kind, path) pairs where comparing a maybe-array component with a plain `==`
# (un-memoised Array.__eq__) is accepted: reviewed, one reason each
EQ_RAW_REVIEWED = {
    ("Placeholder", "shape"): "shape of an input is an expression over size "
        "parameters only (normalize_shape enforces it): its depth is bounded by "
        "the size expression, not by the DAG",
    ("DistributedRecv", "shape"): "same as Placeholder.shape",
    ("Reshape", "newshape"): "reshape() only admits integer target shapes",
    ("CSRMatmul", "matrix.shape"): "sparse-matrix shape: size-parameter "
        "expression, same as Placeholder.shape",
}


def _on_non_array_arm(node):
    """is the comparison evaluated only where an `isinstance(<operand>, Array)` test
    failed: the else-arm of a conditional expression or statement, or after an
    `if isinstance(x, Array): return ...` in the same block (however wrapped)"""
    def is_array_test(t):
        return any(isinstance(x, ast.Call) and ast.unparse(x.func) == "isinstance"
                   and len(x.args) == 2 and "Array" in ast.unparse(x.args[1])
                   for x in ast.walk(t))
    ch, par = node, getattr(node, "_parent", None)
    while par is not None and not isinstance(par, (ast.FunctionDef, ast.Lambda)):
        if isinstance(par, ast.IfExp) and is_array_test(par.test) and (
                ch is par.orelse or ch is par.body and isinstance(par.test, ast.UnaryOp)):
            return True
        if isinstance(par, ast.If) and is_array_test(par.test):
            neg = isinstance(par.test, ast.UnaryOp) and isinstance(par.test.op, ast.Not)
            if (any(ch is x for x in par.orelse) and not neg) or (
                    any(ch is x for x in par.body) and neg):
                return True
        for fld in ("body", "orelse"):
            blk = getattr(par, fld, None)
            if isinstance(blk, list) and any(ch is x for x in blk):
                i = next(k for k, x in enumerate(blk) if x is ch)
                for prev in blk[:i]:
                    if isinstance(prev, ast.If) and is_array_test(prev.test) \
                            and not isinstance(prev.test, ast.UnaryOp) and prev.body \
                            and isinstance(prev.body[-1], (ast.Return, ast.Raise)):
                        return True
        ch, par = par, getattr(par, "_parent", None)
    return False


def r_eq_memo(c):
    """array-valued components are compared through the memoised self.rec"""
    m = c.model
    flow = Flow(m, EQ, max_depth=8)
    for k in concrete_kinds(m):
        mm = handler_name(m, EQ, k, mro_fallback=False)
        if mm is None:
            continue
        s = flow.handler(mm, [k, k], roots=("expr1", "expr2"))
        ch = child_paths(m, k)
        rec_paths = strip_markers(s.rec_paths("expr1")) | strip_markers(s.rec_paths("expr2"))
        for path, ckind in sorted(ch.items()):
            # is this path compared by a raw == / != on the path itself?
            raw = None
            for (node, lv, rvs) in s.compares:
                if not isinstance(node.ops[0], (ast.Eq, ast.NotEq)):
                    continue
                sides = strip_markers(paths_of(lv)) | set().union(
                    *[strip_markers(paths_of(r)) for r in rvs])
                if path in sides:
                    # key-set comparison of a mapping field: frozenset(x.keys()) == ...
                    lft = node.left
                    if isinstance(lft, ast.Call) and isinstance(lft.func, ast.Name) \
                            and lft.func.id in ("frozenset", "set") and "Mapping" in \
                            ast.unparse(m.fields(k)[path[0]][0]):
                        continue
                    # guarded element-wise fallback  `a == b` under isinstance test
                    if _on_non_array_arm(node):
                        continue
                    raw = node
            inst = f"{short(k)}.{'.'.join(path)}"
            if raw is None:
                if covers(path, rec_paths):
                    c.ok("R13-EQ-MEMO", f"EqualityComparer.{mm}", inst, s.where[2])
                continue
            why = EQ_RAW_REVIEWED.get((short(k), ".".join(path)))
            if why:
                c.exempt("R13-EQ-MEMO", f"EqualityComparer.{mm}", inst,
                         m.loc(m.module_of(raw), raw), why)
            else:
                c.violation(
                    "R13-EQ-MEMO", f"EqualityComparer.{mm}", inst,
                    m.loc(m.module_of(raw), raw),
                    f"{'.'.join(path)} ({ckind} edge) is compared with a plain "
                    f"`{m.frag(raw, 60)}`: Array.__eq__ starts a fresh, un-memoised "
                    "comparer per component, so DAGs reconverging through this edge "
                    "are compared once per path (exponential)")


def r_state(c):
    """caches belong to one mapper instance (and its clones by explicit hand-over)"""
    from pta.rules.common import check_no_shared_state
    mods = [x for x in c.model.modules if x.startswith("pytato.transform")
            or x in ("pytato.analysis", "pytato.codegen")]
    check_no_shared_state(
        c, "R13-STATE", mods,
        "every mapper instance shares it: results cached for one graph are returned "
        "for another (or ids of dead objects are hit)")

SHARED_OR_REVIEWED = {
    "codegen.CodeGenPreprocessor.__init__:kernels_seen":
        "no caller in the package passes kernels_seen (preprocess() creates the mapper "
        "without it, and the mapper has no clone_for_callee handing it on): the idiom "
        "can only drop a still-empty dict an external caller wanted to share",
}


def r_shared_or(c):
    """state handed to a constructor in order to be SHARED (visited sets, caches a
    clone passes on) must be kept even while it is still empty: `param or set()`
    replaces an empty shared container by a private one, and what the clone
    records is then invisible to the mapper that created it"""
    from pta.rules.common import _is_mutable_display
    m = c.model
    mods = [x for x in m.modules if x.startswith("pytato.transform")
            or x in ("pytato.analysis", "pytato.codegen", "pytato.distributed.partition")]
    n = 0
    for mi, fd in m.all_functions(modules=mods):
        if fd.name != "__init__":
            continue
        params = {a.arg for a in fd.args.args + fd.args.kwonlyargs}
        n += 1
        qn = m.qualname(fd).replace("pytato.", "", 1)
        for st in ast.walk(fd):
            if not isinstance(st, (ast.Assign, ast.AnnAssign)) or st.value is None:
                continue
            tg = st.targets[0] if isinstance(st, ast.Assign) else st.target
            if not (isinstance(tg, ast.Attribute) and ast.unparse(tg.value) == "self"):
                continue
            v = st.value
            if isinstance(v, ast.BoolOp) and isinstance(v.op, ast.Or) and len(v.values) == 2 \
                    and isinstance(v.values[0], ast.Name) and v.values[0].id in params \
                    and _is_mutable_display(v.values[1]):
                key = f"{qn}:{v.values[0].id}"
                if key in SHARED_OR_REVIEWED:
                    c.exempt("R13-STATE", qn, f"keeps-shared-container:{v.values[0].id}",
                             m.loc(mi, st), SHARED_OR_REVIEWED[key])
                else:
                    c.violation("R13-STATE", qn, f"keeps-shared-container:{v.values[0].id}",
                                m.loc(mi, st),
                                f"`{m.frag(v, 50)}`: an EMPTY container passed in (the shared "
                                "visited set / cache of the mapper that creates a clone) is "
                                "falsy and is replaced by a private one, so the clone no "
                                "longer records into the shared one: function bodies are "
                                "visited once per call site")
    if n < 10:
        raise AnalysisError(f"only {n} mapper constructors scanned (floor 10)")


def r_visit_tables(c):
    """in every cached walker the table a key is looked up in is the table it is
    added to, and arrays and function definitions have tables of their own"""
    m = c.model
    from pta.pat import find
    n = 0
    tables = {}
    for q in [CWALK] + m.subclasses(CWALK, strict=True):
        ci = m.classes[q]
        for mn in ("rec", "rec_function_definition"):
            fd = ci.methods.get(mn)
            if fd is None:
                continue
            n += 1
            # by case (pta/symrun.py): where the key is in the table nothing is added and
            # nothing walked; where it is not, the key is added to that very table --
            # `if k in T: return` + tail and `if k not in T: <walk; add>` are one table
            import re
            from pta import symrun
            looks, adds = [], []
            ok = True
            tbl_ = symrun.table(m.expand_locals(fd, only="aliases").body, lambda t: None)
            for cs, ev in tbl_.items():
                mem = [(re.fullmatch(r"(.+) in self\.(\w+)", k), v) for k, v in cs]
                mem = [(mm.group(1), mm.group(2), v) for mm, v in mem if mm]
                if len(mem) != 1:
                    ok = False
                    continue
                k_, t_, present = mem[0]
                looks.append({"$k": k_, "$t": t_})
                calls = [e for e in ev if e[0] == "call"]
                added = [e for e in calls if re.fullmatch(r"self\.\w+\.add", e[1])]
                if present:
                    ok = ok and not calls
                else:
                    adds += [{"$t": e[1].split(".")[1], "$k": e[2][0] if e[2] else None}
                             for e in added]
                    ok = ok and len(added) == 1 and added[0][1] == f"self.{t_}.add" \
                        and added[0][2] == (k_,)
            ok = ok and len(tbl_) == 2
            c.check(ok, "R13-ONCE", f"{short(q)}.{mn}", "looked-up-and-added-in-one-table",
                    m.loc(ci.module, fd),
                    f"the key is looked up in {[l['$t'] for l in looks]} but added to "
                    f"{[a['$t'] for a in adds]}: a visited object is never found again and is "
                    "walked once per path (function definitions once per call site)")
            if ok:
                tables.setdefault(q, {})[mn] = looks[0]["$t"]
    for q, t in tables.items():
        if len(t) == 2:
            c.check(t["rec"] != t["rec_function_definition"], "R13-ONCE", short(q),
                    "separate-tables-for-arrays-and-functions",
                    m.loc(m.classes[q].module, m.classes[q].node),
                    "arrays and function definitions share one visited table (their keys "
                    "can coincide)")
    if n < 2:
        raise AnalysisError(f"only {n} cached walker rec methods found")


def r_conditional_passthrough(c):
    """an element of a child-carrying field is handed on UNMAPPED only because it
    is no array (a scalar binding of a loopy call): `v if <test> else self.rec(v)`
    with any other test skips children of some type (bare inputs, say), and what a
    mapper overrides for that type -- substituting placeholders -- never happens"""
    m = c.model
    n = 0
    fams = [COPY, COPYX] + m.subclasses(COPY, strict=True) + m.subclasses(COPYX, strict=True)
    done = set()
    for q in fams:
        ci = m.classes[q]
        for mn, fd in ci.methods.items():
            if (q, mn) in done or not (mn.startswith("map_") or mn.startswith("_map_")):
                continue
            done.add((q, mn))
            for ie in ast.walk(fd):
                if not isinstance(ie, ast.IfExp):
                    continue
                arms = (ie.body, ie.orelse)

                def recs(a):
                    return [x for x in ast.walk(a) if isinstance(x, ast.Call)
                            and ast.unparse(x.func).startswith("self.rec") and x.args
                            and isinstance(x.args[0], ast.Name)]
                for raw, other in (arms, arms[::-1]):
                    if isinstance(raw, ast.Name) and any(
                            r.args[0].id == raw.id for r in recs(other)):
                        n += 1
                        v = raw.id
                        t = ast.unparse(ie.test)
                        raw_is_else = raw is ie.orelse
                        ok = (raw_is_else and t == f"isinstance({v}, Array)") or (
                            not raw_is_else and t == f"not isinstance({v}, Array)")
                        c.check(ok, "R13-CHILDREN-OVR", f"{short(q)}.{mn}",
                                f"unmapped-only-if-not-an-array:{m.frag(ie, 40)}",
                                m.loc(ci.module, ie),
                                f"`{m.frag(ie, 70)}` passes `{v}` on without mapping it under "
                                f"the test `{t}`, which is not `not an Array`: children of "
                                "that kind are never visited by this mapper or its "
                                "subclasses")
    if n < 2:
        raise AnalysisError(f"only {n} conditional pass-throughs found (floor 2)")


def r_component_guard(c):
    """components of a shape / index tuple (and other loop elements) are recursed into
    whenever they are arrays: the test in front of `self.rec(v)` on a loop element v
    is `isinstance(v, Array)` and nothing narrower (`... and v.ndim == 0`, a tag test,
    a type of input): a narrower test silently leaves array-valued components, and
    everything reachable only through them, out of every traversal built on the helper"""
    m = c.model
    n = 0
    mods = [x for x in m.modules if x.startswith("pytato.transform")
            or x in ("pytato.analysis", "pytato.codegen", "pytato.distributed.partition")]
    for mi, fd in m.all_functions(modules=mods):
        bound = {}
        for l in ast.walk(fd):
            if isinstance(l, (ast.For, ast.comprehension)):
                for t in ast.walk(l.target):
                    if isinstance(t, ast.Name):
                        bound[t.id] = l
        for call in ast.walk(fd):
            if not (isinstance(call, ast.Call) and ast.unparse(call.func) in ("self.rec",)
                    and call.args and isinstance(call.args[0], ast.Name)
                    and call.args[0].id in bound):
                continue
            v = call.args[0].id
            guards = []
            ch, par = call, call._parent
            while par is not None and par is not fd:
                if isinstance(par, ast.If) and any(ch is x for x in par.body):
                    guards.append(par.test)
                if isinstance(par, ast.IfExp) and ch is par.body:
                    guards.append(par.test)
                if isinstance(par, (ast.GeneratorExp, ast.ListComp, ast.SetComp, ast.DictComp)):
                    for g in par.generators:
                        if g is bound[v]:
                            guards += g.ifs
                ch, par = par, par._parent
            guards = [g for g in guards if any(isinstance(x, ast.Name) and x.id == v
                                               for x in ast.walk(g))]
            if not guards:
                continue
            n += 1
            ok = all(ast.unparse(g) in (f"isinstance({v}, Array)",
                                        f"isinstance({v}, (Array,))") for g in guards)
            qn = m.qualname(fd).replace("pytato.", "", 1)
            c.check(ok, "R13-CHILDREN-OVR", qn,
                    f"recursed-into-whenever-an-array:{v}", m.loc(mi, call),
                    f"`self.rec({v})` is guarded by `{' and '.join(ast.unparse(g) for g in guards)}`, "
                    f"which is narrower than `isinstance({v}, Array)`: array-valued "
                    "components that fail the extra condition are never visited")
    if n < 4:
        raise AnalysisError(f"only {n} guarded component recursions found (floor 4)")


def r_cache_answer(c):
    """sharing is preserved only if a traversal continues with what the cache hands
    back: `add` may answer with an equal object that was cached earlier, and that
    object, not the freshly built one, is the result.  Every call of
    _cache_add / _function_cache_add / <cache>.add with a computed result is
    therefore returned (directly, or through a local that is returned unchanged);
    a call that stores a constant marker is a different idiom and is left alone"""
    m = c.model
    n = 0
    mods = [x for x in m.modules if x.startswith("pytato.transform")
            or x in ("pytato.analysis", "pytato.codegen", "pytato.distributed.partition")]
    for mi, fd in m.all_functions(modules=mods):
        for call in ast.walk(fd):
            if not (isinstance(call, ast.Call) and isinstance(call.func, ast.Attribute)):
                continue
            f = ast.unparse(call.func)
            if not (f in ("self._cache_add", "self._function_cache_add")
                    or f in ("self._cache.add", "self._function_cache.add")):
                continue
            if len(call.args) < 2 or isinstance(call.args[1], ast.Constant):
                continue
            n += 1
            par = call._parent
            ok = isinstance(par, ast.Return)
            if isinstance(par, ast.Assign) and len(par.targets) == 1 \
                    and isinstance(par.targets[0], ast.Name):
                v = par.targets[0].id
                later = [x for x in ast.walk(fd) if isinstance(x, ast.Return)
                         and x.value is not None and ast.unparse(x.value) == v
                         and x.lineno >= par.lineno]
                re_ = [a for a in ast.walk(fd) if isinstance(a, ast.Assign) and a is not par
                       and a.lineno > par.lineno and any(
                           isinstance(t, ast.Name) and t.id == v for t in a.targets)]
                ok = bool(later) and not re_
            qn = m.qualname(fd).replace("pytato.", "", 1)
            c.check(ok, "R13-COLLISION", qn, f"returns-what-the-cache-hands-back:{f}",
                    m.loc(mi, call),
                    f"the value of `{m.frag(call, 50)}` is dropped and the freshly computed "
                    "object is used instead: when an equal result was cached earlier the "
                    "cache answers with THAT object; ignoring the answer gives one shared "
                    "node two different result objects (sharing is lost)")
    if n < 5:
        raise AnalysisError(f"only {n} cache insertions with a computed result found (floor 5)")


def r_shape_component_tests(c):
    """(shared rule, pta/rules/common.py) array-valued shape components are selected
    with isinstance(.., Array), never with a narrower class"""
    from pta.rules.common import check_shape_component_tests
    n = check_shape_component_tests(c, "R13-CHILDREN", ["pytato.analysis", "pytato.transform", "pytato.transform.materialize", "pytato.transform.metadata", "pytato.transform.calls", "pytato.codegen", "pytato.distributed.partition"])
    if n < 1:
        raise AnalysisError("no type test on shape components found")


SPEC = Spec(
    prop="C13",
    rules=[r_children, r_children_overrides, r_once, r_key, r_collision, r_clone,
           r_eq_memo, r_state, r_shared_or, r_visit_tables, r_conditional_passthrough,
           r_cache_answer, r_component_guard, r_shape_component_tests],
    floors={"R13-CHILDREN": 212, "R13-ONCE": 14, "R13-KEY": 20, "R13-COLLISION": 8,
            "R13-DOUBLE-CACHE": 7, "R13-CHILDREN-OVR": 20, "R13-CLONE": 12,
            "R13-EQ-MEMO": 22, "R13-STATE": 7},
    explanation=(
        "R13-CHILDREN enumerates (traversal family, node kind, child edge): for "
        "each of the 9 hand-written traversal families and every concrete node "
        "kind, the handler the dispatcher resolves (MRO fallback included) is "
        "analysed by access-path flow analysis and must hand on (recurse into / "
        "return / compare on both operands) every child-carrying access path of "
        "the kind, where the child paths are derived from the dataclass field "
        "annotations (operands, shape components, indices, CSR parts, send "
        "payloads, bindings, containers, function definitions). "
        "R13-CHILDREN-OVR applies the same to handlers written in subclasses: "
        "recursing into some child means recursing into all. R13-ONCE walks every "
        "path of every cached rec/rec_function_definition: dispatch only after a "
        "cache lookup, result added before returning. R13-DOUBLE-CACHE: no "
        "override adds to the cache around the caching super().rec. R13-KEY: "
        "every cache-key function depends on every parameter; cached walkers "
        "that reach function definitions define that key. R13-COLLISION: "
        "collisions raise, are only caught to be re-raised, and the transform "
        "cache returns the first-seen equal result. R13-CLONE: clone_for_callee "
        "passes every setting to the constructor parameter of the same name. "
        "R13-EQ-MEMO: EqualityComparer compares every array-carrying component "
        "through the memoised self.rec (raw == on such a component only for the "
        "reviewed size-parameter-only shapes). R13-STATE: caches are instance "
        "state: no mutable default argument, no class- or module-level container "
        "that a mapper mutates (canary fixture). "
        "R13-CHILDREN-OVR also: an element of a child field is passed on unmapped only under the test that it is not an Array. R13-ONCE also: a visit key is looked up in and added to the same table, arrays and function definitions have separate tables. "
        "R13-CHILDREN counts a child as handed on only as itself or as an element of itself, not through an attribute computed from it (rec(expr.shape) is not rec(expr.indices)). "
        "R13-CHILDREN-OVR also: the guard in front of self.rec(v) on a loop element v is isinstance(v, Array) and nothing narrower. "
        "R13-COLLISION also: every cache insertion with a computed result returns what the cache hands back (directly or through a local returned unchanged). Shared rule: wherever the array-valued components of a shape are picked out, the type test is isinstance(.., Array), never a narrower class."),
    not_decided=(
        "Visit counts and object identity on concrete exponential-path graphs "
        "(they follow from R13-ONCE but are not measured); 'never creates more "
        "distinct nodes than given' beyond the identity-rebuild rule shared with "
        "C05."),
)
