"""C02 -- lowering any array node to an index lambda preserves its meaning."""
from __future__ import annotations

import ast

from pta.check import Spec
from pta.flow import Flow
from pta.model import AnalysisError
from pta.rules.common import TOIL, concrete_kinds, sem_fields, short

MAPAS = "pytato.transform.lower_to_index_lambda.MapAsIndexLambdaMixin"
META = ("dtype", "axes", "tags", "non_equality_tags")


def high_level_kinds(m):
    """concrete array kinds that are operations on other arrays (have a child
    field) and are not index lambdas, named results or communication nodes"""
    from pta.flow import child_paths
    out = []
    for k in concrete_kinds(m, with_funcdef=False):
        mro = m.mro(k)
        if m.ARRAY not in mro or k == "pytato.array.IndexLambda":
            continue
        if "pytato.array.NamedArray" in mro or "pytato.array.InputArgumentBase" in mro:
            continue
        if k.startswith("pytato.distributed"):
            continue
        ch = child_paths(m, k)
        if any(v == "array" for v in ch.values()):
            out.append(k)
    if len(out) < 7:
        raise AnalysisError(f"only {len(out)} high-level kinds found (floor 7)")
    return out


def _resolve_local(fd, node, depth=0):
    """follow a Name through a single local assignment"""
    if isinstance(node, ast.Name) and depth < 3:
        asg = [s for s in ast.walk(fd) if isinstance(s, (ast.Assign, ast.AnnAssign))
               and any(isinstance(t, ast.Name) and t.id == node.id
                       for t in (s.targets if isinstance(s, ast.Assign) else [s.target]))]
        if len(asg) == 1 and asg[0].value is not None:
            return _resolve_local(fd, asg[0].value, depth + 1)
    return node


def il_ctors(fd):
    return [x for x in ast.walk(fd) if isinstance(x, ast.Call)
            and ast.unparse(x.func) == "IndexLambda"]


def r_total(c):
    m = c.model
    for k in high_level_kinds(m):
        mm = m.mapper_method(k)
        ci = m.classes[k]
        r1 = m.resolve_method(TOIL, mm)
        c.check(r1 is not None, "R02-TOTAL", "ToIndexLambdaMixin", f"{short(k)}:{mm}",
                m.loc(ci.module, ci.node),
                f"no lowering rule {mm} for {short(k)}: to_index_lambda / code "
                "generation raise for this kind")
        r2 = m.resolve_method(MAPAS, mm)
        ok2 = False
        if r2 is not None:
            p2 = r2[1].args.args[1].arg
            for call in ast.walk(r2[1]):
                if isinstance(call, ast.Call) and isinstance(call.func, ast.Attribute) \
                        and ast.unparse(call.func.value) == "self" \
                        and call.func.attr.startswith("map_") and any(
                            ast.unparse(a) == f"to_index_lambda({p2})" for a in call.args):
                    ok2 = True
        c.check(ok2, "R02-TOTAL", "MapAsIndexLambdaMixin", f"{short(k)}:{mm}",
                m.loc(ci.module, ci.node),
                f"MapAsIndexLambdaMixin has no {mm} that hands to_index_lambda(expr) to "
                "its index-lambda handler (sibling registry of ToIndexLambdaMixin)")
        if r1 is not None:
            fd = r1[1]
            from pta.order import _own_nodes
            rets = [r for r in _own_nodes(fd) if isinstance(r, ast.Return)]
            ok = rets and all(isinstance(r.value, ast.Call)
                              and ast.unparse(r.value.func) == "IndexLambda" for r in rets)
            c.check(ok, "R02-TOTAL", f"ToIndexLambdaMixin.{mm}", f"{short(k)}:returns-IndexLambda",
                    m.loc(m.module_of(fd), fd),
                    "a return of the lowering rule is not an IndexLambda(...) construction")
    # to_index_lambda applies the rule of the node itself, not of its children
    rec = m.func("pytato.transform.lower_to_index_lambda.ToIndexLambdaMapper.rec")
    c.check(any(isinstance(r, ast.Return) and ast.unparse(r.value) == rec.args.args[1].arg
                for r in ast.walk(rec)), "R02-TOTAL", "ToIndexLambdaMapper.rec",
            "children-left-as-is", m.loc(m.module_of(rec), rec),
            "to_index_lambda no longer leaves the operands of the lowered node unchanged")


def r_meta(c):
    m = c.model
    for k in high_level_kinds(m):
        mm = m.mapper_method(k)
        r = m.resolve_method(TOIL, mm)
        if r is None:
            continue
        fd = r[1]
        param = fd.args.args[1].arg
        for call in il_ctors(fd):
            kws = {kw.arg: kw.value for kw in call.keywords if kw.arg}
            where = m.loc(m.module_of(fd), call)
            for f in META:
                v = _resolve_local(fd, kws.get(f)) if f in kws else None
                c.check(v is not None and ast.unparse(v) == f"{param}.{f}", "R02-META",
                        f"ToIndexLambdaMixin.{mm}", f"{short(k)}.{f}", where,
                        f"the lowered index lambda's {f} is "
                        f"`{ast.unparse(v) if v is not None else '<missing>'}`, not "
                        f"{param}.{f}")
            v = _resolve_local(fd, kws.get("shape")) if "shape" in kws else None
            ok = v is not None and ast.unparse(v) in (
                f"self.rec_size_tuple({param}.shape)", f"{param}.shape")
            c.check(ok, "R02-META", f"ToIndexLambdaMixin.{mm}", f"{short(k)}.shape", where,
                    f"the lowered index lambda's shape is "
                    f"`{ast.unparse(v) if v is not None else '<missing>'}`, not the "
                    "node's (recursed) shape")
            # immutable mappings, as IndexLambda's own constructor demands
            for f in ("bindings", "var_to_reduction_descr"):
                v = kws.get(f)
                ok = v is not None and isinstance(v, ast.Call) and ast.unparse(
                    v.func) == "constantdict"
                c.check(ok, "R02-META", f"ToIndexLambdaMixin.{mm}",
                        f"{short(k)}.{f}:constantdict", where,
                        f"{f}= is not a constantdict(...): IndexLambda's constructor "
                        "assertion fails")


def r_consume(c):
    m = c.model
    flow = Flow(m, "pytato.transform.lower_to_index_lambda.ToIndexLambdaMapper",
                max_depth=6)
    for k in high_level_kinds(m):
        mm = m.mapper_method(k)
        if m.resolve_method(TOIL, mm) is None:
            continue
        s = flow.handler(mm, k)
        reads = {q.lstrip("@") for p in s.read_paths("expr") for q in p}
        for f in sem_fields(m, k):
            emb = None
            from pta.rules.c04 import embedded_class
            emb = embedded_class(m, k, f)
            subfields = [g for g in m.fields(emb) if g not in (
                "axes", "tags", "non_equality_tags", "shape", "dtype")] if emb else [None]
            for g in subfields:
                inst = f"{short(k)}.{f}" + (f".{g}" if g else "")
                ok = (g or f) in reads
                c.check(ok, "R02-CONSUME", f"ToIndexLambdaMixin.{mm}", inst, s.where[2],
                        f"the lowering rule never reads {inst}: two nodes differing only "
                        "there lower to the same index lambda")
        # reduction descriptors end up in var_to_reduction_descr
        for f, (ann, *_r) in m.fields(k).items():
            if "ReductionDescriptor" in ast.unparse(ann):
                c.check(f in reads, "R02-CONSUME", f"ToIndexLambdaMixin.{mm}",
                        f"{short(k)}.{f}", s.where[2],
                        f"the reduction descriptor field {f} is dropped by lowering "
                        "(tags on the reduction are lost)")


def _tmpl(node):
    if isinstance(node, ast.Constant) and isinstance(node.value, str):
        return node.value
    if isinstance(node, ast.JoinedStr):
        return "".join(v.value if isinstance(v, ast.Constant) else "{}" for v in node.values)
    if isinstance(node, ast.Name):
        return "$" + node.id
    return None


def r_bind(c):
    """every binding-variable name used in the generated expression is a key of
    a mapping built by the same rule"""
    m = c.model
    for k in high_level_kinds(m):
        mm = m.mapper_method(k)
        r = m.resolve_method(TOIL, mm)
        if r is None:
            continue
        fd = m.inlined(r[1])     # helpers that build part of the expression are seen through
        used = {}
        for call in ast.walk(fd):
            if isinstance(call, ast.Call) and ast.unparse(call.func) in (
                    "prim.Variable", "Variable", "var") and call.args:
                t = _tmpl(call.args[0])
                if t is None:
                    continue
                if t.startswith("$") or t.startswith("_in") or t.startswith("in"):
                    used.setdefault(t, call)
        keys = set()
        for n in ast.walk(fd):
            if isinstance(n, ast.Dict):
                keys |= {_tmpl(x) for x in n.keys if x is not None}
            elif isinstance(n, ast.DictComp):
                keys.add(_tmpl(n.key))
            elif isinstance(n, ast.Assign) and isinstance(n.targets[0], ast.Subscript):
                keys.add(_tmpl(n.targets[0].slice))
        keys.discard(None)
        # names bound to f-strings: compare through their template as well
        alias = {}
        for n in ast.walk(fd):
            if isinstance(n, ast.Assign) and isinstance(n.targets[0], ast.Name):
                t = _tmpl(n.value)
                if t and not t.startswith("$"):
                    alias["$" + n.targets[0].id] = t
        keys |= {alias[k_] for k_ in list(keys) if k_ in alias}
        if not used:
            raise AnalysisError(f"no binding variables found in lowering rule {mm}")
        for t, call in sorted(used.items()):
            ok = t in keys or alias.get(t) in keys
            c.check(ok, "R02-BIND", f"ToIndexLambdaMixin.{mm}",
                    f"{short(k)}:{t.lstrip('$')}", m.loc(m.module_of(fd), call),
                    f"the generated expression refers to variable {t.lstrip('$')!r} but "
                    f"no mapping built by the rule has that key (keys: {sorted(keys)[:8]}): "
                    "the index lambda has an unbound name")


def r_sibling(c):
    """the three index-lowering rules treat integer and slice indices alike.  What
    one iteration of the per-index loop does for an integer index, and for a slice,
    is tabulated by case-split evaluation (pta/symrun.py: the subscript appended,
    the bindings stored, the output-axis counter advanced, for each truth value of
    the tests on the index and its axis length) and the tables of the three rules
    are compared.  How the ifs are arranged (if/elif chain, guard + continue, a
    helper with an early return, an intermediate local) does not enter the table."""
    m = c.model
    from pta import symrun
    from pta.pat import alpha
    names = ["map_basic_index", "map_contiguous_advanced_index",
             "map_non_contiguous_advanced_index"]
    tabs = {}
    for mn in names:
        r = m.resolve_method(TOIL, mn)
        if r is None:
            raise AnalysisError(f"anchor vanished: {mn}")
        fd = m.counters(m.inlined(r[1]))    # (an itertools.count is the integer it counts)
        loops = []
        for l in ast.walk(fd):
            if not isinstance(l, ast.For):
                continue
            tg = {n.id for n in ast.walk(l.target) if isinstance(n, ast.Name)}
            subj = {t.args[0].id for t in ast.walk(l) if isinstance(t, ast.Call)
                    and ast.unparse(t.func) == "isinstance" and len(t.args) == 2
                    and isinstance(t.args[0], ast.Name) and t.args[0].id in tg
                    and ast.unparse(t.args[1]) == "NormalizedSlice"}
            if len(subj) == 1:
                loops.append((l, subj.pop(), tg))
        # the outermost such loop
        loops = [x for x in loops if not any(
            y[0] is not x[0] and any(z is x[0] for z in ast.walk(y[0])) for y in loops)]
        if len(loops) != 1:
            raise AnalysisError(f"index lowering: per-index loop of {mn} not found")
        loop, iv, tg = loops[0]
        for ty in ("INT_CLASSES", "NormalizedSlice"):
            def decide(t, ty=ty, iv=iv, tg=tg):
                if isinstance(t, ast.Call) and ast.unparse(t.func) == "isinstance" \
                        and len(t.args) == 2 and isinstance(t.args[0], ast.Name):
                    if t.args[0].id == iv:
                        return ast.unparse(t.args[1]) == ty
                    return None if t.args[0].id in tg else "skip"
                if any(isinstance(x, ast.Name) and x.id == iv for x in ast.walk(t)):
                    return None
                return "skip"
            try:
                tab = symrun.table(loop.body, decide)
            except AnalysisError as e:
                raise AnalysisError(f"index lowering: {mn}: {e}")
            # canonical text: cases and events, locals alpha-normalised
            # (falling off the end of the loop body and `continue` are the same)
            rows = sorted((sorted(f"{k}={v}" for k, v in cs),
                           symrun.read_then_advance(
                               ev[:-1] if ev and ev[-1] == ("exit", "continue") else ev))
                          for cs, ev in tab.items())
            # locals of the rule renamed in order of first occurrence
            import re
            locs = {n.id for n in ast.walk(fd) if isinstance(n, ast.Name)
                    and isinstance(n.ctx, ast.Store)}
            order_ = {}

            def ren(mo):
                w = mo.group(0)
                if w not in locs:
                    return w
                return order_.setdefault(w, f"v{len(order_)}")
            txt = re.sub(r"[A-Za-z_][A-Za-z_0-9]*", ren, repr(rows))
            tabs.setdefault(ty, {})[mn] = (txt, loop, rows)
    for ty in ("INT_CLASSES", "NormalizedSlice"):
        impl = tabs.get(ty, {})
        ref_name = names[0]
        ref = impl[ref_name][0]
        for mn in names[1:]:
            body, node, rows = impl[mn]
            c.check(body == ref and bool(rows) and any(
                e[0] == "call" for _cs, ev in rows for e in ev),
                "R02-SIBLING", f"ToIndexLambdaMixin.{mn}",
                f"{ty}-index-handled-like-{ref_name}", m.loc(m.module_of(node), node),
                f"the three index-lowering rules are sibling implementations, but "
                f"{mn} handles {ty} indices differently from {ref_name}: per case, "
                f"`{str(rows)[:150]}...` vs `{str(impl[ref_name][2])[:150]}...`")


def r_sibling_adv(c):
    """the two advanced-index lowerings find the advanced indices, and the shape
    they broadcast to, in the same way (they are copies of one another)"""
    m = c.model
    from pta.pat import alpha, find
    names = ["map_contiguous_advanced_index", "map_non_contiguous_advanced_index"]
    got = {}
    for mn in names:
        fd = m.resolve_method(TOIL, mn)[1]
        a = find(fd, "$ia = tuple(($i for $i, $x in enumerate($ri) if $$cond))")
        b = find(fd, "$shape = get_shape_after_broadcasting([$$elt for $j in $ia])")
        if len(a) != 1 or len(b) != 1:
            raise AnalysisError(f"anchor vanished: advanced-index set in {mn}")
        got[mn] = (alpha(ast.unparse(a[0]["@node"])), alpha(ast.unparse(b[0]["@node"])),
                   a[0]["@node"])
    ref = got[names[0]]
    for mn in names[1:]:
        for k, what in ((0, "which indices count as advanced"),
                        (1, "the shape the advanced indices broadcast to")):
            c.check(got[mn][k] == ref[k], "R02-SIBLING", f"ToIndexLambdaMixin.{mn}",
                    f"{what.replace(' ', '-')}-like-{names[0]}",
                    m.loc(m.module_of(got[mn][2]), got[mn][2]),
                    f"{mn} and {names[0]} compute {what} differently "
                    f"(`{got[mn][k][:70]}` vs `{ref[k][:70]}`): one of the two sibling "
                    "lowerings places the index arrays on the wrong output axes")


def _chain_subject(iff):
    """the name the if/elif chain ``iff`` belongs to dispatches on: the name tested
    by isinstance in the HEAD of the chain"""
    ch, p = iff, iff._parent
    while isinstance(p, ast.If) and p.orelse == [ch]:
        ch, p = p, p._parent
    t = ch.test
    if isinstance(t, ast.UnaryOp) and isinstance(t.op, ast.Not):
        t = t.operand
    if isinstance(t, ast.Call) and ast.unparse(t.func) == "isinstance" and t.args \
            and isinstance(t.args[0], ast.Name):
        return t.args[0].id
    return None


def _loop_targets(iff):
    """names bound by the for loop whose body the if/elif chain of ``iff`` is in"""
    ch, p = iff, iff._parent
    while isinstance(p, ast.If) and p.orelse == [ch]:
        ch, p = p, p._parent
    if isinstance(p, ast.For):
        return {n.id for n in ast.walk(p.target) if isinstance(n, ast.Name)}
    return set()


def r_domain(c):
    """string-valued parameters are stored in the normal form the lowering tests"""
    m = c.model
    fd = m.func("pytato.array.reshape")
    where = m.loc("pytato.array", fd)
    # validation: <X> not in [literals]  with X = order / order.upper()
    admitted = None
    norm = None
    for iff in ast.walk(fd):
        if isinstance(iff, ast.If) and isinstance(iff.test, ast.Compare) \
                and isinstance(iff.test.ops[0], ast.NotIn) \
                and "order" in ast.unparse(iff.test.left) \
                and any(isinstance(s_, ast.Raise) for s_ in iff.body):
            admitted = {e.value for e in iff.test.comparators[0].elts}
            norm = iff.test.left
            guard = iff
    if admitted is None:
        raise AnalysisError("anchor vanished: validation of reshape's order argument")
    ctor = [x for x in ast.walk(fd) if isinstance(x, ast.Call) and ast.unparse(x.func) == "Reshape"]
    init = m.init_order("pytato.array.Reshape")
    passed = None
    for call in ctor:
        kws = {k.arg: k.value for k in call.keywords}
        for i, a in enumerate(call.args):
            kws[init[i]] = a
        passed = kws.get("order")
    ok = passed is not None
    if ok and isinstance(norm, ast.Call):
        # the check normalises (e.g. order.upper()): what is stored must be the
        # normalised value -- either the same expression or the parameter
        # re-assigned to it before the check
        same = ast.unparse(passed) == ast.unparse(norm)
        ok = same
    elif ok:
        # the check tests the bare name: it must have been normalised before, or
        # the admitted literals are exactly what consumers test
        reassigned = [s_ for s_ in ast.walk(fd) if isinstance(s_, ast.Assign)
                      and ast.unparse(s_.targets[0]) == ast.unparse(norm)
                      and s_.lineno < guard.lineno]
        ok = ast.unparse(passed) == ast.unparse(norm)
        c.notes.append(f"reshape: order normalised before validation: {bool(reassigned)}")
    c.check(ok, "R02-DOMAIN", "array.reshape", "order:stored-value-is-the-validated-one",
            where,
            f"the argument check tests `{ast.unparse(norm)}` but the node stores "
            f"`{ast.unparse(passed) if passed is not None else None}`: a value the check "
            "admits only after normalisation (e.g. 'c') reaches lowering un-normalised")
    # the literals lowering distinguishes are among the admitted ones
    tested = set()
    for qn in ("pytato.transform.lower_to_index_lambda._generate_index_expressions",
               "pytato.transform.lower_to_index_lambda._get_reshaped_indices"):
        f2 = m.func(qn)
        for cmp_ in ast.walk(f2):
            if isinstance(cmp_, ast.Compare) and "order" in ast.unparse(cmp_.left) \
                    and isinstance(cmp_.comparators[0], ast.Constant) \
                    and isinstance(cmp_.comparators[0].value, str):
                tested.add(cmp_.comparators[0].value)
    if not tested:
        raise AnalysisError("anchor vanished: order tests in the reshape lowering")
    c.check(tested <= admitted, "R02-DOMAIN", "lower_to_index_lambda reshape helpers",
            f"order:tests {sorted(tested)} within admitted {sorted(admitted)}", where,
            f"lowering distinguishes order values {sorted(tested)} but the front end "
            f"admits {sorted(admitted)}")
    c.check(len(admitted - tested) <= 1, "R02-DOMAIN", "lower_to_index_lambda reshape helpers",
            "order:at-most-one-value-left-to-else", where,
            f"more than one admitted order value ({sorted(admitted - tested)}) falls into "
            "the same else-branch of the lowering")


def r_reshape_passthrough(c):
    """a group of axes that is reshaped onto itself passes its index variables
    through, whatever its rank: zero-size arrays give groups of several axes (their
    axes cannot be split into independent groups), and reshape((0, 2) -> (0, 2)) is
    a valid program"""
    m = c.model
    fd = m.func("pytato.transform.lower_to_index_lambda._generate_index_expressions")
    os_, ns_, iv = fd.args.args[0].arg, fd.args.args[1].arg, fd.args.args[3].arg
    br = [i for i in fd.body if isinstance(i, ast.If) and ast.unparse(i.test) in (
        f"{os_} == {ns_}", f"{ns_} == {os_}")]
    if len(br) != 1:
        raise AnalysisError("anchor vanished: pass-through branch of "
                            "_generate_index_expressions")
    rets = [r for r in ast.walk(br[0]) if isinstance(r, ast.Return)]
    rank_asserts = [a for a in ast.walk(br[0]) if isinstance(a, ast.Assert) and any(
        isinstance(x, ast.Compare) and ast.unparse(x.left) in (f"len({os_})", f"len({ns_})")
        and isinstance(x.comparators[0], ast.Constant) for x in ast.walk(a.test))]
    ok = len(rets) == 1 and ast.unparse(rets[0].value) in (f"tuple({iv})", iv) \
        and not rank_asserts
    c.check(ok, "R02-DOMAIN", "transform.lower_to_index_lambda._generate_index_expressions",
            "identity-group-passes-through-at-any-rank", m.loc(m.module_of(fd), br[0]),
            "the pass-through branch for a group reshaped onto itself asserts a rank or "
            f"returns `{ast.unparse(rets[0].value) if rets else None}` instead of all index "
            "variables: lowering reshape((0, 2) -> (0, 2)) fails with AssertionError")


def r_concat_offsets(c):
    """concatenate: operand i is read at (index - offset_i) where offset_i is the
    total length of the operands before it, i.e. the UPPER bound of operand i-1.
    Whatever fills the list of offsets is taken from the list of upper bounds (the
    running sum), never from an operand's own length"""
    m = c.model
    from pta.pat import find
    fd = m.resolve_method(TOIL, "map_concatenate")[1]
    where = m.loc(m.module_of(fd), fd)
    # subscript helper inlined, (lbound, ubound) lookups propagated; the lists keep
    # their names
    fd = m.expand_locals(m.inlined(fd), only="subscripts")
    # U: what the output index is compared with; L: what is subtracted from it
    ups = {e["$U"] for e in find(fd, "Comparison($$x, '<', $U[$$i])")} \
        | {e["$U"] for e in find(fd, "prim.Comparison($$x, '<', $U[$$i])")}
    lows = {e["$L"] for e in find(fd, "prim.Variable($$n) - $L[$$i])".replace("])", "]"))} \
        | {e["$L"] for e in find(fd, "Variable($$n) - $L[$$i]")}
    if not lows:
        # the index variable held in a local: any `<v> - L[i]` where v is bound to a
        # Variable(...)
        for e in find(fd, "$v - $L[$i]"):
            if any(isinstance(a, ast.Assign) and any(
                    isinstance(t, ast.Name) and t.id == e["$v"] for t in a.targets)
                    and isinstance(a.value, ast.Call)
                    and ast.unparse(a.value.func).endswith("Variable") for a in ast.walk(fd)):
                lows.add(e["$L"])
    if len(ups) != 1 or len(lows) != 1:
        raise AnalysisError("anchor vanished: in map_concatenate, the list the output index "
                            "is compared with (`<`) and the list of offsets subtracted from "
                            f"it (found {sorted(ups)} / {sorted(lows)})")
    L, U = lows.pop(), ups.pop()
    if L == U:
        # ONE list of running offsets T = [0, l0, l0+l1, ...]: operand i is read at
        # (index - T[i]) under the guard index < T[i+1]
        T = L
        cmp_idx, sub_idx = set(), set()
        for x in ast.walk(fd):
            if isinstance(x, ast.Call) and ast.unparse(x.func).endswith("Comparison") \
                    and len(x.args) == 3 and isinstance(x.args[2], ast.Subscript) \
                    and ast.unparse(x.args[2].value) == T:
                cmp_idx.add(ast.unparse(x.args[2].slice))
            if isinstance(x, ast.BinOp) and isinstance(x.op, ast.Sub) \
                    and isinstance(x.right, ast.Subscript) \
                    and ast.unparse(x.right.value) == T:
                sub_idx.add(ast.unparse(x.right.slice))
        # ... also through a local helper that subtracts its parameter:
        # get_subscript(i, T[i]) with `- offset` inside
        for h in ast.walk(fd):
            if not isinstance(h, ast.FunctionDef) or h is fd:
                continue
            hp = [a.arg for a in h.args.args]
            for x in ast.walk(h):
                if isinstance(x, ast.BinOp) and isinstance(x.op, ast.Sub) \
                        and isinstance(x.right, ast.Name) and x.right.id in hp:
                    pos = hp.index(x.right.id)
                    for call in ast.walk(fd):
                        if isinstance(call, ast.Call) and isinstance(call.func, ast.Name) \
                                and call.func.id == h.name and len(call.args) > pos \
                                and isinstance(call.args[pos], ast.Subscript) \
                                and ast.unparse(call.args[pos].value) == T:
                            sub_idx.add(ast.unparse(call.args[pos].slice))
        inits = [a.value for a in ast.walk(fd) if isinstance(a, (ast.Assign, ast.AnnAssign))
                 and a.value is not None and ast.unparse(
                     a.targets[0] if isinstance(a, ast.Assign) else a.target) == T]
        ok = bool(cmp_idx) and all(any(ci in (f"{si} + 1", f"1 + {si}") for si in sub_idx)
                                   for ci in cmp_idx) \
            and len(inits) == 1 and isinstance(inits[0], (ast.List, ast.Tuple)) \
            and inits[0].elts and ast.unparse(inits[0].elts[0]) == "0"
        c.check(ok, "R02-BIND", "ToIndexLambdaMixin.map_concatenate",
                "offsets-are-the-running-sum", where,
                f"with one list of offsets `{T}`: the guard of operand i must compare with "
                f"{T}[i + 1] where its subscript subtracts {T}[i], and the list must start "
                f"with 0 (compared at {sorted(cmp_idx)}, subtracted at {sorted(sub_idx)})")
        acc = find(fd, f"{T}.append({T}[-1] + $a.shape[$$ax])") \
            + find(fd, f"{T}.append($a.shape[$$ax] + {T}[-1])")
        c.check(len(acc) == 1, "R02-BIND", "ToIndexLambdaMixin.map_concatenate",
                "upper-bounds-accumulate", where,
                f"the offsets `{T}` are not a running sum of the operands' lengths")
        return
    feeds = []
    for x in ast.walk(fd):
        if isinstance(x, (ast.Assign, ast.AnnAssign)) and x.value is not None:
            tg = x.targets[0] if isinstance(x, ast.Assign) else x.target
            if ast.unparse(tg) == L:
                v = x.value
                if isinstance(v, (ast.List, ast.Tuple)):
                    feeds += list(v.elts)
                else:
                    feeds.append(v)
        if isinstance(x, ast.Call) and ast.unparse(x.func) in (f"{L}.append", f"{L}.extend") \
                and x.args:
            feeds.append(x.args[0])
    bad = [f for f in feeds if not (ast.unparse(f) == "0" or any(
        isinstance(y, ast.Name) and y.id == U for y in ast.walk(f)))]
    c.check(feeds and not bad, "R02-BIND", "ToIndexLambdaMixin.map_concatenate",
            "offsets-are-the-running-sum", where,
            f"the subscript offsets `{L}` are filled with `{m.frag(bad[0], 50) if bad else None}`, "
            f"which is not taken from the upper bounds `{U}`: the offset of the third and "
            "later operands is the length of ONE earlier operand instead of all of them")
    # ... and the upper bounds accumulate: previous upper bound + this operand's length
    acc = []
    for prev in (f"{U}[$i - 1]", f"{U}[-1]"):
        acc += find(fd, f"{U}.append({prev} + $a.shape[$$ax])") \
            + find(fd, f"{U}.append($a.shape[$$ax] + {prev})")
    acc += find(fd, f"{U} = list(accumulate($$lens))") \
        + find(fd, f"{U} = list(accumulate($$lens, initial=$$first))") \
        + find(fd, f"{U} = list(itertools.accumulate($$lens))") \
        + find(fd, f"{U} = list(itertools.accumulate($$lens, initial=$$first))")
    c.check(len(acc) == 1, "R02-BIND", "ToIndexLambdaMixin.map_concatenate",
            "upper-bounds-accumulate", where,
            f"the upper bounds `{U}` are not a running sum of the operands' lengths")


def r_einsum_broadcast_first(c):
    """einsum lowering: whether an operand axis is a broadcast unit axis (subscript
    0) is decided FIRST and for every kind of axis descriptor alike; only an axis
    that passed this test can contribute a subscript variable or a reduction bound
    (otherwise a contracted index that is 1-long in one operand is read out of
    bounds there, or bounds the whole reduction by 1)"""
    m = c.model
    from pta.paths import Walker, precedes
    fd = m.inlined(m.resolve_method(TOIL, "map_einsum")[1])
    where = m.loc(m.module_of(fd), fd)

    def is_T(n):
        return isinstance(n, ast.Call) and ast.unparse(n.func).endswith(
            "are_shape_components_equal") and len(n.args) == 2 and not any(
            isinstance(a, ast.Constant) for a in n.args)

    def classify(n):
        if is_T(n):
            return "T"
        if isinstance(n, ast.Call) and isinstance(n.func, ast.Attribute):
            if n.func.attr == "append" and len(n.args) == 1:
                a = n.args[0]
                if isinstance(a, ast.IfExp) and any(
                        isinstance(v, ast.Constant) and v.value == 0
                        for v in (a.body, a.orelse)):
                    return "M"      # 0 or an index variable, by a flag
                return "Z" if isinstance(a, ast.Constant) and a.value == 0 else "A"
            if n.func.attr in ("update", "setdefault"):
                return "B"
        if isinstance(n, ast.Call) and ast.unparse(n.func) == "isinstance" \
                and "Einsum" in ast.unparse(n.args[1]):
            return "K"
        if isinstance(n, ast.Assign) and any(isinstance(t, ast.Subscript) for t in n.targets):
            return "B"
        return None
    # the per-axis loop: the innermost loop that holds the broadcast test
    loops = [l for l in ast.walk(fd) if isinstance(l, ast.For)
             and any(is_T(x) for x in ast.walk(l))
             and not any(isinstance(x, ast.For) and x is not l and any(
                 is_T(y) for y in ast.walk(x)) for x in ast.walk(l))]
    if len(loops) != 1:
        raise AnalysisError("anchor vanished: per-axis loop with the broadcast test "
                            "are_shape_components_equal(<length>, <einsum length>) in map_einsum")
    l = loops[0]
    paths = {(tuple(x for x in e if x in "TZAKBM"), x_) for (e, x_)
             in Walker(classify).block(l.body) if x_ != "raise"}
    seqs = [e for e, _ in paths]
    mixed = any("M" in e for e in seqs)
    if not mixed and (not any("Z" in e for e in seqs) or not any("A" in e for e in seqs)):
        raise AnalysisError("anchor vanished: subscript appends (0 for a broadcast axis, an "
                            "index variable otherwise) in the per-axis loop of map_einsum")
    bad = []
    if mixed:
        # the decision is carried in a flag and applied per append: then whatever
        # else the iteration records must be guarded by that flag (or the test) too
        flags = {t.id for a in ast.walk(l) if isinstance(a, ast.Assign)
                 and any(is_T(x) for x in ast.walk(a.value))
                 for t in a.targets if isinstance(t, ast.Name)}
        for b in ast.walk(l):
            if classify(b) != "B":
                continue
            q, guarded = b, False
            while q is not l:
                q = q._parent
                if isinstance(q, (ast.If, ast.IfExp)) and any(
                        is_T(x) or (isinstance(x, ast.Name) and x.id in flags)
                        for x in ast.walk(q.test)):
                    guarded = True
            if not guarded:
                bad.append(f"`{m.frag(b, 50)}` is recorded whether or not the axis is a "
                           "broadcast axis (the decision is applied to the subscript only)")
    for then, what in (("K", "the descriptor kind is tested"),
                       ("A", "an index variable is appended"),
                       ("B", "a binding or reduction bound is recorded"),
                       ("Z", "subscript 0 is appended")):
        if precedes(paths, "T", then):
            bad.append(f"{what} on a path that has not evaluated the broadcast test")
    for e in seqs:
        if "Z" in e:
            k = e.index("Z")
            if any(x in "AKB" for x in e[k + 1:]) or "K" in e[:k]:
                bad.append("the broadcast arm (subscript 0) also tests the descriptor kind, "
                           "appends an index variable or records a bound")
                break
    # polarity, where the test is the condition of an if
    for iff in ast.walk(l):
        if isinstance(iff, ast.If):
            t = iff.test
            neg = isinstance(t, ast.UnaryOp) and isinstance(t.op, ast.Not)
            if is_T(t.operand if neg else t):
                zarm = iff.body if neg else iff.orelse
                oarm = iff.orelse if neg else iff.body
                if not any(classify(x) == "Z" for s_ in zarm for x in ast.walk(s_)) or any(
                        classify(x) == "Z" for s_ in oarm for x in ast.walk(s_)):
                    bad.append("subscript 0 is appended on the arm where the lengths are "
                               "EQUAL")
    c.check(not bad, "R02-BIND", "ToIndexLambdaMixin.map_einsum",
            "broadcast-axes-decided-before-the-descriptor-kind", where,
            "in the per-axis loop " + "; ".join(bad) + ": broadcasting is applied to some "
            "descriptor kinds only, or a reduction bound is taken from a broadcast axis")


# ------------------------------------------------------------- R02-DIRECTION
_OUT, _IN = "result-axis", "operand-axis"


def _perm_roles(fd, perm_txt):
    """Small role inference for code that handles an axis permutation P
    (`<node>.axis_permutation`, textually ``perm_txt``): which integer expressions
    number axes of the RESULT and which number axes of the OPERAND.  By the node's
    definition result axis k is operand axis P[k]:

        for a, b in enumerate(P)      a: result axis, b: operand axis
        for b in P                    b: operand axis (the k-th item belongs to result axis k)
        P[e]      e must be a result axis,  the value is an operand axis
        P.index(e) e must be an operand axis, the value is a result axis
        for i in range(..)            i: either; fixed by how it is used

    Returns (position role, role of what is placed there, node) for every place the
    code fills an axis-indexed sequence: a store ``L[x] = f(y)`` or the items of a
    comprehension / a list that is appended to in a loop.  Roles are None when they
    cannot be told."""
    is_p = lambda e: ast.unparse(e) == perm_txt       # noqa: E731

    def gens_of(node):
        """[(target, iter)] of the loops/generators enclosing node, innermost last"""
        out = []
        cur = node
        while getattr(cur, "_parent", None) is not None:
            par = cur._parent
            if isinstance(par, (ast.For,)) and cur in par.body:
                out.append((par.target, par.iter))
            if isinstance(par, (ast.ListComp, ast.GeneratorExp, ast.SetComp)) and cur is par.elt:
                for g in par.generators:
                    out.append((g.target, g.iter))
            cur = par
        return out

    def env_of(gens):
        env, free, implicit = {}, set(), None
        for tgt, it in gens:
            if isinstance(it, ast.Call) and ast.unparse(it.func) == "enumerate" \
                    and it.args and is_p(it.args[0]) and isinstance(tgt, ast.Tuple) \
                    and len(tgt.elts) == 2 and all(isinstance(e, ast.Name) for e in tgt.elts):
                env[tgt.elts[0].id], env[tgt.elts[1].id] = _OUT, _IN
                implicit = _OUT
            elif is_p(it) and isinstance(tgt, ast.Name):
                env[tgt.id] = _IN
                implicit = _OUT
            elif isinstance(it, ast.Call) and ast.unparse(it.func) == "range" \
                    and isinstance(tgt, ast.Name):
                free.add(tgt.id)
                implicit = ("free", tgt.id)
        return env, free, implicit

    def role(e, env):
        """role of an integer expression, "ill" when it does not type, None unknown"""
        if isinstance(e, ast.Name):
            return env.get(e.id)
        if isinstance(e, ast.Subscript) and is_p(e.value):
            r = role(e.slice, env)
            return _IN if r == _OUT else ("ill" if r == _IN else None)
        if isinstance(e, ast.Call) and isinstance(e.func, ast.Attribute) \
                and e.func.attr == "index" and is_p(e.func.value) and len(e.args) == 1:
            r = role(e.args[0], env)
            return _OUT if r == _IN else ("ill" if r == _OUT else None)
        return None

    def typed(exprs, env, free):
        """the roles of exprs under the one assignment of the free loop variables
        that types everything; None if there is none or more than one"""
        import itertools
        sols = []
        for combo in itertools.product((_OUT, _IN), repeat=len(free)):
            e2 = dict(env)
            e2.update(zip(sorted(free), combo))
            rs = [x if isinstance(x, str) else e2.get(x[1]) if isinstance(x, tuple)
                  else role(x, e2) for x in exprs]
            if "ill" not in rs:
                sols.append(rs)
        uniq = {tuple(r) for r in sols}
        return list(uniq.pop()) if len(uniq) == 1 else None
    return gens_of, env_of, typed


def _axis_number_of(e):
    """the expression k in prim.Variable(f"_{k}") / Variable("_" + str(k)); the
    subscript i in <operand shape>[i]; else None"""
    for n in ast.walk(e):
        if isinstance(n, ast.JoinedStr) and len(n.values) == 2 \
                and isinstance(n.values[0], ast.Constant) and n.values[0].value == "_" \
                and isinstance(n.values[1], ast.FormattedValue):
            return n.values[1].value
    return None


def r_direction(c):
    """an axis permutation is applied in ONE direction everywhere: result axis k is
    operand axis P[k] (AxisPermutation.shape says so).  In the lowering, the index
    tuple of the operand is numbered by OPERAND axes and holds the index variables
    `_k` of RESULT axes; the inverse reading type-checks just as well and is right
    for every involution (all 2-D transposes), which is what tests use"""
    m = c.model
    sites = []
    # (a) the lowering rule
    fd0 = m.resolve_method(TOIL, "map_axis_permutation")[1]
    fd = m.expand_locals(m.inlined(fd0), only="aliases")
    for n in ast.walk(fd):
        for ch in ast.iter_child_nodes(n):
            ch._parent = n
    ep = fd.args.args[1].arg
    P = f"{ep}.axis_permutation"
    # the permutation may be handed to a private helper that builds the index tuple:
    # the helper is analysed with its parameter standing for the permutation
    scopes = [(fd, P)]
    for callee in m.private_callees(fd0):
        for call in ast.walk(fd):
            if isinstance(call, ast.Call) and (
                    (isinstance(call.func, ast.Name) and call.func.id == callee.name)
                    or (isinstance(call.func, ast.Attribute) and call.func.attr == callee.name)):
                bind = m._bind_args(call, callee) or {}
                for q, e in bind.items():
                    if ast.unparse(e) == P:
                        cf = m.expand_locals(m.inlined(callee), only="aliases")
                        for n_ in ast.walk(cf):
                            for ch in ast.iter_child_nodes(n_):
                                ch._parent = n_
                        scopes.append((cf, q))
    found = 0
    work = []
    for fd_, p_ in scopes:
        roles = _perm_roles(fd_, p_)
        work += [(n, roles) for n in ast.walk(fd_)]
    for n, (gens_of, env_of, typed) in work:
        # scatter: L[x] = ... Variable(f"_{y}") ...
        if isinstance(n, ast.Assign) and len(n.targets) == 1 \
                and isinstance(n.targets[0], ast.Subscript):
            y = _axis_number_of(n.value)
            if y is None:
                continue
            env, free, _impl = env_of(gens_of(n))
            rs = typed([n.targets[0].slice, y], env, free)
            sites.append(("lowering", n, rs, (_IN, _OUT), fd0))
            found += 1
        # gather: the items of a comprehension / appended in a loop
        elif isinstance(n, (ast.ListComp, ast.GeneratorExp)):
            y = _axis_number_of(n.elt)
            if y is None:
                continue
            env, free, impl = env_of(gens_of(n.elt))
            if impl is None:
                continue
            rs = typed([impl, y], env, free)
            sites.append(("lowering", n, rs, (_IN, _OUT), fd0))
            found += 1
        elif isinstance(n, ast.Call) and isinstance(n.func, ast.Attribute) \
                and n.func.attr == "append" and len(n.args) == 1:
            y = _axis_number_of(n.args[0])
            if y is None:
                continue
            env, free, impl = env_of(gens_of(n._parent))
            if impl is None:
                continue
            rs = typed([impl, y], env, free)
            sites.append(("lowering", n, rs, (_IN, _OUT), fd0))
            found += 1
    if not found:
        raise AnalysisError("anchor vanished: the place where map_axis_permutation puts the "
                            "index variables `_k` into the operand's index tuple")
    # (b) the node's own shape: result position k <- operand shape[P[k]]
    shp = m.resolve_method("pytato.array.AxisPermutation", "shape")[1]
    sf = m.expand_locals(m.inlined(shp), only="aliases")
    for n in ast.walk(sf):
        for ch in ast.iter_child_nodes(n):
            ch._parent = n
    gens_of2, env_of2, typed2 = _perm_roles(sf, "self.axis_permutation")
    found = 0
    for n in ast.walk(sf):
        if isinstance(n, (ast.ListComp, ast.GeneratorExp)) and isinstance(n.elt, ast.Subscript) \
                and ast.unparse(n.elt.value) in ("self.array.shape",):
            env, free, impl = env_of2(gens_of2(n.elt))
            if impl is None:
                continue
            rs = typed2([impl, n.elt.slice], env, free)
            sites.append(("shape", n, rs, (_OUT, _IN), shp))
            found += 1
    if not found:
        raise AnalysisError("anchor vanished: AxisPermutation.shape as a sequence of "
                            "`self.array.shape[..]` items")
    for what, n, rs, want, anchor in sites:
        if rs is None or None in rs:
            raise AnalysisError(f"R02-DIRECTION: cannot tell which axes `{m.frag(n, 80)}` "
                                "numbers (result or operand)")
        where = m.loc(m.module_of(anchor), anchor)
        c.check(tuple(rs) == want, "R02-DIRECTION",
                "ToIndexLambdaMixin.map_axis_permutation" if what == "lowering"
                else "AxisPermutation.shape",
                "operand-positions-hold-result-index-variables" if what == "lowering"
                else "result-positions-hold-operand-lengths", where,
                f"`{m.frag(n, 90)}` fills positions numbered by {rs[0]} with "
                + ("index variables" if what == "lowering" else "lengths")
                + f" numbered by {rs[1]}; by the node's definition (result axis k is operand "
                f"axis axis_permutation[k]) it must be {want[0]} / {want[1]}: the inverse "
                "permutation is applied, which is only right for involutions (2-D transposes)")


# ---------------------------------------------------------------- R02-MIRROR
class _NotEval(Exception):
    pass


def _slice_eval(e, env):
    """value of an expression made of names, integer constants, list/tuple displays,
    constant subscripts and slices, on lists of symbols (no code is run: a list of
    strings is sliced)"""
    if isinstance(e, ast.Name):
        if e.id in env:
            return env[e.id]
        raise _NotEval()
    if isinstance(e, ast.Constant) and isinstance(e.value, int) \
            and not isinstance(e.value, bool):
        return e.value
    if isinstance(e, ast.UnaryOp) and isinstance(e.op, ast.USub):
        v = _slice_eval(e.operand, env)
        if isinstance(v, int):
            return -v
        raise _NotEval()
    if isinstance(e, (ast.List, ast.Tuple)):
        return [_slice_eval(x, env) for x in e.elts]
    if isinstance(e, ast.Subscript):
        base = _slice_eval(e.value, env)
        if not isinstance(base, list):
            raise _NotEval()
        sl = e.slice
        if isinstance(sl, ast.Slice):
            def b(x):
                if x is None:
                    return None
                v = _slice_eval(x, env)
                if not isinstance(v, int):
                    raise _NotEval()
                return v
            return base[slice(b(sl.lower), b(sl.upper), b(sl.step))]
        i = _slice_eval(sl, env)
        if not isinstance(i, int) or not -len(base) <= i < len(base):
            raise _NotEval()
        return base[i]
    if isinstance(e, ast.Call) and isinstance(e.func, ast.Name) \
            and e.func.id in ("tuple", "list", "reversed") and len(e.args) == 1 \
            and not e.keywords:
        v = _slice_eval(e.args[0], env)
        if not isinstance(v, list):
            raise _NotEval()
        return v[::-1] if e.func.id == "reversed" else list(v)
    raise _NotEval()


def _order_pairs(fd, order):
    """[(label, C-order expression, F-order expression)] for every value chosen by a
    test on the order: conditional expressions, and if/else arms that assign the same
    names"""
    def polarity(test):
        t = ast.unparse(test)
        if t in (f"{order} == 'C'", f"'C' == {order}", f"{order} != 'F'"):
            return True
        if t in (f"{order} == 'F'", f"'F' == {order}", f"{order} != 'C'"):
            return False
        return None
    out = []
    for n in ast.walk(fd):
        if isinstance(n, ast.IfExp):
            pol = polarity(n.test)
            if pol is not None:
                out.append((ast.unparse(n)[:70], n.body if pol else n.orelse,
                            n.orelse if pol else n.body))
        elif isinstance(n, ast.If) and n.orelse:
            pol = polarity(n.test)
            if pol is None:
                continue

            def simple(block):
                d = {}
                for st in block:
                    if isinstance(st, ast.Assign) and len(st.targets) == 1 \
                            and isinstance(st.targets[0], ast.Name):
                        d[st.targets[0].id] = st.value
                    elif isinstance(st, ast.AnnAssign) and isinstance(st.target, ast.Name) \
                            and st.value is not None:
                        d[st.target.id] = st.value
                    else:
                        return None
                return d
            a, b = simple(n.body), simple(n.orelse)
            if a is None or b is None or set(a) != set(b):
                continue
            for k in a:
                out.append((k, a[k] if pol else b[k], b[k] if pol else a[k]))
    return out


def r_order_mirror(c):
    """reshape: Fortran order is C order on the reversed axes (the tail of
    _generate_index_expressions reverses the stride lists for C and is otherwise the
    same code for both).  Every slice of a shape that is chosen by the order -- the
    axes the strides run over, the axes of the running sizes, the first running size
    -- must therefore give, in its C form on a shape, what its F form gives on the
    reversed shape.  Evaluated on lists of symbols of length 1..4 (pure slicing of a
    list of names: a finite abstract evaluation, no code of the package runs)."""
    m = c.model
    fd0 = m.func("pytato.transform.lower_to_index_lambda._generate_index_expressions")
    where = m.loc(m.module_of(fd0), fd0)
    fd = m.expand_locals(m.inlined(fd0))
    params = [a.arg for a in fd.args.args]
    order = params[2]
    n_ok = 0
    for label, ce, fe in _order_pairs(fd, order):
        names = {x.id for e in (ce, fe) for x in ast.walk(e) if isinstance(x, ast.Name)}
        verdict = None
        try:
            for n in range(1, 5):
                for nm in params[:2]:
                    if nm not in names:
                        continue
                    sym = [f"{nm}[{i}]" for i in range(n)]
                    other = [f"other[{i}]" for i in range(n)]
                    env_c = {params[0]: other, params[1]: other}
                    env_c[nm] = sym
                    env_f = dict(env_c)
                    env_f[nm] = sym[::-1]
                    vc, vf = _slice_eval(ce, env_c), _slice_eval(fe, env_f)
                    if vc != vf and verdict is None:
                        verdict = (n, vc, vf)
        except _NotEval:
            continue        # not a pure slice of a shape: nothing to say
        n_ok += 1
        c.check(verdict is None, "R02-SIBLING", "_generate_index_expressions",
                f"C-order-form-mirrors-F-order-form:{label}", where,
                f"`{ast.unparse(ce)[:50]}` (C order) on a shape of length "
                f"{verdict[0] if verdict else 0} gives {verdict[1] if verdict else ''} but "
                f"`{ast.unparse(fe)[:50]}` (F order) on the reversed shape gives "
                f"{verdict[2] if verdict else ''}: the two orders no longer treat mirrored "
                "axes alike, one of them computes wrong strides / running sizes for groups "
                "of three or more axes")
    if n_ok < 1:
        raise AnalysisError("anchor vanished: slices of the shapes chosen by the order in "
                            "_generate_index_expressions")


SPEC = Spec(
    prop="C02",
    rules=[r_total, r_meta, r_consume, r_bind, r_sibling, r_domain, r_sibling_adv, r_reshape_passthrough, r_concat_offsets, r_einsum_broadcast_first,
           r_direction, r_order_mirror],
    floors={"R02-TOTAL": 21, "R02-META": 49, "R02-CONSUME": 18, "R02-BIND": 14,
            "R02-DOMAIN": 2, "R02-SIBLING": 4, "R02-DIRECTION": 2},
    explanation=(
        "R02-TOTAL: every high-level kind (derived from the class table: concrete "
        "array kinds with array-valued operands that are not inputs, index "
        "lambdas, named results or communication nodes) has a lowering rule in "
        "ToIndexLambdaMixin whose every return constructs an IndexLambda, and the "
        "same set has forwarding methods in MapAsIndexLambdaMixin. R02-META: "
        "every IndexLambda(...) a rule constructs takes dtype/axes/tags/"
        "non_equality_tags from the node and its shape from the node's (recursed) "
        "shape, with constantdict mappings. R02-CONSUME: every semantic field of "
        "the kind (embedded sparse-matrix parts and reduction descriptors "
        "included) is read by its rule. R02-BIND: every binding-variable name a "
        "rule puts into the expression is a key of a mapping it builds. R02-DOMAIN: "
        "the order string reshape() stores is the one its check validated "
        "(normalised), and the values lowering distinguishes are the admitted "
        "ones. R02-SIBLING: the three index-lowering rules handle integer and "
        "slice indices identically: what one iteration of the per-index loop does for an "
        "integer index and for a slice (subscript appended, bindings stored, output-axis "
        "counter advanced, per truth value of the tests on the index and its axis length) "
        "is tabulated by case-split evaluation and the three tables are compared; the "
        "two advanced-index lowerings find the advanced indices and their broadcast shape "
        "alike. R02-DIRECTION: a small role inference (result axis / operand axis, from "
        "enumerate(P), iteration over P, P[e], P.index(e), free range variables fixed by "
        "their uses) over map_axis_permutation and AxisPermutation.shape: the operand's "
        "index tuple is numbered by operand axes and holds index variables of result "
        "axes, the shape is numbered by result axes and holds operand lengths. R02-SIBLING "
        "also (C/F mirror): every slice of a shape that reshape's index arithmetic chooses "
        "by the order gives, in its C form, what its F form gives on the reversed shape "
        "(evaluated on lists of symbols of length 1..4). "
        "R02-BIND also: concatenate offsets are taken from the list of upper bounds (running sum), the upper bounds accumulate; in the einsum lowering, on every path through the per-axis loop the broadcast test (operand length vs. the einsum's length for the descriptor) is evaluated before the descriptor kind is tested, before an index variable is appended and before a binding or reduction bound is recorded, and the arm that appends subscript 0 does nothing else (path events, not statement positions). R02-DOMAIN also: a group of axes reshaped onto itself passes its index variables through at any rank."),
    not_decided=(
        "The index arithmetic itself (slice normalisation, reshape stride/modulo, "
        "roll sign, concatenate offsets, advanced-index axis placement): a "
        "statement about integer expressions for all parameter values, left to "
        "evaluation-based techniques."),
)
