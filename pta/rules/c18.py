"""C18 -- persistent hash keys identify a computation faithfully."""
from __future__ import annotations

import ast

from pta.check import Spec
from pta.model import AnalysisError
from pta.rules.common import concrete_kinds, short

KB = "pytato.analysis.PytatoKeyBuilder"


def _feeds_dtype(fd) -> bool:
    """does the updater feed <key>.dtype (or something derived from it) into the hash?"""
    if len(fd.args.args) < 3:
        return False
    kh, key = fd.args.args[1].arg, fd.args.args[2].arg
    for call in ast.walk(fd):
        if not isinstance(call, ast.Call):
            continue
        f = ast.unparse(call.func)
        fed = None
        if f == "self.rec" and len(call.args) == 2 and ast.unparse(call.args[0]) == kh:
            fed = call.args[1]
        elif f == f"{kh}.update" and call.args:
            fed = call.args[0]
        if fed is not None and any(
                isinstance(a, ast.Attribute) and a.attr == "dtype"
                and isinstance(a.value, ast.Name) and a.value.id == key
                for a in ast.walk(fed)):
            return True
    return False


def _feeds_dtype_in(stmt, kh, key) -> bool:
    for call in ast.walk(stmt):
        if isinstance(call, ast.Call) and call.args and any(
                isinstance(a, ast.Attribute) and a.attr == "dtype"
                and isinstance(a.value, ast.Name) and a.value.id == key
                for x in call.args for a in ast.walk(x)):
            return True
    return False


def _numpy_scalar_updater_feeds_dtype(m):
    """where the dtype of a numpy scalar is fed into the key, or None"""
    import sysconfig
    from pathlib import Path
    ci = m.cls(KB)
    fd = ci.methods.get("update_for_numpy_scalar")
    if fd is not None:
        if _feeds_dtype(fd):
            return "pytato.analysis.PytatoKeyBuilder"
        # an override that does not delegate hides whatever the bases do
        if not any(isinstance(x, ast.Call) and ast.unparse(x.func)
                   == "super().update_for_numpy_scalar" for x in ast.walk(fd)):
            return None
    lib = Path(sysconfig.get_paths()["purelib"])
    for rel, cls in (("loopy/tools.py", "LoopyKeyBuilder"),
                     ("pytools/persistent_dict.py", "KeyBuilder")):
        p = lib / rel
        if not p.exists():
            raise AnalysisError(f"oracle source not found: {p}")
        tree = ast.parse(p.read_text())
        for n in ast.walk(tree):
            if isinstance(n, ast.ClassDef) and n.name == cls:
                for f in n.body:
                    if isinstance(f, ast.FunctionDef) and f.name == "update_for_numpy_scalar":
                        if _feeds_dtype(f):
                            return f"{rel}:{cls}"
                        if not any(isinstance(x, ast.Call) and ast.unparse(x.func)
                                   == "super().update_for_numpy_scalar"
                                   for x in ast.walk(f)):
                            return None
    return None


def r_ndarray(c):
    m = c.model
    fd = m.func(KB + ".update_for_ndarray")
    where = m.loc(m.module_of(fd), fd)
    keyp = fd.args.args[2].arg
    fed = []
    for call in ast.walk(fd):
        if isinstance(call, ast.Call) and ast.unparse(call.func) == "self.rec" \
                and len(call.args) == 2:
            fed.append(ast.unparse(call.args[1]))
    need = {"dtype": "the dtype (equal bytes read as another type)",
            "shape": "the shape (equal bytes with another shape)",
            "tobytes": "the contents"}
    for tok, why in need.items():
        c.check(any(a.startswith(keyp + ".") and tok in a for a in fed), "R18-NDARRAY",
                "PytatoKeyBuilder.update_for_ndarray", f"feeds:{tok}", where,
                f"the key of a wrapped ndarray does not include {why}: two different "
                f"arrays get the same persistent key (fed: {fed})")
    # ... and a numpy INTEGER is interchangeable with the Python int it equals
    # wherever expressions hold integers (x[1] == x[np.int64(1)], shapes, shifts):
    # pytools keys both by the same bytes on purpose ("this must match the hash for
    # numpy integers, since np.int64(1) == 1"); an override that feeds the dtype
    # has to keep integers on the update_for_int path
    own = m.cls(KB).methods.get("update_for_numpy_scalar")
    if own is not None and _feeds_dtype(own):
        # tabulated by case-split evaluation of the override's normal form (an if/elif
        # chain, guard + return, or a loop over a table of (type, updater) rows are
        # the same table): where the scalar is a np.integer the one thing done is
        # update_for_int(h, int(k))
        from pta import symrun as _sr
        kh_, k_ = own.args.args[1].arg, own.args.args[2].arg
        try:
            tab_ = _sr.table([s_ for s_ in m.normal(own).body if not isinstance(
                s_, (ast.Import, ast.ImportFrom))], lambda t: None)
        except AnalysisError:
            tab_ = {}
        ok_int = any(
            any(v and "np.integer" in k and "isinstance" in k for k, v in dict(cs).items())
            and [e for e in ev if e[0] != "exit"] == [
                ("call", "self.update_for_int", (kh_, f"int({k_})"))]
            for cs, ev in tab_.items())
        c.check(ok_int, "R18-NDARRAY", "PytatoKeyBuilder.update_for_numpy_scalar",
                "integers-keyed-like-python-ints", m.loc(m.module_of(own), own),
                "numpy integers are keyed with their dtype: x[1] and x[np.int64(1)] (equal "
                "graphs, equal hashes) get different persistent keys")
    else:
        c.ok("R18-NDARRAY", "PytatoKeyBuilder.update_for_numpy_scalar",
             "integers-keyed-like-python-ints", where,
             "no dtype-feeding override: pytools keys numpy integers like Python ints",
             nontrivial=False)
    # ... and so are numpy real and complex floats (np.float64 IS a Python float;
    # less(x, 2.0) == less(x, np.float64(2.0)), same hash): tabulated by case-split
    # evaluation of the override: in a case where the scalar is a np.floating (resp.
    # np.complexfloating) of ordinary width, the one thing done is
    # update_for_float(h, float(k)) (resp. update_for_complex(h, complex(k)))
    if own is not None and _feeds_dtype(own):
        from pta import symrun
        kh_, k_ = own.args.args[1].arg, own.args.args[2].arg
        try:
            tab = symrun.table([s_ for s_ in m.normal(own).body if not isinstance(
                s_, (ast.Import, ast.ImportFrom))], lambda t: None)
        except AnalysisError:
            tab = {}
        for cls_, upd, conv, what in (
                ("np.floating", "update_for_float", "float", "floats"),
                ("np.complexfloating", "update_for_complex", "complex", "complex numbers")):
            hit = False
            for cs, ev in tab.items():
                cs = dict(cs)
                if any(v and cls_ in k and "isinstance" in k for k, v in cs.items()) \
                        and [e for e in ev if e[0] != "exit"] == [
                            ("call", f"self.{upd}", (kh_, f"{conv}({k_})"))]:
                    hit = True
            c.check(hit, "R18-NDARRAY", "PytatoKeyBuilder.update_for_numpy_scalar",
                    f"{what.split()[0]}-keyed-like-python-{conv}", m.loc(m.module_of(own), own),
                    f"numpy {what} are keyed with their dtype and bytes: less(x, 2.0) and "
                    "less(x, np.float64(2.0)) (equal graphs, equal hashes) get different "
                    "persistent keys")
    # contents in logical (C) order: the bytes must not depend on the memory layout
    tb = [x for x in ast.walk(fd) if isinstance(x, ast.Call) and isinstance(x.func, ast.Attribute)
          and x.func.attr == "tobytes"]
    c.check(bool(tb) and all(
        not x.args and all(k.arg == "order" and ast.unparse(k.value) in ("'C'", '"C"')
                           for k in x.keywords) for x in tb), "R18-NDARRAY",
            "PytatoKeyBuilder.update_for_ndarray", "contents-in-logical-order", where,
            "the contents are fed in memory order (tobytes(order=...)): a Fortran-ordered "
            "copy of an array gets another key than the array, and different arrays with "
            "the same memory image collide")
    # numpy scalars (constants in scalar expressions): equal bytes do not mean
    # equal values either (np.float32(2) / np.int32(1073741824)); the updater
    # that applies to them -- the key builder's own, or the first one up its
    # MRO in the installed loopy / pytools sources -- must feed the dtype
    fed_by = _numpy_scalar_updater_feeds_dtype(m)
    c.check(fed_by is not None, "R18-NDARRAY", "PytatoKeyBuilder.update_for_numpy_scalar",
            "feeds:dtype", where,
            "the key of a numpy scalar is its bytes only (neither PytatoKeyBuilder nor "
            "the loopy/pytools key builders it inherits from feed the dtype): "
            "x + np.float32(2) and x + np.int32(1073741824) get the same persistent key",
            ok_detail=f"dtype fed by {fed_by}")
    # device arrays are keyed through their host copy, i.e. through the ndarray rule
    for meth in ("update_for_TaggableCLArray", "update_for_Array"):
        f2 = m.func(f"{KB}.{meth}")
        c.check(f"self.rec({f2.args.args[1].arg}, {f2.args.args[2].arg}.get())"
                in ast.unparse(f2), "R18-NDARRAY",
                f"PytatoKeyBuilder.{meth}", "via-host-array", m.loc(m.module_of(f2), f2),
                "device arrays are no longer keyed through their host ndarray")


def _ann_classes(m, ann, module):
    out = set()
    if isinstance(ann, ast.Constant) and isinstance(ann.value, str):
        try:
            ann = ast.parse(ann.value, mode="eval").body
        except SyntaxError:
            return out
    for n in ast.walk(ann):
        nm = None
        if isinstance(n, ast.Name):
            nm = n.id
        elif isinstance(n, ast.Attribute):
            nm = ast.unparse(n)
        elif isinstance(n, ast.Constant) and isinstance(n.value, str) and n.value.isidentifier():
            nm = n.value
        if nm:
            r = m.resolve_name(module, nm)
            if r in m.classes:
                out.add(r)
            else:
                # alias defined in pytato.array (ShapeType, IndexExpr, ...)
                for modn in (module, "pytato.array"):
                    mi = m.modules.get(modn)
                    if mi and nm in mi.assigns and nm not in m.byname:
                        out |= _ann_classes(m, mi.assigns[nm], modn)
    return out


def r_closure(c):
    m = c.model
    seen = set()
    work = list(concrete_kinds(m))
    # scalar expression nodes pytato adds to pymbolic (reachable through
    # IndexLambda.expr, whose annotation is a pymbolic alias)
    work += [q for q, ci in m.classes.items() if q.startswith("pytato.scalar_expr.")
             and any(d.startswith("expr_dataclass") for d in ci.decorators)]
    n = 0
    while work:
        k = work.pop()
        if k in seen:
            continue
        seen.add(k)
        ci = m.classes[k]
        # subclasses of abstract annotation targets are reachable too
        if m.is_abstract(k) or k in ("pytato.reductions.ReductionOperation",
                                     "pytato.array.EinsumAxisDescriptor",
                                     "pytato.array.SparseMatrix"):
            work += m.subclasses(k, strict=True)
        where = m.loc(ci.module, ci.node)
        uph = m.resolve_method(k, "update_persistent_hash")
        is_enum = any(b.split(".")[-1] in ("Enum", "IntEnum") for b in m.ext_bases(k))
        is_dc = m.is_dataclass(k)
        n += 1
        if uph is not None:
            own_fields = [f for f in m.fields(k)] if is_dc else []
            fed = _fed_fields(uph[1])
            cmp_fields = [f for f in own_fields if not _compare_false(m, k, f)]
            missing = [f for f in cmp_fields if f not in fed]
            c.check(not missing, "R18-CLOSURE", short(k), "update_persistent_hash-reads-all-fields",
                    m.loc(m.module_of(uph[1]), uph[1]),
                    f"update_persistent_hash of {short(k)} does not feed {missing} into the key")
            partial = {f: v for f, v in fed.items() if f in cmp_fields and v != "whole"}
            c.check(not partial, "R18-CLOSURE", short(k),
                    "update_persistent_hash-feeds-whole-fields",
                    m.loc(m.module_of(uph[1]), uph[1]),
                    f"update_persistent_hash of {short(k)} feeds only part of a mapping field "
                    f"({partial}): entries that differ in the other part (e.g. the same "
                    "arrays under exchanged names) get the same key")
        elif is_dc or is_enum:
            c.ok("R18-CLOSURE", short(k), "keyed-field-by-field (dataclass)" if is_dc
                 else "keyed as enum member", where)
        elif m.is_abstract(k) or not k.startswith("pytato.") or any(
                b.split(".")[-1] == "Protocol" for b in m.ext_bases(k)):
            c.ok("R18-CLOSURE", short(k), "abstract/protocol/foreign", where,
                 nontrivial=False)
        elif m.subclasses(k, strict=True) and not m.fields(k) and not ci.own_fields:
            # marker base class without state: its instantiable descendants are
            # checked on their own
            work += m.subclasses(k, strict=True)
            c.ok("R18-CLOSURE", short(k), "stateless base (descendants checked)", where,
                 nontrivial=False)
        else:
            c.violation("R18-CLOSURE", short(k), "has-a-key-rule", where,
                        f"{short(k)} is reachable from an expression node through field "
                        "annotations but is neither a dataclass nor defines "
                        "update_persistent_hash: the key builder raises or falls back "
                        "to an identity-based key")
        for f, (ann, _d, _kw, defcls) in (m.fields(k).items() if is_dc else []):
            work += list(_ann_classes(m, ann, m.classes[defcls].module.name))
    if n < 35:
        raise AnalysisError(f"annotation closure reached only {n} classes (floor 35)")


def _compare_false(m, k, f):
    ent = m.fields(k).get(f)
    if not ent:
        return False
    defcls = ent[3]
    for (fname, _ann, _hd, _kw, dnode) in m.classes[defcls].own_fields:
        if fname == f and dnode is not None:
            return "compare=False" in ast.unparse(dnode)
    return False


def _fed_fields(fd):
    """{field: 'whole' | 'values-only' | 'keys-only'} for the fields of self whose
    value (or part of it) is fed into the key by this updater"""
    if len(fd.args.args) < 3:
        return {}
    selfn, kh, kb = (a.arg for a in fd.args.args[:3])
    fed_exprs = []
    for call in ast.walk(fd):
        if not isinstance(call, ast.Call):
            continue
        f = ast.unparse(call.func)
        if f == f"{kb}.rec" and len(call.args) == 2 and ast.unparse(call.args[0]) == kh:
            fed_exprs.append(call.args[1])
        elif f == f"{kh}.update" and call.args:
            fed_exprs.append(call.args[0])
    # one level of local aliases
    alias = {}
    for a in ast.walk(fd):
        if isinstance(a, ast.Assign) and len(a.targets) == 1 and isinstance(a.targets[0], ast.Name):
            alias[a.targets[0].id] = a.value
    seen = {}
    work = list(fed_exprs)
    done = set()
    while work:
        e = work.pop()
        for n in ast.walk(e):
            if isinstance(n, ast.Name) and n.id in alias and n.id not in done:
                done.add(n.id)
                work.append(alias[n.id])
            if isinstance(n, ast.Attribute) and isinstance(n.value, ast.Name) \
                    and n.value.id == selfn:
                par = getattr(n, "_parent", None)
                how = "whole"
                if isinstance(par, ast.Attribute) and par.value is n \
                        and par.attr in ("values", "keys"):
                    how = f"{par.attr}-only"
                prev = seen.get(n.attr)
                if prev is None or how == "whole" or (prev != "whole" and prev != how):
                    seen[n.attr] = "whole" if (prev and prev != how) else how
    return seen


def r_stable(c):
    m = c.model
    from pta.order import scan
    n = 0
    # key code: the updaters, and every method of a key-builder class (an override
    # of rec()/__call__ feeds the key just as well)
    kb_methods = {id(f) for qn_, ci_ in m.classes.items()
                  if any(x.split(".")[-1].endswith("KeyBuilder") for x in m.mro(qn_))
                  for f in ci_.methods.values()}
    for mi, fd in m.all_functions():
        if not (fd.name == "update_persistent_hash" or fd.name.startswith("update_for_")
                or id(fd) in kb_methods):
            continue
        n += 1
        qn = m.qualname(fd).replace("pytato.", "", 1)
        # a key updater is a pure function of the key: it writes nothing that
        # outlives the call and is shared between keys (class attributes,
        # globals): a digest cached there makes the key of one object depend on
        # which objects were keyed before, i.e. on the process
        shared = []
        for x in ast.walk(fd):
            if isinstance(x, (ast.Global, ast.Nonlocal)):
                shared.append(x)
            if isinstance(x, ast.Attribute) and isinstance(x.ctx, ast.Store):
                base = ast.unparse(x.value)
                if base.lstrip("_")[:1].isupper() or base in ("cls", "type(self)", "self.__class__") \
                        or base.startswith("type("):
                    shared.append(x)
            if isinstance(x, ast.Call) and ast.unparse(x.func) == "setattr" and x.args \
                    and (ast.unparse(x.args[0])[:1].isupper()
                         or ast.unparse(x.args[0]).startswith(("type(", "cls"))):
                shared.append(x)
        c.check(not shared, "R18-STABLE", qn, "writes-no-shared-state", m.loc(mi, fd),
                "the key updater stores into class-level/global state "
                f"(`{m.frag(shared[0]._parent if shared and hasattr(shared[0], '_parent') else fd, 60)}`): "
                "what one object contributes to a key then depends on which objects "
                "were keyed earlier in the process")
        bad = [x for x in ast.walk(fd) if isinstance(x, ast.Call) and isinstance(x.func, ast.Name)
               and x.func.id in ("hash", "id", "repr", "str")]
        c.check(not bad, "R18-STABLE", qn, "no-process-dependent-digest", m.loc(mi, fd),
                "hash()/id()/repr() feeds a persistent key: it differs between "
                f"processes ({m.frag(bad[0], 40) if bad else ''})")
    # updaters for unordered containers: whatever is fed element by element must be
    # fed in an order that does not depend on the hash seed
    for mi, fd in m.all_functions():
        if fd.name not in ("update_for_frozenset", "update_for_set", "update_for_FrozenSet",
                           "update_for_constantdict", "update_for_dict",
                           "update_for_frozendict", "update_for_Map"):
            continue
        if len(fd.args.args) < 3:
            continue
        key = fd.args.args[2].arg
        qn = m.qualname(fd).replace("pytato.", "", 1)
        bad = []
        for x in ast.walk(fd):
            it = None
            if isinstance(x, ast.For):
                it = x.iter
            elif isinstance(x, ast.comprehension):
                it = x.iter
            if it is None:
                continue
            raw = ast.unparse(it)
            if raw in (key, f"{key}.items()", f"{key}.keys()", f"{key}.values()",
                       f"iter({key})", f"list({key})", f"tuple({key})"):
                # a comprehension that is the sole argument of sorted()/frozenset() is fine
                par = getattr(x, "_parent", None)
                gp = getattr(par, "_parent", None) if par is not None else None
                if isinstance(x, ast.comprehension) and isinstance(gp, ast.Call) \
                        and ast.unparse(gp.func) in ("sorted", "frozenset", "set", "sum"):
                    continue
                bad.append(x)
        c.check(not bad, "R18-STABLE", qn, "unordered-key-fed-in-a-stable-order", m.loc(mi, fd),
                f"the updater iterates its unordered key `{key}` directly and feeds the "
                "elements in iteration order: the key depends on PYTHONHASHSEED (every "
                "branch counts, also a 'small set' fast path)")
    sites = [s for s in scan(m, ["pytato.analysis", "pytato.reductions", "pytato.tags",
                                 "pytato.scalar_expr"])
             if ("update_persistent_hash" in s.func or "update_for_" in s.func)]
    for s in sites:
        c.check(bool(s.discharged), "R18-STABLE", s.func, s.stmt_text[:80],
                m.loc(m.module_of(s.node), s.node),
                "a key updater iterates an unordered collection")
    if n < 2:
        raise AnalysisError(f"only {n} key updaters found (floor 2)")
    # the stateless reductions key by their type, and ==/hash agree with that
    ci = m.cls("pytato.reductions._StatelessReductionOperation")
    from pta.pat import has as phas
    uph_ = ci.methods["update_persistent_hash"]
    c.check(phas(uph_, f"{uph_.args.args[2].arg}.rec({uph_.args.args[1].arg}, "
                       f"type({uph_.args.args[0].arg}))")
            and phas(ci.methods["__hash__"], "return hash(type($s))")
            and (phas(ci.methods["__eq__"], "return type($s) is type($o)")
                 or phas(ci.methods["__eq__"], "return type($o) is type($s)")), "R18-STABLE",
            "_StatelessReductionOperation", "key-hash-eq-all-by-type",
            m.loc(ci.module, ci.node),
            "key, __hash__ and __eq__ of stateless reductions no longer all go by type")


def r_no_dynamic_attrs(c):
    """the persistent key (and the cached hash) of a node are looked up with
    getattr(obj, "_pytools_persistent_hash_digest" / "_hash_value"): a class of the
    expression tree that answers unknown attributes dynamically (__getattr__
    forwarding to a wrapped array) hands out the wrapped object's digest as its own"""
    m = c.model
    n = 0
    roots = [k for k in concrete_kinds(m)]
    seen = set()
    work = list(roots)
    while work:
        k = work.pop()
        if k in seen or k not in m.classes:
            continue
        seen.add(k)
        for b in m.mro(k):
            if b in m.classes and b not in seen:
                work.append(b)
        if m.is_dataclass(k):
            for f, (ann, _d, _kw, defcls) in m.fields(k).items():
                work += list(_ann_classes(m, ann, m.classes[defcls].module.name))
    for k in sorted(seen):
        ci = m.classes[k]
        n += 1
        dyn = [mn for mn in ("__getattr__", "__getattribute__") if mn in ci.methods]
        c.check(not dyn, "R18-CLOSURE", short(k), "no-dynamic-attribute-lookup",
                m.loc(ci.module, ci.methods[dyn[0]] if dyn else ci.node),
                f"{short(k)} defines {dyn}: getattr(node, '_pytools_persistent_hash_digest') "
                "can be answered by another object's cached digest, so the node is keyed "
                "like the array it wraps")
    if n < 28:
        raise AnalysisError(f"only {n} classes of the expression tree scanned (floor 28)")


def r_pickle(c):
    from pta.rules.c04 import r_pickle as r04
    before = len(c.obs)
    r04(c)
    for o in c.obs[before:]:
        o.rule = "R18-PICKLE"


def r_dtype_normalised(c):
    """np.float64, "float64", float and np.dtype("float64") are four spellings that
    compare equal as dtypes but are keyed (and hashed) differently.  A node only ever
    holds a np.dtype: wherever a function hands its own `dtype` parameter to a node
    constructor, the parameter went through np.dtype(...) first"""
    m = c.model
    n = 0
    node_classes = {short(q) for q in m.classes if "dtype" in (m.fields(q) or {})}
    for mi, fd in m.all_functions():
        params = [a.arg for a in fd.args.posonlyargs + fd.args.args + fd.args.kwonlyargs]
        if "dtype" not in params or fd.name.startswith("__"):
            continue
        norm = [a for a in ast.walk(fd) if isinstance(a, ast.Assign) and any(
            isinstance(t, ast.Name) and t.id == "dtype" for t in a.targets)
            and isinstance(a.value, ast.Call) and ast.unparse(a.value.func) in (
                "np.dtype", "numpy.dtype")]
        for call in ast.walk(fd):
            if not (isinstance(call, ast.Call) and isinstance(call.func, ast.Name)
                    and call.func.id in node_classes):
                continue
            for k in call.keywords:
                if k.arg == "dtype" and isinstance(k.value, ast.Name) and k.value.id == "dtype":
                    n += 1
                    ok = any(a.lineno < call.lineno for a in norm)
                    qn = m.qualname(fd).replace("pytato.", "", 1)
                    c.check(ok, "R18-STABLE", qn, f"dtype-normalised-before-{call.func.id}",
                            m.loc(mi, call),
                            f"the `dtype` parameter is handed to {call.func.id}(...) as given, "
                            "without np.dtype(dtype): np.float64 / 'float64' / float then "
                            "build nodes that are == to the np.dtype one but have another "
                            "persistent key and another hash")
    if n < 2:
        raise AnalysisError(f"only {n} constructor calls taking a dtype parameter found "
                            "(floor 2)")


SPEC = Spec(
    prop="C18",
    rules=[r_ndarray, r_closure, r_stable, r_pickle, r_no_dynamic_attrs,
           r_dtype_normalised],
    floors={"R18-NDARRAY": 5, "R18-CLOSURE": 35, "R18-STABLE": 5, "R18-PICKLE": 5},
    explanation=(
        "R18-NDARRAY: the attributes of the wrapped array that flow into the key "
        "builder in update_for_ndarray include its dtype, its shape and its bytes "
        "(in logical order: no tobytes(order=...)); device arrays go through that "
        "rule; the updater that applies to numpy scalars (PytatoKeyBuilder's, else "
        "the first up the MRO in the installed loopy/pytools sources) feeds the "
        "dtype. R18-CLOSURE: the transitive closure "
        "of field annotations starting from every node kind is computed; every "
        "reachable repository class is a dataclass (keyed field by field by "
        "pytools), an enum, or defines update_persistent_hash feeding all its "
        "compared fields whole (not only the values or only the keys of a mapping); "
        "no class of the expression tree defines __getattr__/__getattribute__ "
        "(the cached digest is looked up with getattr). Numpy integers are keyed "
        "like the Python int they equal. R18-STABLE: updaters for unordered "
        "containers do not feed their key in iteration order; no hash()/id()/repr() and no unordered iteration in "
        "any key updater; updaters write no class-level/global state; stateless "
        "reductions key/hash/compare by type. "
        "R18-PICKLE: the cached hash is not part of the pickled state (shared with "
        "C04). R18-NDARRAY also: numpy real and complex floats of ordinary width are "
        "keyed like the Python float/complex they equal (case-split table of the "
        "override). R18-STABLE also: 'key code' includes every method of a "
        "key-builder class (an overridden rec() as well); a function's own `dtype` "
        "parameter reaches a node constructor only after np.dtype(dtype)."),
    not_decided=(
        "Collision freedom of the digest function; behaviour of pytools'/loopy's own "
        "updaters (trusted base); user-supplied tag payloads."),
)
