"""C04 -- equality and hashing are a sound structural congruence.

(kind, field) enumeration of EqualityComparer handlers, hashes (generated and
hand-written) and the generated pickling state.
"""
from __future__ import annotations

import ast

from pta.check import Spec
from pta.flow import Flow, fmt_paths, paths_of
from pta.model import AnalysisError
from pta.rules.common import EQ, concrete_kinds, handler_name, short
from pta.tables.exemptions import EXEMPT

AUG = "pytato.array._augment_array_dataclass"


# ----------------------------------------------------------------- field sets
def embedded_class(m, kind, fname):
    """repo dataclass (not itself a node kind reachable by rec) embedded in a
    field, e.g. CSRMatmul.matrix -> CSRMatrix, send -> DistributedSend."""
    ann, _d, _kw, defcls = m.fields(kind)[fname]
    if not isinstance(ann, (ast.Name, ast.Attribute)):
        return None
    r = m.resolve_name(m.classes[defcls].module.name, ast.unparse(ann))
    if r in m.classes and m.is_dataclass(r) and m.ARRAY not in m.mro(r) \
            and m.NAMES not in m.mro(r) and r != m.FUNCDEF \
            and r.startswith("pytato.") and m.fields(r) \
            and r not in ("pytato.array.Axis", "pytato.array.ReductionDescriptor",
                          "pytato.array.NormalizedSlice"):
        return r
    return None


def required_paths(m, kind):
    """F(K) \\ {non_equality_tags} with embedded dataclasses expanded."""
    out = []
    for f in m.fields(kind):
        if f == "non_equality_tags":
            continue
        emb = embedded_class(m, kind, f)
        if emb:
            for g in m.fields(emb):
                if g != "non_equality_tags":
                    out.append((f, g))
        else:
            out.append((f,))
    return out


def hash_exclusions(m):
    """literal exclusion set of the generated hash."""
    fd = m.func(AUG)
    excl = set()
    for n in m.walk_scope(fd):      # the function and the private helpers it calls
        if isinstance(n, ast.Compare) and len(n.ops) == 1 \
                and isinstance(n.ops[0], ast.NotEq) \
                and ast.unparse(n.left).endswith(".name") \
                and isinstance(n.comparators[0], ast.Constant):
            excl.add(n.comparators[0].value)
    if not excl:
        raise AnalysisError("anchor vanished: hash exclusion test in "
                            "_augment_array_dataclass")
    return excl


def hash_provider(m, cls):
    """-> ('explicit', defcls, fd) | ('generated', defcls) | ('dataclass', defcls)
    | ('ext', base) | ('identity', None), following the MRO."""
    for c in m.mro(cls):
        ci = m.classes[c]
        if "__hash__" in ci.methods:
            return ("explicit", c, ci.methods["__hash__"])
        for d in ci.node.decorator_list:
            ds = ast.unparse(d)
            if ds.startswith("array_dataclass"):
                if ci.deco_kwargs().get("hash", "True") != "False":
                    return ("generated", c)
            elif ds.split("(")[0] in ("dataclasses.dataclass", "dataclass"):
                kw = ci.deco_kwargs()
                if kw.get("eq", "True") != "False" and (
                        kw.get("frozen") == "True" or kw.get("unsafe_hash") == "True"):
                    return ("dataclass", c)
            elif ds.startswith("opt_frozen_dataclass"):
                kw = ci.deco_kwargs()
                if kw.get("eq", "True") != "False":
                    return ("dataclass", c)
        for b in ci.bases:
            if b.startswith("EXT:") and b[4:].split(".")[-1] == "Taggable":
                # pytools.tag.Taggable.__hash__ = hash(self.tags)   (external summary)
                # only reached if no repo class earlier in the MRO provides one
                pass
    if "Taggable" in [b.split(".")[-1] for b in m.ext_bases(cls)]:
        return ("ext", "Taggable")
    return ("identity", None)


def hash_paths(m, kind, excl, flow, depth=0):
    """set of paths (tuples) entering hash(kind instance); None = identity."""
    hp = hash_provider(m, kind)
    if hp[0] == "identity":
        return set(), hp
    if hp[0] == "ext":
        return {("tags",)}, hp
    if hp[0] == "explicit":
        summ = flow.function(hp[2], kind, roots=(), owner=hp[1], selfcls=kind,
                             self_root="expr1")
        ps = {tuple(x for x in p if not x.startswith("@"))
              for p in summ.read_paths("expr1")}
        ps = {p for p in ps if p}
        # drop prefixes of longer paths
        return {p for p in ps if not any(q != p and q[:len(p)] == p for q in ps)}, hp
    flds = [f for f in m.fields(hp[1] if hp[0] == "generated" else kind)
            if f not in excl]
    out = set()
    for f in flds:
        emb = embedded_class(m, kind, f) if f in m.fields(kind) else None
        if emb and depth < 3:
            sub, _ = hash_paths(m, emb, excl, flow, depth + 1)
            out |= {(f,) + p for p in sub}
        else:
            out.add((f,))
    return out, hp


def eq_summary(m, flow, kind):
    mm = handler_name(m, EQ, kind, mro_fallback=_eq_has_mro_fallback(m))
    if mm is None:
        return None, None
    summ = flow.handler(mm, [kind, kind], roots=("expr1", "expr2"))
    return mm, summ


def _eq_has_mro_fallback(m):
    fd = m.func(EQ + ".rec")
    return "__mro__" in ast.unparse(fd)


def compared_paths(summ):
    """paths read on both roots (property markers removed, prefixes closed)."""
    def clean(root):
        ps = set()
        for p in summ.read_paths(root):
            q = tuple(x for x in p if not x.startswith("@"))
            if q:
                ps.add(q)
        return ps
    a, b = clean("expr1"), clean("expr2")
    return a & b, a, b


def is_identity_handler(fd):
    """handler of the form ``return expr1 is expr2``."""
    body = [s for s in fd.body if not (isinstance(s, ast.Expr)
                                        and isinstance(s.value, ast.Constant))]
    if len(body) == 1 and isinstance(body[0], ast.Return) \
            and isinstance(body[0].value, ast.Compare) \
            and len(body[0].value.ops) == 1 \
            and isinstance(body[0].value.ops[0], ast.Is):
        names = {a.arg for a in fd.args.args[1:3]}
        c = body[0].value
        return {ast.unparse(c.left), ast.unparse(c.comparators[0])} == names
    return False


def covered(path, E):
    """path is compared if it, or an extension of it, is read on both roots
    (reading expr.matrix.elem_values covers only that nested path; reading
    expr.send covers nothing of send by itself)."""
    return any(q[:len(path)] == path for q in E)


# ------------------------------------------------------------------------ rules
def r_exhaustive(c):
    m = c.model
    fallback = _eq_has_mro_fallback(m)
    for k in concrete_kinds(m):
        mm = handler_name(m, EQ, k, mro_fallback=fallback)
        ci = m.classes[k]
        c.check(mm is not None, "R04-EXHAUSTIVE", "EqualityComparer", short(k),
                m.loc(ci.module, ci.node),
                f"no handler {m.mapper_method(k)} for node kind {short(k)}: "
                "comparison raises NotImplementedError",
                ok_detail=f"handler {mm}")
    # rec checks class identity before dispatch
    rec = m.func(EQ + ".rec")
    ok = False
    for n in ast.walk(rec):
        if isinstance(n, ast.If) and isinstance(n.test, ast.Compare) \
                and isinstance(n.test.ops[0], (ast.IsNot, ast.NotEq)):
            t = ast.unparse(n.test)
            if ("__class__" in t or "type(" in t) and any(
                    isinstance(s, ast.Return) and ast.unparse(s.value) == "False"
                    for s in n.body):
                ok = True
    c.check(ok, "R04-EXHAUSTIVE", "EqualityComparer.rec", "class-identity-test",
            m.loc(m.module_of(rec), rec),
            "rec no longer returns False for operands of different classes "
            "before dispatching")
    # hash=False classes define their own __hash__; __eq__ only delegates
    for k in m.kinds(concrete_only=False):
        ci = m.classes[k]
        if any(ast.unparse(d).startswith("array_dataclass") for d in ci.node.decorator_list) \
                and ci.deco_kwargs().get("hash") == "False":
            c.check("__hash__" in ci.methods, "R04-EXHAUSTIVE", short(k),
                    "own-__hash__", m.loc(ci.module, ci.node),
                    "array_dataclass(hash=False) without a hand-written __hash__")
        if "__eq__" in ci.methods:
            fd = ci.methods["__eq__"]
            deleg = any(isinstance(n, ast.Return) and isinstance(n.value, ast.Call)
                        and "EqualityComparer" in ast.unparse(n.value.func)
                        for n in ast.walk(fd))
            c.check(deleg, "R04-EXHAUSTIVE", short(k), "__eq__-delegates",
                    m.loc(ci.module, fd),
                    "__eq__ does not delegate to EqualityComparer")


def r_eq_field(c):
    m = c.model
    flow = Flow(m, EQ, max_depth=8)
    excl = hash_exclusions(m)
    c.check(excl == {"non_equality_tags"}, "R04-NEQ", "_augment_array_dataclass",
            "hash-exclusion-set", m.loc(m.module_of(m.func(AUG)), m.func(AUG)),
            f"generated hash excludes {sorted(excl)}, expected exactly "
            "['non_equality_tags']")
    for k in concrete_kinds(m):
        mm, summ = eq_summary(m, flow, k)
        if summ is None:
            continue  # reported by R04-EXHAUSTIVE
        owner, _name, where = summ.where
        hname = f"EqualityComparer.{mm}"
        fd = m.resolve_method(EQ, mm)[1]
        identity = is_identity_handler(fd)
        E, r1, r2 = compared_paths(summ)
        # R04-NEQ
        neq_read = any("non_equality_tags" in p for p in (r1 | r2))
        c.check(not neq_read, "R04-NEQ", hname, short(k), where,
                "equality handler reads non_equality_tags")
        # R04-EQ-FIELD
        for path in required_paths(m, k):
            inst = f"{short(k)}.{'.'.join(path)}"
            ex = EXEMPT.get(("R04-EQ-FIELD", inst))
            if identity or covered(path, E):
                c.ok("R04-EQ-FIELD", hname, inst, where,
                     "identity comparison" if identity else "")
            elif ex:
                c.exempt("R04-EQ-FIELD", hname, inst, where, ex)
            else:
                c.violation(
                    "R04-EQ-FIELD", hname, inst, where,
                    f"field {'.'.join(path)} of {short(k)} is never compared: "
                    f"two nodes differing only there compare equal "
                    f"(compared on both operands: {fmt_paths(E)})",
                    facts={"compared": fmt_paths(E), "required": ".".join(path)})
        # R04-HASH-SUBSET
        H, hp = hash_paths(m, k, excl, flow)
        for path in sorted(H):
            inst = f"{short(k)}.{'.'.join(path)}"
            ex = EXEMPT.get(("R04-HASH-SUBSET", inst))
            if identity or covered(path, E):
                c.ok("R04-HASH-SUBSET", f"{short(k)}.__hash__", inst, where,
                     f"hash provider: {hp[0]}")
            elif ex:
                c.exempt("R04-HASH-SUBSET", f"{short(k)}.__hash__", inst, where, ex)
            else:
                c.violation(
                    "R04-HASH-SUBSET", f"{short(k)}.__hash__", inst, where,
                    f"{'.'.join(path)} enters hash({short(k)}) ({hp[0]} hash) but "
                    f"is not compared by {hname}: equal nodes can hash differently",
                    facts={"hash": fmt_paths(H), "compared": fmt_paths(E)})
        if any("non_equality_tags" in p for p in H):
            c.violation("R04-NEQ", f"{short(k)}.__hash__", short(k), where,
                        "non_equality_tags enters the hash")


def r_pairing(c):
    m = c.model
    flow = Flow(m, EQ, max_depth=8)
    for k in concrete_kinds(m):
        mm, summ = eq_summary(m, flow, k)
        if summ is None:
            continue
        hname = f"EqualityComparer.{mm}"
        n_inst = 0
        for (node, lv, rvs) in summ.compares:
            if len(rvs) != 1:
                continue
            rv = rvs[0]
            roots = {r for (r, _p, _f) in lv | rv}
            if not roots or not roots <= {"expr1", "expr2"}:
                continue
            if not (isinstance(node.ops[0], (ast.Eq, ast.NotEq, ast.Is, ast.IsNot))):
                continue
            n_inst += 1
            where = m.loc(m.module_of(node), node)
            l1, l2 = paths_of(lv, "expr1"), paths_of(lv, "expr2")
            r1, r2 = paths_of(rv, "expr1"), paths_of(rv, "expr2")
            # one-sided (compare against a constant/other value) is fine
            if not ((l1 or l2) and (r1 or r2)):
                c.ok("R04-PAIRING", hname, f"{short(k)}:{m.frag(node, 60)}", where,
                     nontrivial=False)
                continue
            ok = (l1 == r2 and l2 == r1) or (l1 == r1 and l2 == r2 and l1 and l2)
            c.check(ok, "R04-PAIRING", hname, f"{short(k)}:{m.frag(node, 60)}",
                    where,
                    f"comparison pairs different components of the two operands: "
                    f"left {fmt_paths(l1 | l2)} vs right {fmt_paths(r1 | r2)}")
        for e in summ.rec:
            if e.receiver != "self" or len(e.args) < 2:
                continue
            n_inst += 1
            a, b = e.args[0], e.args[1]
            where = m.loc(m.module_of(e.node), e.node)
            a1, a2 = paths_of(a, "expr1"), paths_of(a, "expr2")
            b1, b2 = paths_of(b, "expr1"), paths_of(b, "expr2")
            ok = (a1 == b2 and a2 == b1 and (a1 or a2))
            c.check(ok, "R04-PAIRING", hname,
                    f"{short(k)}:{m.frag(e.node, 60)}", where,
                    f"recursive comparison pairs different components: "
                    f"{fmt_paths(a1 | a2)} vs {fmt_paths(b1 | b2)}")
        # conjunction form
        fd = m.resolve_method(EQ, mm)[1]
        for n in ast.walk(fd):
            if isinstance(n, ast.Return) and isinstance(n.value, ast.BoolOp) \
                    and isinstance(n.value.op, ast.Or):
                c.violation("R04-PAIRING", hname, f"{short(k)}:disjunction",
                            m.loc(m.module_of(n), n),
                            "handler returns a disjunction: fields are no longer "
                            "all required to agree")


def r_memo_and_identity(c):
    m = c.model
    # R04-MEMO-KEY: the memo of pairwise comparisons is keyed on BOTH operands
    flow = Flow(m, EQ, max_depth=3)
    s = flow.handler("rec", [None, None], roots=("expr1", "expr2"))
    keyed = [e for e in s.keyed if e.key]
    if not keyed:
        raise AnalysisError("anchor vanished: memo table in EqualityComparer.rec")
    for e in keyed:
        roots = {r for (r, _p, _f) in e.key}
        c.check({"expr1", "expr2"} <= roots, "R04-MEMO-KEY", "EqualityComparer.rec",
                f"self.{e.attr}:{m.frag(e.node, 50)}", m.loc(m.module_of(e.node), e.node),
                f"memo key depends on {sorted(roots)} only: the cached verdict for "
                "(a, b) would be reused for (a, c)")
    # R04-HASH-IDENTITY: identity hash <=> identity equality
    excl = hash_exclusions(m)
    for k in concrete_kinds(m):
        hp = hash_provider(m, k)
        mm = handler_name(m, EQ, k, mro_fallback=_eq_has_mro_fallback(m))
        if mm is None:
            continue
        fd = m.resolve_method(EQ, mm)[1]
        ident_eq = is_identity_handler(fd)
        ident_hash = hp[0] == "identity" or (
            hp[0] == "explicit" and any(
                isinstance(n, ast.Return) and ast.unparse(n.value) == "id(self)"
                for n in ast.walk(hp[2])))
        if ident_hash or ident_eq:
            c.check(ident_hash == ident_eq or (ident_eq and not ident_hash and False),
                    "R04-HASH-IDENTITY", f"EqualityComparer.{mm}", short(k),
                    m.loc(m.module_of(fd), fd),
                    f"{short(k)} hashes by {'identity' if ident_hash else 'structure'} "
                    f"but compares by {'identity' if ident_eq else 'structure'}: equal "
                    "nodes can hash differently")


def r_hash_order(c):
    m = c.model
    for k in concrete_kinds(m):
        hp = hash_provider(m, k)
        if hp[0] != "explicit":
            continue
        fd = hp[2]
        where = m.loc(m.module_of(fd), fd)
        flds = m.fields(k)
        found = False
        for n in ast.walk(fd):
            if not (isinstance(n, ast.Call) and isinstance(n.func, ast.Name)
                    and n.args):
                continue
            a = n.args[0]
            base = a
            if isinstance(a, ast.Call) and isinstance(a.func, ast.Attribute) \
                    and a.func.attr in ("items", "keys", "values"):
                base = a.func.value
            if isinstance(base, ast.Attribute) and isinstance(base.value, ast.Name) \
                    and base.value.id == "self" and base.attr in flds:
                ann = ast.unparse(flds[base.attr][0])
                if any(t in ann for t in ("Mapping", "dict", "Dict")):
                    found = True
                    inst = f"{short(k)}.{base.attr}"
                    c.check(n.func.id in ("frozenset", "set", "sorted", "len"),
                            "R04-HASH-ORDER", f"{short(k)}.__hash__", inst,
                            m.loc(m.module_of(n), n),
                            f"hash aggregates mapping field {base.attr} with "
                            f"{n.func.id}(...), which depends on insertion order, "
                            "while equality compares it by key",
                            facts={"call": m.frag(n)})
        if not found:
            c.ok("R04-HASH-ORDER", f"{short(k)}.__hash__", short(k), where,
                 "no mapping-typed field aggregated", nontrivial=False)


def _augment_templates(m):
    """parse the code templates inside _augment_array_dataclass (f-string holes
    replaced by a placeholder identifier)."""
    fd = m.func(AUG)
    out = []
    for n in ast.walk(fd):
        if isinstance(n, ast.Call) and ast.unparse(n.func).endswith(
                "remove_common_indentation") and n.args:
            a = n.args[0]
            if isinstance(a, ast.JoinedStr):
                txt = "".join(v.value if isinstance(v, ast.Constant) else "HOLE_"
                              for v in a.values)
            elif isinstance(a, ast.Constant):
                txt = a.value
            else:
                continue
            import textwrap
            try:
                tree = ast.parse(textwrap.dedent(txt))
            except SyntaxError as e:
                raise AnalysisError(f"cannot parse augmentation template: {e}")
            # is the template under ``if generate_hash``?
            p = n
            guarded = False
            while p is not fd:
                p = p._parent
                if isinstance(p, ast.If) and "generate_hash" in ast.unparse(p.test):
                    guarded = True
            out.append((tree, guarded, n))
    if not out:
        raise AnalysisError("anchor vanished: augmentation templates")
    return out


def r_pickle(c):
    m = c.model
    fd = m.func(AUG)
    where = m.loc(m.module_of(fd), fd)
    tmpls = _augment_templates(m)
    all_fields = set()
    for k in m.kinds(concrete_only=False):
        all_fields |= set(m.fields(k))
    cache_w, cache_r = set(), set()
    hash_tmpl = None
    for tree, guarded, _n in tmpls:
        for f in ast.walk(tree):
            if isinstance(f, ast.FunctionDef) and f.name.endswith("_hash"):
                hash_tmpl = (tree, guarded)
                for n in ast.walk(f):
                    if isinstance(n, ast.Call) and ast.unparse(n.func) in (
                            "object.__setattr__", "setattr") and len(n.args) == 3 \
                            and isinstance(n.args[1], ast.Constant):
                        cache_w.add(n.args[1].value)
                    if isinstance(n, ast.Attribute) and isinstance(n.value, ast.Name) \
                            and n.value.id == "self" and isinstance(n.ctx, ast.Load) \
                            and n.attr.startswith("_"):
                        cache_r.add(n.attr)
    if hash_tmpl is None:
        raise AnalysisError("anchor vanished: generated hash function template")
    c.check(len(cache_w) == 1 and cache_w == cache_r, "R04-PICKLE",
            "generated __hash__", "cache-attr-agreement", where,
            f"hash cache written as {sorted(cache_w)} but read as {sorted(cache_r)}")
    for a in sorted(cache_w):
        c.check(a not in all_fields, "R04-PICKLE", "generated __hash__",
                f"cache-attr-not-a-field:{a}", where,
                f"hash cache attribute {a} is a dataclass field of some node kind "
                "and would be pickled / compared")
    tree, guarded = hash_tmpl
    gs = ss = None
    assigns = {}
    for n in ast.walk(tree):
        if isinstance(n, ast.Assign) and isinstance(n.targets[0], ast.Attribute) \
                and ast.unparse(n.targets[0].value) == "cls":
            assigns[n.targets[0].attr] = ast.unparse(n.value)
    fdefs = {f.name: f for f in ast.walk(tree) if isinstance(f, ast.FunctionDef)}
    gs = fdefs.get(assigns.get("__getstate__", ""))
    ss = fdefs.get(assigns.get("__setstate__", ""))
    c.check(gs is not None and ss is not None, "R04-PICKLE", "generated class",
            "getstate-setstate-installed-with-hash-cache", where,
            "the template that installs the caching __hash__ no longer installs "
            "__getstate__/__setstate__: the cached hash would be pickled")
    if gs is not None:
        src = ast.unparse(gs)
        bad = [t for t in ("__dict__", "vars(", *cache_w) if t in src]
        iter_fields = any(isinstance(n, ast.Call) and ast.unparse(n.func) == "fields"
                          for n in ast.walk(gs))
        c.check(not bad and iter_fields, "R04-PICKLE", "generated __getstate__",
                "state-is-fields-only", where,
                f"__getstate__ may export non-field state ({bad or 'does not iterate fields()'})")
    if ss is not None:
        src = ast.unparse(ss)
        ok = all("fields" in ast.unparse(n.iter) for n in ast.walk(ss)
                 if isinstance(n, ast.For)) and "__dict__" not in src \
            and any(isinstance(n, ast.For) for n in ast.walk(ss))
        writes = [n for n in ast.walk(ss) if isinstance(n, ast.Call)
                  and ast.unparse(n.func) in ("object.__setattr__", "setattr")]
        ok = ok and all(not isinstance(w.args[1], ast.Constant) for w in writes) \
            and bool(writes)
        c.check(ok, "R04-PICKLE", "generated __setstate__", "writes-fields-only",
                where, "__setstate__ writes something other than the fields")
    # hand-written hashes must not cache on the instance
    for k in concrete_kinds(m):
        hp = hash_provider(m, k)
        if hp[0] == "explicit":
            src = ast.unparse(hp[2])
            caches = "__setattr__" in src or any(
                isinstance(n, ast.Assign) and any(
                    isinstance(t, ast.Attribute) and isinstance(t.value, ast.Name)
                    and t.value.id == "self" for t in n.targets)
                for n in ast.walk(hp[2]))
            has_gs = m.resolve_method(k, "__getstate__") is not None
            c.check((not caches) or has_gs, "R04-PICKLE", f"{short(k)}.__hash__",
                    "no-unpickled-hash-cache", m.loc(m.module_of(hp[2]), hp[2]),
                    "hand-written __hash__ caches on the instance but the class "
                    "has no __getstate__ dropping the cache")


def r_state(c):
    """comparison must not depend on what was compared before: no memo / cache of
    the comparer (keyed by id(), i.e. by addresses that are reused once objects
    die) may outlive the comparison it was created for"""
    from pta.rules.common import check_no_shared_state
    check_no_shared_state(
        c, "R04-STATE", ["pytato.equality", "pytato.array", "pytato.function", "pytato.loopy",
                         "pytato.distributed.nodes"],
        "the answer of == depends on which objects were compared earlier in the process "
        "(an id()-keyed entry survives the objects it was made for)")

STRUCTURAL_CALLS = {"zip", "len", "all", "any", "isinstance", "frozenset", "set", "type",
                    "sorted", "tuple", "list", "enumerate", "getattr", "id", "dict"}


def r_foreign_predicate(c):
    """fields are compared with == / the memoised recursion, which is what the hash
    is computed from; a semantic predicate (affine shape equality, np.array_equal,
    allclose, ...) equates values that hash differently"""
    m = c.model
    ci = m.cls(EQ)
    n = 0
    for mn, fd in sorted(ci.methods.items()):
        if not (mn.startswith("map_") or mn.startswith("_map_") or mn.startswith("handle_")):
            continue
        ps = [a.arg for a in fd.args.args[1:3]]
        if len(ps) < 2:
            continue
        n += 1
        p1, p2 = ps

        def rooted(e, ps_):
            return any(isinstance(x, ast.Name) and x.id in ps_ for x in ast.walk(e))
        bad = []
        mi_ = m.module_of(fd)

        def scan(f_, s1, s2, depth):
            """s1/s2: names rooted in the first/second operand.  A private helper
            of this module or class that receives both is part of the handler: its
            body is held to the same rule, with its own parameter names"""
            f_ = m.inlined(f_)
            for call in ast.walk(f_):
                if not isinstance(call, ast.Call):
                    continue
                f = ast.unparse(call.func)
                args = list(call.args) + [k.value for k in call.keywords]
                both = any(rooted(a, s1) for a in args) and any(rooted(a, s2) for a in args)
                tgt = m._private_target(call, f_, mi_, ci) if both else None
                if tgt is not None and depth < 2:
                    bind = m._bind_args(call, tgt) or {}
                    t1 = {k for k, v in bind.items() if rooted(v, s1) and not rooted(v, s2)}
                    t2 = {k for k, v in bind.items() if rooted(v, s2) and not rooted(v, s1)}
                    if t1 and t2:
                        scan(tgt, t1, t2, depth + 1)
                        continue
                if f.startswith("self.") or f.split(".")[-1] in STRUCTURAL_CALLS \
                        or f.startswith("super()"):
                    continue
                if both:
                    bad.append(call)
        scan(fd, {p1}, {p2}, 0)
        c.check(not bad, "R04-PAIRING", f"EqualityComparer.{mn}",
                "compares-structurally-not-by-predicate", m.loc(ci.module, fd),
                f"`{m.frag(bad[0], 70) if bad else ''}` decides (part of) the comparison "
                "of the two operands by a predicate other than == / self.rec: values it "
                "equates (e.g. shapes n+m and m+n) still hash differently, so equal "
                "expressions get different hashes")
    if n < 17:
        raise AnalysisError(f"only {n} comparison handlers scanned (floor 17)")


def r_nan(c):
    """a NaN scalar never enters an expression tree raw (NaN != NaN would make an
    expression unequal to its own copy): the test that routes scalars to the
    symbolic NaN node applies to EVERY scalar, not to some scalar types"""
    m = c.model
    from pta.pat import find
    fd = m.func("pytato.utils.update_bindings_and_get_broadcasted_expr")
    where = m.loc("pytato.utils", fd)
    ap = fd.args.args[0].arg
    sc = [i for i in fd.body if isinstance(i, ast.If)
          and ast.unparse(i.test) == f"isinstance({ap}, SCALAR_CLASSES)"]
    if len(sc) != 1:
        raise AnalysisError("anchor vanished: scalar branch of "
                            "update_bindings_and_get_broadcasted_expr")
    nan_ifs = [i for i in sc[0].body if isinstance(i, ast.If) and any(
        isinstance(r, ast.Return) and isinstance(r.value, ast.Call)
        and ast.unparse(r.value.func).split(".")[-1] == "NaN" for r in ast.walk(i))]
    ok = False
    if len(nan_ifs) == 1:
        t = ast.unparse(nan_ifs[0].test)
        ok = t in (f"np.isnan({ap})", f"numpy.isnan({ap})", f"{ap} != {ap}",
                   f"math.isnan({ap})", f"cmath.isnan({ap})")
        # every raw `return <scalar>` of the branch is in the else of that test
        raw = [r for r in ast.walk(sc[0]) if isinstance(r, ast.Return)
               and ast.unparse(r.value) == ap]
        ok = ok and all(any(r is x for s_ in nan_ifs[0].orelse for x in ast.walk(s_))
                        for r in raw)
    c.check(ok, "R04-NAN", "utils.update_bindings_and_get_broadcasted_expr",
            "every-nan-scalar-becomes-the-symbolic-node", where,
            "the NaN test in front of `return <scalar>` is not a plain isnan of the scalar "
            f"(`{ast.unparse(nan_ifs[0].test) if nan_ifs else None}`): NaNs of the scalar "
            "types it leaves out (np.float32, complex, ...) stay raw in IndexLambda.expr, "
            "and an expression containing one is not equal to its own rebuilt or unpickled "
            "copy")


def r_handwritten_hash_cache(c):
    """what holds for the generated hash of the array classes (R04-PICKLE) holds for
    every hand-written one: a __hash__ that stores its value on the instance belongs
    to a class whose __getstate__ drops it.  Hashes of strings depend on the hash seed;
    a cached one that travels in a pickle makes an object equal to a rebuilt one and
    hash differently in the process that loads it"""
    from pta.rules.common import check_no_pickled_hash_cache
    n = check_no_pickled_hash_cache(
        c, "R04-PICKLE", ["pytato"],
        "after unpickling under another PYTHONHASHSEED the object is equal to a rebuilt "
        "one but hashes differently: dict/set lookups and deduplication miss")
    c.ok("R04-PICKLE", "pytato.*", f"{n} classes with a hand-written __hash__ scanned",
         "pytato/", nontrivial=False)
    if n < 3:
        raise AnalysisError(f"only {n} hand-written __hash__ methods found (floor 3)")


SPEC = Spec(
    prop="C04",
    rules=[r_exhaustive, r_eq_field, r_pairing, r_memo_and_identity, r_hash_order,
           r_pickle, r_state, r_foreign_predicate, r_nan, r_handwritten_hash_cache],
    floors={"R04-EXHAUSTIVE": 20, "R04-EQ-FIELD": 74, "R04-HASH-SUBSET": 67,
            "R04-PAIRING": 80, "R04-PICKLE": 5, "R04-HASH-ORDER": 2, "R04-NEQ": 16,
            "R04-MEMO-KEY": 1, "R04-HASH-IDENTITY": 1, "R04-STATE": 3, "R04-NAN": 1},
    explanation=(
        "Static (kind, field) enumeration over /repo/pytato: for every concrete "
        "node kind K the EqualityComparer handler the dispatcher would select is "
        "analysed by an access-path flow analysis with two roots; R04-EQ-FIELD "
        "requires every dataclass field of K except non_equality_tags (embedded "
        "CSRMatrix/DistributedSend expanded) to be read on BOTH operands; "
        "R04-HASH-SUBSET requires every path entering hash(K) (generated from the "
        "field list, inherited from pytools Taggable, or hand-written) to be among "
        "the compared paths (equal => equal hash); R04-PAIRING requires each "
        "comparison/recursion to pair the same path on both operands and handlers "
        "to be conjunctions; R04-HASH-ORDER forbids order-dependent aggregation of "
        "mapping fields in hand-written hashes; R04-NEQ keeps non_equality_tags out "
        "of both; R04-PICKLE checks the generated __getstate__/__setstate__ carry "
        "fields only and the hash cache attribute is not a field; R04-EXHAUSTIVE "
        "checks every kind has a handler and __eq__ only delegates; R04-MEMO-KEY: "
        "the memo of pairwise comparisons is keyed on both operands; "
        "R04-HASH-IDENTITY: a kind hashed by identity is compared by identity. "
        "R04-PAIRING also requires every handler to compare the two operands by == "
        "or the memoised recursion, never by a semantic predicate "
        "(are_shapes_equal, ...), because the hash is structural. R04-STATE: the "
        "comparer and the node classes keep no state that outlives a call (mutable "
        "default arguments, class-level or module-level containers that are "
        "mutated): an id()-keyed memo that survives its objects answers for "
        "others (canary fixture). R04-NAN: the test that routes NaN scalars to the "
        "symbolic NaN node is a plain isnan of the scalar, not narrowed to some "
        "scalar types. R04-PICKLE also: every hand-written __hash__ of the package "
        "that stores its value on the instance sits in a class with a __getstate__."),
    not_decided=(
        "Transitivity through third-party __eq__ of leaf values (numpy dtypes, "
        "loopy translation units, pymbolic expressions); that every pair of "
        "structurally different DAGs compares unequal at run time (follows from the "
        "field-set agreement given the leaves, not measured); cross-process pickle "
        "behaviour of third-party payloads."),
)
