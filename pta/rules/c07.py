"""C07 -- tags carry no semantics; implementation strategies are equivalent."""
from __future__ import annotations

import ast

from pta import paths as P
from pta.check import Spec
from pta.model import AnalysisError
from pta.pat import find, has, th, tfind, kwarg
from pta.rules.common import CGM, short

LC = "pytato.target.loopy.codegen"
IR = LC + ".ImplementedResult"


CTX_REVIEWED = {
    "add_substitution":
        "a substitution rule is no instruction: nothing can be ordered after it. What "
        "the context collects here is exactly the depends_on the InlinedResult was "
        "created with, and map_index_lambda hands that same set to the "
        "SubstitutionRuleResult it creates next (R07-STRATEGY: derived from the one "
        "generated expression, built with prstnt_ctx.depends_on)",
}


def r_depends(c):
    m = c.model
    subs = [q for q in m.subclasses(IR, strict=True)]
    if len(subs) < 2:
        raise AnalysisError(f"only {len(subs)} ImplementedResult subclasses found")
    for q in subs:
        r = m.resolve_method(q, "to_loopy_expression")
        ci = m.classes[q]
        if r is None or r[0] == IR:
            c.violation("R07-DEPENDS", short(q), "implements-to_loopy_expression",
                        m.loc(ci.module, ci.node), "no to_loopy_expression")
            continue
        fd = r[1]
        ctx = fd.args.args[2].arg

        def cl(n, ctx=ctx):
            if isinstance(n, ast.Call) and ast.unparse(n.func) == f"{ctx}.update_depends_on" \
                    and n.args and ast.unparse(n.args[0]) == "self.depends_on":
                return "DEP"
            return None
        ps = P.walk(fd, cl)
        bad = P.must_pass(ps, "DEP")
        c.check(not bad, "R07-DEPENDS", f"{short(q)}.to_loopy_expression",
                "propagates-depends_on-on-every-path", m.loc(ci.module, fd),
                "a path returns the loopy expression without adding self.depends_on to "
                "the expression context: an instruction reading this result is not "
                "ordered after the store that produces it (shows only under this "
                "implementation strategy)")
        # the result carries depends_on as given to its constructor
        init = m.resolve_method(q, "__init__")
        if init is not None and init[0] == q:
            c.check(any(e["$a"] in [x.arg for x in init[1].args.args]
                        for e in find(init[1], "$s.depends_on = $a")), "R07-DEPENDS",
                    f"{short(q)}.__init__", "stores-depends_on", m.loc(ci.module, init[1]),
                    "the result does not keep the dependencies it was created with")
        else:
            c.check("depends_on" in m.fields(q), "R07-DEPENDS", short(q),
                    "has-depends_on-field", m.loc(ci.module, ci.node),
                    "the result has no depends_on")
    # a result that stands for generated code carries the dependencies collected
    # while generating it; only inputs (no producing instruction) start empty
    n_sites = 0
    names = {short(q) for q in subs}
    for _mi, fd in m.all_functions(modules=[LC]):
        if m.enclosing_function(fd) is not None:
            continue
        for call in ast.walk(fd):
            if isinstance(call, ast.Call) and ast.unparse(call.func) in names:
                dep = None
                if len(call.args) >= 3:
                    dep = call.args[2]
                for k in call.keywords:
                    if k.arg == "depends_on":
                        dep = k.value
                if dep is None:
                    continue
                n_sites += 1
                empty = ast.unparse(dep) in ("frozenset()", "frozenset([])", "frozenset(())")
                from pta.rules.common import only_called_from
                is_input = only_called_from(m, fd, ("map_placeholder", "map_size_param"))
                c.check((not empty) or is_input, "R07-DEPENDS",
                        m.qualname(fd).replace("pytato.", "", 1),
                        f"{ast.unparse(call.func)}:depends_on={m.frag(dep, 30)}",
                        m.loc(LC, call),
                        f"{ast.unparse(call.func)} for generated code is created with an "
                        "empty dependency set: consumers of this result are not ordered "
                        "after the stores its expression reads")
    if n_sites < 5:
        raise AnalysisError(f"only {n_sites} ImplementedResult constructions found")
    # consumers hand the context's dependencies to the instruction they create
    for fn in ("add_store",):
        fd = m.func(f"{LC}.{fn}")
        ctxs = find(fd, "$cv = PersistentExpressionContext($st)")
        if len(ctxs) != 1:
            raise AnalysisError(f"anchor vanished: expression context in {fn}")
        cv = ctxs[0]["$cv"]
        res = fd.args.args[3].arg if len(fd.args.args) > 3 else "?"
        ok = has(fd, f"{res}.to_loopy_expression($$_, {cv})") and any(
            isinstance(x, ast.Call) and ast.unparse(x.func).endswith("make_assignment")
            and any(k.arg == "depends_on" and ast.unparse(k.value) == f"{cv}.depends_on"
                    for k in x.keywords) for x in ast.walk(fd))
        c.check(ok, "R07-DEPENDS", fn, "instruction-depends-on-context", m.loc(LC, fd),
                "the store instruction's depends_on is not the dependency set collected "
                "by the same context that generated its right-hand side")
    # every function that asks an ImplementedResult for its loopy expression under
    # a context of its own reads that context's dependencies afterwards, on every
    # path (and hands them to the instruction / result it creates)
    n_ctx = 0
    for _mi, fd in m.all_functions(modules=[LC]):
        if m.enclosing_function(fd) is not None:
            continue
        for e in find(fd, "$cv = PersistentExpressionContext($st)"):
            cv = e["$cv"]

            def cl(n, cv=cv):
                if isinstance(n, ast.Call) and isinstance(n.func, ast.Attribute) \
                        and n.func.attr == "to_loopy_expression" \
                        and any(isinstance(a, ast.Name) and a.id == cv for a in n.args):
                    return "USE"
                if isinstance(n, ast.Attribute) and n.attr == "depends_on" \
                        and isinstance(n.value, ast.Name) and n.value.id == cv:
                    return "READ"
                return None
            ps = P.walk(fd, cl)
            if not any("USE" in ev for ev, _x in ps):
                continue
            n_ctx += 1
            bad = [ev for ev, x in ps if x != "raise" and "USE" in ev
                   and "READ" not in ev[len(ev) - 1 - ev[::-1].index("USE"):]]
            if fd.name in CTX_REVIEWED:
                c.exempt("R07-DEPENDS", m.qualname(fd).replace("pytato.", "", 1),
                         f"{cv}:dependencies-read-after-every-use", m.loc(LC, e["@node"]),
                         CTX_REVIEWED[fd.name])
                continue
            c.check(not bad, "R07-DEPENDS", m.qualname(fd).replace("pytato.", "", 1),
                    f"{cv}:dependencies-read-after-every-use", m.loc(LC, e["@node"]),
                    f"a path asks a result for its loopy expression under `{cv}` and never "
                    f"reads `{cv}.depends_on` afterwards: the instruction that uses the "
                    "expression is not ordered after the stores it reads (a 0-d array "
                    "passed as a scalar argument of a loopy call, say)")
    if n_ctx < 2:
        raise AnalysisError(f"only {n_ctx} expression contexts with uses found (floor 2)")
    # PersistentExpressionContext.update_depends_on accumulates (union)
    ud = m.func(LC + ".PersistentExpressionContext.update_depends_on")
    c.check(has(ud, "$s._depends_on = $s._depends_on | $o")
            or has(ud, "$s._depends_on = $o | $s._depends_on")
            or has(ud, "$s._depends_on |= $o"),
            "R07-DEPENDS", "PersistentExpressionContext.update_depends_on", "accumulates",
            m.loc(LC, ud), "dependencies are replaced instead of accumulated")


def r_strategy(c):
    m = c.model
    fd = m.func(CGM + ".map_index_lambda")
    where = m.loc(LC, fd)
    # the one generated expression
    # <ctx> = PersistentExpressionContext(state); <le> = self.exprgen_mapper(expr.expr, <ctx>, ..)
    # <result> = InlinedResult(<le>, .., <ctx>.depends_on)
    gen = find(fd, "$le = $s.exprgen_mapper($il, $ctx, $$_)")
    pctx = {e["$cv"] for e in find(fd, "$cv = PersistentExpressionContext($st)")}
    base = [e for e in find(fd, "$rv = InlinedResult($le, $$_, $ctx.depends_on)")
            if any(g["$le"] == e["$le"] and g["$ctx"] == e["$ctx"] and g["$ctx"] in pctx
                   for g in gen)]
    c.check(len(base) == 1, "R07-STRATEGY",
            "CodeGenMapper.map_index_lambda", "one-generated-expression", where,
            "there is not exactly one InlinedResult(loopy_expr, ..., depends_on of the "
            "generating context) the strategies start from")
    if len(base) != 1:
        return
    rv = base[0]["$rv"]
    # the strategy chain: if / elif ... else
    # store_result is decided by the stored tag or by necessity only
    sr = find(fd, "$sr = $$a or $$b or $e.tags_of_type(ImplStored)") \
        + find(fd, "$sr = $$a or $e.tags_of_type(ImplStored)") \
        + find(fd, "$sr = $e.tags_of_type(ImplStored) or $$a") \
        + find(fd, "$sr = bool($e.tags_of_type(ImplStored))")
    sr = [e for e in sr if e["$e"] == fd.args.args[1].arg]
    c.check(len(sr) == 1,
            "R07-STRATEGY", "CodeGenMapper.map_index_lambda", "stored-iff-tag-or-needed",
            where, "storing is no longer triggered by the ImplStored tag")
    srv = sr[0]["$sr"] if sr else "store_result"
    chain = None
    for iff in ast.walk(fd):
        if isinstance(iff, ast.If) and ast.unparse(iff.test) == srv:
            chain = iff
    if chain is None:
        raise AnalysisError("anchor vanished: implementation strategy chain")
    arms = []
    cur = chain
    while True:
        arms.append((ast.unparse(cur.test), cur.body))
        if len(cur.orelse) == 1 and isinstance(cur.orelse[0], ast.If):
            cur = cur.orelse[0]
        else:
            arms.append(("<else>", cur.orelse))
            break
    seen = set()
    for test, body in arms:
        src = " ".join(ast.unparse(s) for s in body)
        inst = test[:50]
        reassigns = [s for s in body for x in ast.walk(s) if isinstance(x, ast.Assign)
                     and any(isinstance(t, ast.Name) and t.id == rv for t in x.targets)]
        if "ImplementationStrategy" in test and "Impl" not in test.replace(
                "ImplementationStrategy", ""):
            c.check(any(isinstance(s, ast.Raise) for s in body), "R07-STRATEGY",
                    "CodeGenMapper.map_index_lambda", "unknown-strategy-raises", where,
                    "an unknown implementation strategy falls through instead of raising")
            continue
        if reassigns:
            # the new result must be built from the old one
            uses_old = any(
                isinstance(x, ast.Call) and ast.unparse(x.func) in ("add_store", "add_substitution")
                and any(isinstance(a, ast.Name) and a.id == rv for a in x.args)
                for s in body for x in ast.walk(s))
            c.check(uses_old, "R07-STRATEGY", "CodeGenMapper.map_index_lambda",
                    f"{inst}:derived-from-generated-expression", where,
                    f"the result for branch `{test}` is not produced from the generated "
                    "expression (add_store/add_substitution of the InlinedResult)")
        else:
            c.ok("R07-STRATEGY", "CodeGenMapper.map_index_lambda",
                 f"{inst}:keeps-inlined-result", where)
        seen.add(test)
    # after the chain the result is cached and returned
    ep, sp = fd.args.args[1].arg, fd.args.args[2].arg
    c.check(has(fd, f"{sp}.results[{ep}] = {rv}") and isinstance(fd.body[-1], ast.Return)
            and ast.unparse(fd.body[-1].value) == rv,
            "R07-STRATEGY", "CodeGenMapper.map_index_lambda", "result-cached-and-returned",
            where, "the implemented result is not recorded in state.results and returned")
    for need in ("ImplInlined", "ImplSubstitution"):
        c.check(any(need in t for t, _b in arms), "R07-STRATEGY",
                "CodeGenMapper.map_index_lambda", f"handles:{need}", where,
                f"no branch for {need}")
    # the result of a named entry is looked up under the container's own entry,
    # not under the (possibly tagged) NamedArray object at hand
    na = m.func(CGM + ".map_named_array")
    ep, sp = na.args.args[1].arg, na.args.args[2].arg
    c.check(has(na, f"{sp}.results[{ep}._container[{ep}.name]]"), "R07-STRATEGY",
            "CodeGenMapper.map_named_array", "result-looked-up-under-container-entry",
            m.loc(LC, na),
            "the result of a named array is looked up under the NamedArray object itself: "
            "a tagged copy of the entry is not found (tags change whether code "
            "generation succeeds)")
    # outputs: ImplStored stripped (no redundant store/load), inputs untouched
    g = m.func(LC + ".generate_loopy")
    strip = find(g, "$o.without_tags(ImplStored(), verify_existence=False)"
                    " if not isinstance($o, InputArgumentBase) else $o") \
        + find(g, "$o if isinstance($o, InputArgumentBase) else "
                  "$o.without_tags(ImplStored(), verify_existence=False)")
    c.check(len(strip) == 1, "R07-STRATEGY",
            "generate_loopy", "stored-tag-stripped-from-outputs", m.loc(LC, g),
            "ImplStored is no longer stripped from (non-input) outputs")


EXPR_PRODUCERS_MODULES = [
    "pytato.transform.lower_to_index_lambda", "pytato.raising", "pytato.utils",
    "pytato.pad", "pytato.cmath", "pytato.reductions", "pytato.array",
    "pytato.target.python.numpy_like", "pytato.scalar_expr",
]
TAG_TESTS = ("tags_of_type",)
ALLOWED_TAG_DEPENDENCE = {
    ("transform.lower_to_index_lambda.ToIndexLambdaMixin.map_contiguous_advanced_index",
     "AssumeNonNegative"):
        "documented promise tag: the caller asserts the index array is non-negative, "
        "which only removes the wrap-around modulo (outside the property's quantifier)",
    ("transform.lower_to_index_lambda.ToIndexLambdaMixin.map_non_contiguous_advanced_index",
     "AssumeNonNegative"): "same as map_contiguous_advanced_index",
}


def r_lowering_tags(c):
    """no tag-dependent control flow in code that produces scalar expressions"""
    m = c.model
    n_funcs = 0
    for mi, fd in m.all_functions(modules=[x for x in EXPR_PRODUCERS_MODULES
                                            if x in m.modules]):
        if m.enclosing_function(fd) is not None:
            continue
        src = ast.unparse(fd)
        produces = ("prim." in src or "IndexLambda(" in src or "ast.Call(" in src
                    or "Reduce(" in src)
        has_tag_test = any(isinstance(x, ast.Call) and isinstance(x.func, ast.Attribute)
                           and x.func.attr in TAG_TESTS for x in ast.walk(fd))
        # helpers that only COMPUTE a tag test (returned to a producer) count too
        if not produces and not has_tag_test:
            continue
        n_funcs += 1
        qn = m.qualname(fd).replace("pytato.", "", 1)
        for n in ast.walk(fd):
            tagref = None
            if isinstance(n, ast.Call) and isinstance(n.func, ast.Attribute) \
                    and n.func.attr in TAG_TESTS:
                tagref = ast.unparse(n.args[0]) if n.args else "?"
            elif isinstance(n, ast.Call) and ast.unparse(n.func) == "isinstance" \
                    and len(n.args) == 2 and ast.unparse(n.args[0]) in ("tag", "t") \
                    and "Tag" in ast.unparse(n.args[1]):
                tagref = ast.unparse(n.args[1])
            if tagref is None:
                continue
            # used in control flow, or handed back to the caller (a helper whose
            # result the caller branches on)?
            p = n
            ctrl = False
            per_item = False
            while p is not None and p is not fd:
                par = getattr(p, "_parent", None)
                if isinstance(par, (ast.If, ast.IfExp, ast.While)) and par.test is p:
                    ctrl = True
                    # the documented promise is per index: the test sits directly in
                    # the `if` of the branch that lowers THAT index (receiver = the
                    # loop variable), not in an any()/all() over all of them
                    per_item = isinstance(n.func, ast.Attribute) \
                        and isinstance(n.func.value, ast.Name) and p is n or (
                            isinstance(p, ast.UnaryOp) and p.operand is n)
                if isinstance(par, (ast.Return, ast.Assign, ast.comprehension)) \
                        or (isinstance(par, ast.Call) and ast.unparse(par.func) in ("any", "all")):
                    ctrl = True
                p = par
            if not ctrl:
                continue
            why = ALLOWED_TAG_DEPENDENCE.get((qn, tagref.split(".")[-1])) if per_item else None
            inst = f"{tagref}:{m.frag(n, 40)}"
            if why:
                c.exempt("R07-LOWERING-TAGS", qn, inst, m.loc(mi, n), why)
            else:
                c.violation(
                    "R07-LOWERING-TAGS", qn, inst, m.loc(mi, n),
                    f"the scalar expression produced by {qn} depends on whether the "
                    f"node carries tag {tagref}: tags must not carry semantic "
                    "information (doc/design.rst)")
        c.ok("R07-LOWERING-TAGS", qn, "scanned", m.loc(mi, fd), nontrivial=False)
    if n_funcs < 28:
        raise AnalysisError(f"only {n_funcs} expression-producing functions found")


def r_tagapi(c):
    """tag-changing APIs preserve every non-tag field (shared with C05)"""
    from pta.rules.c05 import r_tagonly
    before = len(c.obs)
    r_tagonly(c)
    for o in c.obs[before:]:
        o.rule = "R07-TAGAPI"
    # Array.tagged / without_tags go through _with_new_tags -> replace(self, tags=...)
    m = c.model
    for cls in ("pytato.array._SuppliedAxesAndTagsMixin", "pytato.array.Axis",
                "pytato.array.ReductionDescriptor", "pytato.function.FunctionDefinition",
                "pytato.function.Call", "pytato.distributed.nodes.DistributedSend"):
        ci = m.cls(cls)
        fd = ci.methods.get("_with_new_tags")
        ok = fd is not None and any(
            isinstance(r, ast.Return) and ast.unparse(r.value) in (
                "dataclasses.replace(self, tags=tags)", "replace(self, tags=tags)")
            for r in ast.walk(fd))
        c.check(ok, "R07-TAGAPI", f"{short(cls)}._with_new_tags", "replaces-only-tags",
                m.loc(ci.module, fd if fd is not None else ci.node),
                "_with_new_tags does more than replace the tags field")
    wa = m.func("pytato.array.Array.with_tagged_axis")
    c.check(th(wa, "self.copy(axes=(*self.axes[:iaxis], new_axis, *self.axes[iaxis + 1:]))")
            and th(wa, "new_axis = self.axes[iaxis].tagged(tags)"),
            "R07-TAGAPI", "Array.with_tagged_axis",
            "replaces-only-that-axis", m.loc(m.module_of(wa), wa),
            "with_tagged_axis does not rebuild the axes tuple with exactly one axis "
            "replaced")


def r_tagapi_splice(c):
    """the axis-tagging API replaces exactly one axis for every accepted position"""
    from pta.rules.c03 import _nonneg_proof, splice_sites
    m = c.model
    wa = m.func("pytato.array.Array.with_tagged_axis")
    sites = [s_ for s_ in splice_sites(m, modules=["pytato.array"]) if s_[1] is wa]
    if len(sites) != 1:
        raise AnalysisError("anchor vanished: axes splice in Array.with_tagged_axis")
    mi, fd, var, node = sites[0]
    why = _nonneg_proof(m, fd, var, node)
    c.check(why is not None, "R07-TAGAPI", "Array.with_tagged_axis",
            "position-non-negative-at-splice", m.loc(mi, node),
            f"the axes tuple is rebuilt as axes[:{var}] + (new,) + axes[{var}+1:] without "
            f"{var} being validated/normalised: with_tagged_axis(-1, tag) returns a node "
            "with more axes than dimensions, for which code generation fails (a tag "
            "changes whether the program compiles)", ok_detail=why)


SPEC = Spec(
    prop="C07",
    rules=[r_depends, r_strategy, r_lowering_tags, r_tagapi, r_tagapi_splice],
    floors={"R07-DEPENDS": 15, "R07-STRATEGY": 8, "R07-LOWERING-TAGS": 36,
            "R07-TAGAPI": 40},
    explanation=(
        "R07-DEPENDS (sibling must-call): every ImplementedResult subclass's "
        "to_loopy_expression passes through expr_context.update_depends_on("
        "self.depends_on) on every path to a return (statement-path walker), keeps "
        "the dependencies it was built with, and add_store hands the dependencies "
        "of the generating context to the instruction. R07-STRATEGY: every "
        "implementation-strategy branch of CodeGenMapper.map_index_lambda derives "
        "its result from the one generated expression, an unknown strategy raises, "
        "the result is cached; ImplStored is stripped from outputs. "
        "R07-LOWERING-TAGS: inventory of tag-dependent control flow in "
        "expression-producing functions (lowering, raising, front end, Python "
        "target): only the documented AssumeNonNegative promise is allowed. "
        "R07-TAGAPI: tag-changing APIs rebuild nodes with every non-tag field "
        "taken from self. "
        "R07-DEPENDS also: every function that asks a result for its loopy expression under a context of its own reads that context's depends_on afterwards on every path (add_substitution reviewed). R07-LOWERING-TAGS counts tag tests in helpers too, and the AssumeNonNegative promise only when tested per index in the branch that lowers that index."),
    not_decided=(
        "Equivalence of the kernels generated under the three strategies, or that "
        "stripping all tags leaves computed values unchanged (needs executing "
        "generated code)."),
)
