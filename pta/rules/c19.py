"""C19 -- raising an index lambda to a high-level operation never misreads it."""
from __future__ import annotations

import ast
from pathlib import Path

from pta.check import Spec
from pta.model import AnalysisError, Model
from pta.pat import find, has
from pta.rules.common import short

R = "pytato.raising"
HLO = R + ".HighLevelOp"
RAISER = R + ".index_lambda_to_high_level_op"
CASCADE = R + "._as_array_or_scalar"

_PYM = None


def pymbolic_fields():
    """field order of pymbolic's expression dataclasses, read from its source"""
    global _PYM
    if _PYM is None:
        import sysconfig
        cands = [Path(sysconfig.get_paths()["purelib"]) / "pymbolic"]
        for c_ in cands:
            if (c_ / "primitives.py").exists():
                pm = Model(c_.parent, package="pymbolic")
                tbl = {}
                for qn, ci in pm.classes.items():
                    if qn.startswith("pymbolic.primitives."):
                        tbl[ci.name] = list(pm.fields(qn))
                _PYM = tbl
                break
        else:
            raise AnalysisError("pymbolic source not found (oracle for field order)")
    return _PYM


def hlo_classes(m):
    out = {}
    for qn in m.subclasses(HLO, strict=True):
        out[short(qn)] = list(m.fields(qn))
    if len(out) < 5:
        raise AnalysisError(f"only {len(out)} HighLevelOp classes found")
    return out


def _prim_names(node):
    """names of pymbolic classes in an isinstance type expression p.A | p.B"""
    out = []
    for n in ast.walk(node):
        if isinstance(n, ast.Attribute) and isinstance(n.value, ast.Name) \
                and n.value.id in ("p", "prim"):
            out.append(n.attr)
    return out


def _raiser(m):
    """the raiser with its private matching helpers inlined (a helper that hands back
    (operation, operands) through early returns becomes the if/else chain it is)"""
    return m.split_tuples(m.inlined(m.func(RAISER), exclude=(CASCADE.split(".")[-1],)))


def _arm_aliases(body):
    """names an arm gives to operands: `a, b = X.children` / `b = X.children[1]`"""
    alias = {}
    for st in body:
        if isinstance(st, ast.Assign) and len(st.targets) == 1:
            t, v = st.targets[0], st.value
            if isinstance(t, ast.Tuple) and all(isinstance(e, ast.Name) for e in t.elts) \
                    and isinstance(v, ast.Attribute) and v.attr == "children":
                for i, e in enumerate(t.elts):
                    alias[e.id] = f"{ast.unparse(v)}[{i}]"
            elif isinstance(t, ast.Name) and isinstance(v, ast.Subscript) \
                    and isinstance(v.value, ast.Attribute) and v.value.attr == "children" \
                    and isinstance(v.slice, ast.Constant):
                alias[t.id] = ast.unparse(v)
    return alias


def _branches(fd):
    """(test, body) for every if/elif arm in fd"""
    for n in ast.walk(fd):
        if isinstance(n, ast.If):
            yield n.test, n.body


def r_arity(c):
    m = c.model
    hlos = hlo_classes(m)
    n = 0
    for mi, fd0 in m.all_functions():
        if not any(isinstance(x, ast.Call) and isinstance(x.func, (ast.Name, ast.Attribute))
                   and (x.func.id if isinstance(x.func, ast.Name) else x.func.attr) in hlos
                   for x in ast.walk(fd0)):
            continue
        # matching helpers that hand back (operation, operands) are seen through
        fd = m.split_tuples(m.inlined(fd0, exclude=(CASCADE.split(".")[-1],))) \
            if m.enclosing_function(fd0) is None else fd0
        for call in ast.walk(fd):
            if not (isinstance(call, ast.Call) and isinstance(call.func, (ast.Name, ast.Attribute))):
                continue
            nm = call.func.id if isinstance(call.func, ast.Name) else call.func.attr
            if nm not in hlos:
                continue
            qn = m.resolve_name(mi.name, ast.unparse(call.func))
            if qn is None or not qn.startswith(R):
                continue
            n += 1
            flds = hlos[nm]
            where = m.loc(mi, call)
            cname = m.qualname(fd).replace("pytato.", "", 1)
            starred = [a for a in call.args if isinstance(a, ast.Starred)]
            npos = len([a for a in call.args if not isinstance(a, ast.Starred)])
            kws = [k.arg for k in call.keywords if k.arg]
            if not starred:
                bound = set(flds[:npos]) | set(kws)
                c.check(npos + len(kws) == len(flds) and bound == set(flds),
                        "R19-ARITY", cname, f"{nm}:{m.frag(call, 40)}", where,
                        f"{nm}(...) binds {npos} positional + {kws} but the dataclass "
                        f"has fields {flds}: the construction raises TypeError instead "
                        "of classifying")
                continue
            # starred: length of the splatted tuple must be pinned down
            need = len(flds) - npos - len(kws)
            st = starred[0].value
            lens = _splat_lengths(fd, st)
            ok = lens is not None and all(l == need for l in lens)
            c.check(ok, "R19-ARITY", cname, f"{nm}:*{m.frag(st, 40)}", where,
                    f"{nm}(...) splats `{m.frag(st, 50)}` into {need} remaining "
                    f"field(s) but its length is "
                    f"{'not pinned down on every branch' if lens is None else sorted(set(lens))}"
                    ": an operand tuple of another length dies with a TypeError "
                    "instead of being reported as unknown",
                    facts={"lengths": None if lens is None else sorted(set(lens))})
    if n < 6:
        raise AnalysisError(f"only {n} HighLevelOp constructions found (floor 6)")


def _splat_lengths(fd, st, depth=0):
    """lengths the splatted value can have, or None if some branch leaves it open.
    Understands ``_as_array_or_scalar(X, ...)`` (same length as X), tuple
    displays, and names assigned (possibly through further names) in if/elif arms
    guarded by len() tests."""
    if isinstance(st, ast.Call) and ast.unparse(st.func).endswith("_as_array_or_scalar") \
            and st.args:
        st = st.args[0]
    if isinstance(st, ast.Tuple):
        return [len(st.elts)]
    if isinstance(st, ast.Name):
        out = []
        for asg in ast.walk(fd):
            if isinstance(asg, (ast.Assign, ast.AnnAssign)) and asg.value is not None and any(
                    isinstance(t, ast.Name) and t.id == st.id for t in (
                        asg.targets if isinstance(asg, ast.Assign) else [asg.target])):
                v = asg.value
                if isinstance(v, ast.Tuple):
                    out.append(len(v.elts))
                    continue
                if depth < 3 and (isinstance(v, ast.Name) or (
                        isinstance(v, ast.Call)
                        and ast.unparse(v.func).endswith("_as_array_or_scalar"))):
                    sub = _splat_lengths(fd, v, depth + 1)
                    if sub is None:
                        return None
                    out += sub
                    continue
                # look for a len(<v>) == n guard: in the enclosing arm's test, or a
                # preceding `if len(v) != n: raise` in the same block
                src = ast.unparse(v)
                n_ = _len_guard(asg, src)
                if n_ is None:
                    return None
                out.append(n_)
        return out or None
    return None


def _len_guard(asg, src):
    blk = asg._parent
    body = getattr(blk, "body", [])
    if asg in body:
        i = body.index(asg)
        for prev in body[:i]:
            if isinstance(prev, ast.If) and any(isinstance(s, ast.Raise) for s in prev.body):
                t = prev.test
                if isinstance(t, ast.Compare) and ast.unparse(t.left) == f"len({src})" \
                        and isinstance(t.ops[0], ast.NotEq) \
                        and isinstance(t.comparators[0], ast.Constant):
                    return t.comparators[0].value
    if isinstance(blk, ast.If):
        for t in ast.walk(blk.test):
            if isinstance(t, ast.Compare) and ast.unparse(t.left) == f"len({src})" \
                    and isinstance(t.ops[0], ast.Eq) \
                    and isinstance(t.comparators[0], ast.Constant):
                return t.comparators[0].value
    return None


def _inner_var(fd):
    """the local holding the cast-stripped scalar expression of the lambda"""
    ep = fd.args.args[0].arg
    e = find(fd, f"$v = TypeCastDropper()({ep}.expr)")
    if len(e) != 1:
        raise AnalysisError("anchor vanished: cast-stripped expression in the raiser")
    return e[0]["$v"]


def r_order(c):
    """operand tuples list the scalar node's fields in the node's own order"""
    m = c.model
    fd = _raiser(m)
    pf = pymbolic_fields()
    n = 0
    var = _inner_var(fd)
    for test, body in _branches(fd):
        types = []
        for t in ast.walk(test):
            if isinstance(t, ast.Call) and ast.unparse(t.func) == "isinstance" \
                    and ast.unparse(t.args[0]) == var:
                types += _prim_names(t.args[1])
        if not types:
            continue
        for st in body:
            for tup in ast.walk(st):
                if not isinstance(tup, ast.Tuple) or len(tup.elts) < 2:
                    continue
                attrs = []
                for e in tup.elts:
                    if isinstance(e, ast.Attribute) and ast.unparse(e.value) == var:
                        attrs.append(e.attr)
                if len(attrs) != len(tup.elts):
                    continue
                n += 1
                for ty in types:
                    order = pf.get(ty)
                    if order is None:
                        raise AnalysisError(f"pymbolic class {ty} not found in oracle")
                    pos = [order.index(a) if a in order else -1 for a in attrs]
                    ok = all(p_ >= 0 for p_ in pos) and pos == sorted(pos)
                    c.check(ok, "R19-ORDER", "index_lambda_to_high_level_op",
                            f"{ty}:({', '.join(attrs)})", m.loc(m.module_of(fd), tup),
                            f"operands of a {ty} are extracted as ({', '.join(attrs)}) "
                            f"but the node's field order is {order}: the operation's "
                            "operands are swapped")
    if n < 2:
        raise AnalysisError(f"only {n} ordered operand extractions found (floor 2)")
    # subtraction pattern a + (-1)*b  ->  (a, b)
    ok = False
    for test, body in _branches(fd):
        if has(test, f"{var}.children[1].children[0] == -1") \
                and has(test, f"isinstance({var}.children[1], p.Product)") \
                and has(test, f"isinstance({var}, p.Sum)"):
            ok = has(ast.Module(body=list(body), type_ignores=[]),
                     f"$ch = ({var}.children[0], {var}.children[1].children[1])")
            if not ok:
                # the same pair through names the arm gives to the operands
                # (`a, nb = X.children` ... (a, nb.children[1]))
                alias = _arm_aliases(body)

                def full(e):
                    class S_(ast.NodeTransformer):
                        def visit_Name(self, x):
                            return ast.parse(alias[x.id], mode="eval").body \
                                if x.id in alias else x
                    import copy
                    return ast.unparse(S_().visit(copy.deepcopy(e)))
                want = [f"{var}.children[0]", f"{var}.children[1].children[1]"]
                ok = any(isinstance(t, ast.Tuple) and [full(e) for e in t.elts] == want
                         for st in body for t in ast.walk(st))
    c.check(ok, "R19-ORDER", "index_lambda_to_high_level_op", "SUB:(minuend, subtrahend)",
            m.loc(m.module_of(fd), fd),
            "the a + (-1)*b pattern no longer yields (a, b) under the test that the "
            "product's first factor is -1")


def r_cascade(c):
    """a value known to be of node type T is only handed, as itself, to a
    cascade that has a case for T (otherwise the branch can only fail)"""
    m = c.model
    fd = _raiser(m)
    casc = m.func(CASCADE)
    accepted = set()
    for t in m.walk_scope(casc):       # the cascade may sit in a per-element helper
        if isinstance(t, ast.Call) and ast.unparse(t.func) == "isinstance" \
                and isinstance(t.args[0], ast.Name):
            accepted |= set(_prim_names(t.args[1]))
            if "SCALAR_CLASSES" in ast.unparse(t.args[1]):
                accepted.add("<scalar>")
    if len(accepted) < 3:
        raise AnalysisError("anchor vanished: isinstance cascade in _as_array_or_scalar")
    n = 0
    for test, body in _branches(fd):
        types = []
        tv = None
        for t in ast.walk(test):
            if isinstance(t, ast.Call) and ast.unparse(t.func) == "isinstance":
                types += _prim_names(t.args[1])
                tv = ast.unparse(t.args[0])
        if not types or tv is None:
            continue
        for st in body:
            for call in ast.walk(st):
                if isinstance(call, ast.Call) and ast.unparse(call.func).endswith(
                        "_as_array_or_scalar") and call.args \
                        and isinstance(call.args[0], ast.Tuple):
                    for e in call.args[0].elts:
                        if ast.unparse(e) == tv:
                            n += 1
                            for ty in types:
                                c.check(ty in accepted, "R19-CASCADE",
                                        "index_lambda_to_high_level_op",
                                        f"{ty}:passed-as-itself", m.loc(m.module_of(fd), call),
                                        f"under isinstance({tv}, {ty}) the {ty} node "
                                        "itself is handed to _as_array_or_scalar, whose "
                                        f"cascade only accepts {sorted(accepted)}: the "
                                        "operation can never be recognised")
    c.ok("R19-CASCADE", "index_lambda_to_high_level_op",
         f"{n} self-passing sites, accepted={sorted(accepted)}",
         m.loc(m.module_of(fd), fd), nontrivial=False)
    # recognition attempts catch the 'unknown' signal only
    for h in ast.walk(fd):
        if isinstance(h, ast.ExceptHandler):
            t = ast.unparse(h.type) if h.type is not None else "<bare>"
            c.check(t == "UnknownIndexLambdaExpr", "R19-CASCADE",
                    "index_lambda_to_high_level_op", f"except:{t}",
                    m.loc(m.module_of(fd), h),
                    f"a recognition attempt swallows {t}: genuine errors would be "
                    "reported as 'not this operation'")
    # the function ends by raising unknown
    last = fd.body[-1]
    c.check(isinstance(last, ast.Raise) and "UnknownIndexLambdaExpr" in ast.unparse(last),
            "R19-CASCADE", "index_lambda_to_high_level_op", "falls-through-to-unknown",
            m.loc(m.module_of(fd), last),
            "an unrecognised index lambda no longer ends in UnknownIndexLambdaExpr")


def _dict_keys(m, name):
    node = m.table(R, name)
    if not isinstance(node, ast.Dict):
        raise AnalysisError(f"{name} is not a dict display")
    return node


def r_tables(c):
    m = c.model
    fd = m.func(RAISER)
    where = m.loc(m.module_of(fd), fd)
    simple = _dict_keys(m, "_SIMPLE_PYMBOLIC_BINARY_OP_MAP")
    skeys = {k.attr for k in simple.keys if isinstance(k, ast.Attribute)}
    svals = [v.attr for v in simple.values if isinstance(v, ast.Attribute)]
    comp = _dict_keys(m, "_COMPARISON_OP_TO_BINARY_OP_MAP")
    ckeys = {k.value for k in comp.keys if isinstance(k, ast.Constant)}
    cvals = [v.attr for v in comp.values if isinstance(v, ast.Attribute)]
    # every type named in a branch that indexes the simple map is a key
    for test, body in _branches(fd):
        if any(has(s, f"_SIMPLE_PYMBOLIC_BINARY_OP_MAP[type({_inner_var(fd)})]")
               for s in body):
            for ty in _prim_names(test):
                c.check(ty in skeys, "R19-TABLES", "_SIMPLE_PYMBOLIC_BINARY_OP_MAP",
                        f"key:{ty}", where,
                        f"the raiser indexes the table with a {ty} node but the table "
                        "has no such key (KeyError instead of a classification)")
    # comparison operators the front end emits
    emitted = set()
    for call in ast.walk(m.module("pytato.array").tree):
        if isinstance(call, ast.Call) and ast.unparse(call.func) == "_compare" \
                and len(call.args) == 3 and isinstance(call.args[2], ast.Constant):
            emitted.add(call.args[2].value)
    if len(emitted) < 6:
        raise AnalysisError("anchor vanished: _compare callers in pytato.array")
    for op in sorted(emitted):
        c.check(op in ckeys, "R19-TABLES", "_COMPARISON_OP_TO_BINARY_OP_MAP",
                f"key:{op}", where,
                f"the array API emits comparisons with operator {op!r} that the "
                "raiser's table does not know")
    # values: distinct members of BinaryOpType, all members producible
    from pta.rules.c06 import enum_members
    members = enum_members(m, R + ".BinaryOpType")
    vals = svals + cvals
    c.check(len(vals) == len(set(vals)), "R19-TABLES", "binary-op tables",
            "values-distinct", where,
            f"two scalar node types / operators map to the same BinaryOpType: "
            f"{sorted(v for v in set(vals) if vals.count(v) > 1)}")
    for v in vals:
        c.check(v in members, "R19-TABLES", "binary-op tables", f"value:{v}", where,
                f"{v} is not a member of BinaryOpType")
    for mem in members:
        c.check(mem in vals or mem == "SUB", "R19-TABLES", "binary-op tables",
                f"member-producible:{mem}", where,
                f"BinaryOpType.{mem} can never be produced by the raiser")
    # natural pairing of names: p.Sum -> ADD etc. (sibling agreement with the
    # Python target's operator table is checked in C14)
    # c99 function names the front end emits are recognised
    un = m.table(R, "PT_C99UNARY_FUNCS")
    bi = m.table(R, "PT_C99BINARY_FUNCS")
    known = {e.value for e in un.elts} | {e.value for e in bi.elts}
    emitted_f = {}
    for call in ast.walk(m.module("pytato.cmath").tree):
        if isinstance(call, ast.Call) and ast.unparse(call.func) == "_apply_elem_wise_func" \
                and len(call.args) >= 2 and isinstance(call.args[1], ast.Constant):
            ns = [k for k in call.keywords if k.arg == "pt_namespace"]
            if ns:
                continue   # not the c99 name space
            emitted_f[call.args[1].value] = (call, len(call.args[0].elts)
                                             if isinstance(call.args[0], ast.Tuple) else None)
    if len(emitted_f) < 15:
        raise AnalysisError("anchor vanished: _apply_elem_wise_func callers in cmath")
    for fn, (call, nargs) in sorted(emitted_f.items()):
        c.check(fn in known, "R19-TABLES", "PT_C99*_FUNCS", f"func:{fn}",
                m.loc("pytato.cmath", call),
                f"pytato.cmath emits pytato.c99.{fn} but the raiser does not list it: "
                "the API's own index lambda is reported as unknown")
        if nargs is not None and fn in known:
            in_bin = fn in {e.value for e in bi.elts}
            c.check((nargs == 2) == in_bin, "R19-TABLES", "PT_C99*_FUNCS",
                    f"arity:{fn}", m.loc("pytato.cmath", call),
                    f"{fn} is emitted with {nargs} argument(s) but listed as "
                    f"{'binary' if in_bin else 'unary'}")
    # the prefix slice equals the length of the name-space prefix
    src = ast.unparse(fd)
    import re
    for mm in re.finditer(r"startswith\('([^']+)'\)", src):
        pref = mm.group(1)
        sl = re.findall(r"function\.name\[(\d+):\]", src)
        for s_ in sl:
            c.check(int(s_) == len(pref), "R19-TABLES", "index_lambda_to_high_level_op",
                    f"prefix-slice:{pref}[{s_}:]", where,
                    f"the function name is cut at [{s_}:] but the prefix {pref!r} has "
                    f"{len(pref)} characters")


PRODUCERS = {"logical_not": "LogicalNot", "logical_or": "LogicalOr",
             "logical_and": "LogicalAnd", "where": "If", "_compare": "Comparison",
             "full": "NaN"}


def r_producer(c):
    """front-end producers build the scalar node types the raiser tests for"""
    m = c.model
    arr = m.module("pytato.array")
    utils = m.module("pytato.utils")
    # (the raiser and its matching helpers; the operand cascade is another matter)
    rsrc = ast.unparse(_raiser(m))
    for fn, prim in PRODUCERS.items():
        if fn not in arr.functions:
            raise AnalysisError(f"anchor vanished: pytato.array.{fn}")
        fd = arr.functions[fn]
        src = ast.unparse(fd)
        builds = f"prim.{prim}" in src or f"p.{prim}" in src
        if not builds:
            # through a utils helper called from the producer
            for call in ast.walk(fd):
                if isinstance(call, ast.Call) and ast.unparse(call.func).startswith("utils."):
                    h = call.func.attr
                    if h in utils.functions and (f"prim.{prim}" in ast.unparse(
                            utils.functions[h]) or f"prim.{prim}" in ast.unparse(call)):
                        builds = True
        c.check(builds, "R19-PRODUCER", f"array.{fn}", f"builds:{prim}",
                m.loc(arr, fd),
                f"{fn} does not build a pymbolic {prim} node, which is what the raiser "
                "(and code generation) recognise the operation by")
        c.check(f"p.{prim}" in rsrc, "R19-PRODUCER", "index_lambda_to_high_level_op",
                f"tests:{prim}", m.loc(m.module_of(m.func(RAISER)), m.func(RAISER)),
                f"the raiser has no branch for {prim}")


def r_patterns(c):
    """structural guards of the pattern matches"""
    m = c.model
    fd = _raiser(m)
    where = m.loc(m.module_of(fd), fd)
    # (1) every constant subscript X.children[k] used in a branch is dominated by a
    #     len(X.children) == n test (n > k) in the test of the same arm
    n = 0
    for test, body in _branches(fd):
        tsrc = ast.unparse(test)
        nodes = [test] + list(body)
        alias = _arm_aliases(body)
        for nd in nodes:
            for sub in ast.walk(nd):
                if isinstance(sub, ast.Subscript) and isinstance(sub.value, ast.Attribute) \
                        and sub.value.attr == "children" and isinstance(sub.slice, ast.Constant):
                    base = ast.unparse(sub.value)
                    root = sub.value.value
                    if isinstance(root, ast.Name) and root.id in alias:
                        base = alias[root.id] + ".children"
                    k = sub.slice.value
                    n += 1
                    import re
                    mm = re.search(r"len\(" + re.escape(base) + r"\) == (\d+)", tsrc)
                    c.check(mm is not None and int(mm.group(1)) > k, "R19-PATTERN",
                            "index_lambda_to_high_level_op", f"{base}[{k}]:length-guarded",
                            m.loc(m.module_of(fd), sub),
                            f"`{base}[{k}]` is used although the branch does not test "
                            f"len({base}) == n: a node with more operands is matched and "
                            "its extra operands silently dropped (approximated instead of "
                            "reported unknown)")
    if n < 4:
        raise AnalysisError(f"only {n} constant child subscripts found in the raiser")
    # (2) the recognisers that must see casts get the original lambda
    for helper in ("_is_idx_lambda_broadcast_op", "_is_normal_reduce_expr"):
        calls = [x for x in ast.walk(fd) if isinstance(x, ast.Call)
                 and ast.unparse(x.func) == helper]
        c.check(calls and all(len(x.args) == 1 and ast.unparse(x.args[0]) == fd.args.args[0].arg
                              for x in calls), "R19-PATTERN", "index_lambda_to_high_level_op",
                f"{helper}:sees-the-original-lambda", where,
                f"{helper} is not applied to the index lambda itself")
        h = m.func(R + "." + helper)
        hs = ast.unparse(h)
        hp = h.args.args[0].arg
        casts = [x for x in ast.walk(h) if isinstance(x, ast.Name)
                 and x.id in ("TypeCast", "TypeCastDropper")] + [
                     x for x in ast.walk(h) if isinstance(x, ast.Attribute)
                     and x.attr == "inner_expr" and ast.unparse(x.value) == f"{hp}.expr"
                     and helper == "_is_idx_lambda_broadcast_op"]
        c.check(not casts and f"{hp}.expr" in hs, "R19-PATTERN", helper, "matches-the-uncast-expression",
                m.loc(m.module_of(h), h),
                f"{helper} strips type casts before matching: a cast (astype) would be "
                "classified as the operation underneath it and the cast lost")
    # (2b) sibling agreement: like _as_array_or_scalar, the broadcast recogniser
    #      accepts an operand only through its exact broadcast subscript
    b = m.func(R + "._is_idx_lambda_broadcast_op")
    bp = b.args.args[0].arg
    # (on the normal form: whichever of the lambda's expression, the operand's shape
    # and the lambda's shape are held in locals)
    okb = has(m.normal(b), f"{bp}.expr.index_tuple == get_indexing_expression("
                           f"{bp}.bindings[$$n].shape, {bp}.shape)")
    c.check(okb, "R19-PATTERN", "_is_idx_lambda_broadcast_op",
            "subscript-is-the-exact-broadcast-subscript", m.loc(m.module_of(b), b),
            "the broadcast recogniser looks at shapes only: a permuted or offset "
            "subscript (a[_1, _0]) is classified as a broadcast of a")
    c.check(not has(b, "$ts[-len($fs):]"), "R19-PATTERN",
            "_is_idx_lambda_broadcast_op", "zero-dimensional-operand-handled",
            m.loc(m.module_of(b), b),
            "to_shape[-len(from_shape):] is the whole shape for a 0-d operand: the strict "
            "zip raises ValueError for broadcast_to(scalar_array, shape)")
    # (3) operands are recognised only in a lambda whose shape is the broadcast shape
    a = m.func(CASCADE)
    ok = False
    for iff in ast.walk(a):
        if isinstance(iff, ast.If) and any(isinstance(s_, ast.Raise) for s_ in iff.body):
            bn, osn = a.args.args[1].arg, a.args.args[2].arg
            if ast.unparse(iff.test) in (
                    f"not are_shapes_equal({osn}, get_shape_after_broadcasting({bn}.values()))",
                    f"not are_shapes_equal(get_shape_after_broadcasting({bn}.values()), {osn})"):
                ok = True
    c.check(ok, "R19-PATTERN", "_as_array_or_scalar", "shape-equals-broadcast-shape-incl-rank",
            m.loc(m.module_of(a), a),
            "the guard no longer requires the lambda's shape to equal (rank included) the "
            "broadcast shape of its operands")
    # (4) an operand is an exact broadcast subscript, a scalar binding, a constant or NaN
    bn, osn = a.args.args[1].arg, a.args.args[2].arg
    tbl = find(a, f"$t = {{$k: p.Subscript(p.Variable($k), get_indexing_expression($b.shape, {osn}))"
                  f" for $k, $b in {bn}.items()}}")
    # (the comparison is in the cascade or in a private helper that is handed the table)
    consulted = len(tbl) == 1 and any(has(f, f"{t}[$e.aggregate.name] == $e")
                                      or has(f, f"$e == {t}[$e.aggregate.name]")
                                      for f, t in m.handed_to(a, tbl[0]['$t']))
    if not tbl:
        # the table written (or filled by a loop) where it is handed to the helper:
        # on the normal form it is an argument of the call
        nf = m.normal(a)
        callees = {f.name: f for f in m.private_callees(a)}
        for call in ast.walk(nf):
            if not (isinstance(call, ast.Call) and isinstance(call.func, ast.Name)
                    and call.func.id in callees):
                continue
            bind = m._bind_args(call, callees[call.func.id]) or {}
            for q, e in bind.items():
                if find(e,
                        f"{{$k: p.Subscript(p.Variable($k), get_indexing_expression($b.shape, "
                        f"{osn})) for $k, $b in {bn}.items()}}"):
                    f_ = callees[call.func.id]
                    consulted = has(f_, f"{q}[$e.aggregate.name] == $e") \
                        or has(f_, f"$e == {q}[$e.aggregate.name]")
                    tbl = [{"$t": q}]
    c.check(len(tbl) == 1 and consulted,
            "R19-PATTERN",
            "_as_array_or_scalar", "operand-only-through-exact-broadcast-subscript",
            m.loc(m.module_of(a), a),
            "an array operand is recognised by something other than equality with its "
            "exact broadcast subscript")


def r_intclass(c):
    """the raiser treats NumPy integers in shapes and bounds as integers: an
    API-made reduction over an array of shape (np.int64(3), 4) is recognised, not
    answered with NotImplementedError (shared with R16-INTCLASS)"""
    from pta.rules.c16 import int_tests
    int_tests(c, "R19-PATTERN", [R])
    c.ok("R19-PATTERN", "raising", "integer-tests-on-bounds-use-INT_CLASSES",
         "pytato/raising.py:1", nontrivial=False)


def r_reduce_positions(c):
    """a ReduceOp has no field for a permutation of the kept axes: an index lambda
    is a plain reduction only if its non-reduced subscripts are _0, _1, ... IN THIS
    ORDER.  The recogniser counts the kept axes with a counter that advances exactly
    when a kept axis was matched (name, then length), and anything else is unknown"""
    m = c.model
    from pta.pat import find
    fd = m.func(R + "._is_normal_reduce_expr")
    where = m.loc(m.module_of(fd), fd)
    ep = fd.args.args[0].arg
    # One iteration of the per-subscript loop, tabulated by case-split evaluation
    # (pta/symrun.py): every test met is a case.  Required of the table: where the
    # subscript is a reduction variable the counter of kept axes does not move; where
    # it is not, the iteration ends in `return False` unless the name is `_<counter>`
    # AND the lengths agree, and in exactly that case the counter advances by one.
    from pta import symrun
    import re
    nf = m.expand_locals(m.inlined(fd), only="aliases")
    loops = [l for l in ast.walk(nf) if isinstance(l, ast.For)
             and isinstance(l.target, ast.Tuple) and len(l.target.elts) == 2
             and ast.unparse(l.iter).startswith("enumerate(")
             and any(isinstance(x, ast.Compare) and isinstance(x.ops[0], (ast.In, ast.NotIn))
                     and ast.unparse(x.comparators[0]).endswith(".bounds")
                     for x in ast.walk(l))]
    ok, why = len(loops) == 1, "per-subscript loop not found"
    if ok:
        loop = loops[0]
        idim, idx = (t.id for t in loop.target.elts)
        try:
            tab = symrun.table(loop.body, lambda t: None)
        except AnalysisError as e:
            tab, ok, why = {}, False, str(e)
        n_adv = 0
        for cs, ev in tab.items():
            cs = dict(cs)
            red = [v for k, v in cs.items() if re.fullmatch(
                re.escape(idx) + r"\.name in .*\.bounds", k)]
            name = [(k, v) for k, v in cs.items() if re.fullmatch(
                re.escape(idx) + r"\.name == f'_\{(\w+)\}'", k)]
            augs = [e for e in ev if e[0] == "aug"]
            ends_false = bool(ev) and ev[-1] == ("exit", "return False")
            if not red:
                # left before the subscript was classified (e.g. not a variable)
                if augs:
                    ok, why = False, "the counter moves before the subscript is classified"
                continue
            if red[0]:
                if augs:
                    ok, why = False, "the counter of kept axes advances on a reduced axis"
                continue
            if not name:
                if not ends_false or augs:
                    ok, why = False, "a kept axis is accepted without testing its name"
                continue
            ctr = re.fullmatch(r".*f'_\{(\w+)\}'", name[0][0]).group(1)
            length = [v for k, v in cs.items() if re.fullmatch(
                r"are_shape_components_equal\(.*\.shape\[" + re.escape(idim) + r"\], "
                + re.escape(ep) + r"\.shape\[" + re.escape(ctr) + r"\]\)", k)]
            if name[0][1] and length and length[0]:
                if augs != [("aug", ctr, "Add", "1")] or any(e[0] == "exit" and e[1] != "continue"
                                                             for e in ev):
                    ok, why = False, ("a matched kept axis does not advance the counter by "
                                      f"exactly one and go on: {ev}")
                n_adv += 1
            elif not ends_false or augs:
                ok, why = False, (f"a kept axis whose name or length does not match is not "
                                  f"rejected: cases {cs} -> {ev}")
        if ok and n_adv != 1:
            ok, why = False, "no case in which a kept axis is matched (name, then length)"
        inits = find(nf, f"{ctr} = 0") if ok else []
        if ok and len(inits) != 1:
            ok, why = False, "the counter does not start at 0"
    c.check(ok, "R19-PATTERN", "_is_normal_reduce_expr", "kept-axes-matched-in-order", where,
            "the kept (non-reduced) subscripts are not matched as _0, _1, ... in order with "
            "a counter that advances exactly once per matched kept axis: a reduction with "
            "permuted or skipped output subscripts is raised to a plain ReduceOp, or an "
            f"API-made reduction over a leading axis is reported unknown ({why})")


def r_canonical_subscript(c):
    """the canonical broadcast subscript the raiser compares operands with
    (utils.get_indexing_expression) must be the subscript the array API writes: the
    index variable `_k` on every axis where operand and result agree, the constant 0
    exactly where they differ (the operand's unit axis is broadcast).  A producer that
    writes 0 for every unit axis of the operand -- broadcast or not -- still computes
    the same values, but unary operations, reductions and the recognisers that build
    their subscripts themselves then disagree with it and the raiser answers
    'unknown' for API-made arrays with a unit axis."""
    m = c.model
    from pta import symrun
    fd = m.func("pytato.utils.get_indexing_expression")
    where = m.loc(m.module_of(fd), fd)
    nf = m.normal(fd)
    rows = None          # [(cases, produced expression text)]
    dims = None
    for n in ast.walk(nf):
        gens = None
        def zips(it):
            """iterates over a zip(..), written there or held in a local"""
            if "zip(" in ast.unparse(it):
                return True
            return any(isinstance(a, (ast.Assign, ast.AnnAssign)) and a.value is not None
                       and "zip(" in ast.unparse(a.value) and any(
                           isinstance(t, ast.Name) and any(
                               isinstance(y, ast.Name) and y.id == t.id for y in ast.walk(it))
                           for t in (a.targets if isinstance(a, ast.Assign) else [a.target]))
                       for a in ast.walk(nf))
        if isinstance(n, ast.For) and zips(n.iter):
            tgt, gens = n.target, "loop"
        elif isinstance(n, (ast.ListComp, ast.GeneratorExp)) and zips(n.generators[0].iter):
            tgt, gens = n.generators[0].target, "comp"
        if gens is None:
            continue
        pair = [t for t in ast.walk(tgt) if isinstance(t, ast.Tuple)
                and len(t.elts) == 2 and all(isinstance(e, ast.Name) for e in t.elts)]
        if not pair:
            continue
        dims = {e.id for e in pair[-1].elts}
        if gens == "loop":
            tbl = symrun.table(n.body, lambda t: None)
            rows = []
            for cs, ev in tbl.items():
                app = [e for e in ev if e[0] == "call" and e[1].endswith(".append")
                       and len(e[2]) == 1]
                if len(app) != 1 or any(e[0] == "opaque" or (
                        e[0] == "exit" and e[1] != "continue") for e in ev):
                    rows = None
                    break
                rows.append((dict(cs), app[0][2][0]))
        else:
            if len(n.generators) != 1 or n.generators[0].ifs:
                continue
            tbl = symrun.table([ast.Expr(value=n.elt)], lambda t: None)
            rows = []
            for cs, ev in tbl.items():
                if len(ev) != 1:
                    rows = None
                    break
                e = ev[0]
                rows.append((dict(cs), e[1] if e[0] == "expr"
                             else f"{e[1]}({', '.join(e[2])})"))
        if rows is not None:
            break
    if not rows or dims is None:
        raise AnalysisError("anchor vanished: per-axis decision (index variable or 0) in "
                            "get_indexing_expression")
    a, b = sorted(dims)
    eq_keys = {f"are_shape_components_equal({a}, {b})", f"are_shape_components_equal({b}, {a})"}
    import re
    n_const = n_var = 0
    for cs, val in rows:
        eq = [v for k, v in cs.items() if k in eq_keys]
        mentions = {d for d in dims for k in cs if re.search(r"\b" + d + r"\b", k)}
        is_const = val == "0"
        is_var = re.search(r"\bVariable\(", val) is not None
        if not (is_const or is_var):
            raise AnalysisError(f"get_indexing_expression produces `{val}`: neither the "
                                "constant 0 nor an index variable")
        n_const += is_const
        n_var += is_var
        want = not is_const     # index variable <=> the two lengths agree
        if eq:
            ok = all(v == want for v in eq)
        elif is_var and cs:
            continue             # (an operand length other than 1 must agree anyway)
        elif mentions != dims:
            ok = False           # decided without comparing the two lengths at all
        else:
            raise AnalysisError("get_indexing_expression: cannot decide whether the case "
                                f"{sorted(cs.items())} means 'operand and result length agree'")
        c.check(ok, "R19-PATTERN", "utils.get_indexing_expression",
                f"{'constant-0' if is_const else 'index-variable'}-iff-lengths-"
                f"{'differ' if is_const else 'agree'}:{sorted(cs.items())}", where,
                f"in the case {sorted(cs.items())} the canonical broadcast subscript is "
                f"`{val}` although that case does not say the operand's and the result's "
                "axis lengths " + ("differ" if is_const else "agree") + ": the subscript the "
                "raiser compares with is no longer the one unary operations, reductions and "
                "hand-lowered nodes write (x[_0, _1] for a (1, n) operand of a (1, n) result), "
                "so API-made arrays with a unit axis are reported unknown")
    if not (n_const and n_var):
        raise AnalysisError("get_indexing_expression: expected a case producing 0 and a case "
                            "producing an index variable")


SPEC = Spec(
    prop="C19",
    rules=[r_arity, r_order, r_cascade, r_tables, r_producer, r_patterns, r_intclass, r_reduce_positions,
           r_canonical_subscript],
    floors={"R19-ARITY": 7, "R19-ORDER": 4, "R19-CASCADE": 4, "R19-TABLES": 60,
            "R19-PRODUCER": 8, "R19-PATTERN": 13},
    explanation=(
        "R19-ARITY: every construction of a HighLevelOp dataclass binds exactly its "
        "fields; a starred operand tuple must have its length pinned down on every "
        "branch (tuple display or len() guard). R19-ORDER: ordered operand tuples "
        "list the scalar node's attributes in pymbolic's own dataclass field order "
        "(read from the installed pymbolic source); the a+(-1)*b pattern yields "
        "(a, b). R19-CASCADE (contradiction rule): a value known by a dominating "
        "isinstance test to be a node of type T is handed as itself to "
        "_as_array_or_scalar only if its cascade has a case for T; recognition "
        "attempts catch UnknownIndexLambdaExpr only; the function ends in unknown. "
        "R19-TABLES: the node-type and comparison tables cover every type/operator "
        "the raiser indexes them with / the array API emits, values are distinct "
        "members and every member is producible; every c99 function pytato.cmath "
        "emits is listed with the right arity; prefix slice = prefix length. "
        "R19-PRODUCER: logical_not/or/and, where and comparisons build the scalar "
        "node types the raiser tests. R19-PATTERN: constant child subscripts are "
        "dominated by a length test in the same arm; the broadcast/reduce "
        "recognisers see the un-cast expression; operands are recognised only "
        "through their exact broadcast subscript in a lambda whose shape equals the "
        "operands' broadcast shape. "
        "R19-PATTERN also: the recognisers never look through a TypeCast; on the case table of one iteration of the per-subscript loop: the counter of kept axes never moves on a reduced axis, a kept axis ends in `return False` unless its name is `_<counter>` AND its length agrees, and in exactly that case the counter advances by one; integer tests on reduction bounds use INT_CLASSES; the canonical broadcast subscript (utils.get_indexing_expression), tabulated by case: the constant 0 exactly in the cases that say operand and result length differ, the index variable exactly where they agree."),
    not_decided=(
        "That applying the recognised operation with NumPy reproduces the pointwise "
        "value; near-miss rejection for arbitrary hand-built expressions (subscript "
        "matching in _as_array_or_scalar is value-level)."),
    trusted_base=["CPython ast", "installed pymbolic source as oracle for field order"],
)
