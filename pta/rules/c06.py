"""C06 -- algebraic einsum rewrites never change the computed value."""
from __future__ import annotations

import ast

from pta import paths as P
from pta.absdom import truth_table
from pta.check import Spec
from pta.model import AnalysisError
from pta.pat import find, has, th, tfind
from pta.rules.common import short

EDL = "pytato.transform.einsum_distributive_law"
MAPPER = EDL + ".EinsumDistributiveLawMapper"
RBE = "pytato.transform.remove_broadcasts_einsum.EinsumWithNoBroadcastsRewriter"


def enum_members(m, qn):
    ci = m.cls(qn)
    out = [t.id for st in ci.node.body if isinstance(st, ast.Assign)
           for t in st.targets if isinstance(t, ast.Name)]
    if len(out) < 10:
        raise AnalysisError(f"enum {qn} has only {len(out)} members")
    return out


def _atom_factory(param):
    """atoms of the distribution predicate over (op, x1, x2, shapes_equal)"""
    def member(n):
        if isinstance(n, ast.Attribute) and ast.unparse(n.value).endswith("BinaryOpType"):
            return n.attr
        return None

    def atom_of(n):
        if isinstance(n, ast.Compare) and len(n.ops) == 1 \
                and ast.unparse(n.left) == f"{param}.binary_op":
            r = n.comparators[0]
            if isinstance(n.ops[0], ast.In) and isinstance(r, (ast.List, ast.Tuple, ast.Set)):
                ms = [member(e) for e in r.elts]
                if all(ms):
                    return ("in", ("op", set(ms)))
            if isinstance(n.ops[0], (ast.Eq, ast.Is)) and member(r):
                return ("eq", ("op", member(r)))
            if isinstance(n.ops[0], (ast.NotEq, ast.IsNot)) and member(r):
                return ("ne", ("op", member(r)))
        if isinstance(n, ast.Call):
            f = ast.unparse(n.func)
            args = [ast.unparse(a) for a in n.args]
            if f == "isinstance" and args[0] == param and args[1].endswith("BinaryOp"):
                return ("const", True)       # domain is restricted to BinaryOp
            for i in ("1", "2"):
                if f in ("np.isscalar", "isscalar") and args == [f"{param}.x{i}"]:
                    return ("eq", (f"x{i}", "scalar"))
                if f == "isinstance" and args[0] == f"{param}.x{i}":
                    if args[1] == "Array":
                        return ("eq", (f"x{i}", "array"))
                    if "SCALAR" in args[1] or args[1] in ("Number", "numbers.Number"):
                        return ("eq", (f"x{i}", "scalar"))
            if f.endswith("are_shapes_equal") and set(args) == {
                    f"{param}.x1.shape", f"{param}.x2.shape"}:
                return ("bool", "shapes_equal")
        return None
    return atom_of


def allowed(env):
    """is pushing (x1 op x2) through a linear map an algebraic identity?"""
    op, k1, k2 = env["op"], env["x1"], env["x2"]
    if op in ("ADD", "SUB"):
        return k1 == "array" and k2 == "array" and env["shapes_equal"]
    if op == "MULT":
        return k1 == "scalar" or k2 == "scalar"
    if op == "TRUEDIV":
        return k2 == "scalar"      # only the denominator may be the scalar
    return False


def predicate_table(m):
    fd = m.func(EDL + "._can_hlo_be_distributed")
    rets = [r for r in ast.walk(fd) if isinstance(r, ast.Return)]
    if len(rets) != 1:
        # guard clauses and an if/elif chain of returns: the same predicate as ONE
        # conditional expression
        e = m.as_expression(fd)
        if e is None:
            raise AnalysisError("_can_hlo_be_distributed: neither a single return nor a "
                                "chain of ifs and returns")
        r0 = ast.Return(value=e, lineno=fd.lineno)
        r0._parent = fd
        for p_ in ast.walk(e):
            for ch in ast.iter_child_nodes(p_):
                ch._parent = p_
        e._parent = r0
        rets = [r0]
    param = fd.args.args[0].arg
    ops = enum_members(m, "pytato.raising.BinaryOpType")
    domain = {"op": ops, "x1": ["scalar", "array"], "x2": ["scalar", "array"],
              "shapes_equal": [False, True]}
    rows, free = truth_table(rets[0].value, domain, _atom_factory(param))
    return fd, rets[0], rows, free, ops


def r_law(c):
    m = c.model
    fd, ret, rows, free, ops = predicate_table(m)
    where = m.loc(m.module_of(fd), fd)
    c.units["truth_table_points"] = len(rows)
    # the BinaryOp test must dominate: predicate false for non-BinaryOp
    top = ret.value

    def _is_binop_test(v):
        return isinstance(v, ast.Call) and ast.unparse(v.func) == "isinstance" \
            and ast.unparse(v.args[1]).endswith("BinaryOp")
    dominated = isinstance(top, ast.BoolOp) and isinstance(top.op, ast.And) and any(
        _is_binop_test(v) for v in top.values)
    if isinstance(top, ast.IfExp):
        # `False if not isinstance(hlo, BinaryOp) else ...` (a guard clause)
        t, neg = top.test, False
        while isinstance(t, ast.UnaryOp) and isinstance(t.op, ast.Not):
            t, neg = t.operand, not neg
        other = top.body if neg else top.orelse
        dominated = _is_binop_test(t) and isinstance(other, ast.Constant) \
            and other.value is False
    c.check(dominated, "R06-LAW", "_can_hlo_be_distributed", "only-binary-ops", where,
            "the predicate is not a conjunction with isinstance(hlo, BinaryOp): "
            "non-binary operations could be distributed")
    bad_by_case = {}
    for env, val in rows:
        case = (env["op"], env["x1"], env["x2"], env["shapes_equal"])
        if val and not allowed(env):
            bad_by_case.setdefault(case, env)
    seen = set()
    for env, val in rows:
        case = (env["op"], env["x1"], env["x2"], env["shapes_equal"])
        if case in seen:
            continue
        seen.add(case)
        inst = f"{case[0]}:x1={case[1]},x2={case[2]},shapes_equal={case[3]}"
        if case in bad_by_case:
            extra = {k: v for k, v in bad_by_case[case].items() if k.startswith("free:")}
            c.violation(
                "R06-LAW", "_can_hlo_be_distributed", inst, where,
                f"the predicate admits distributing `x1 {case[0]} x2` with "
                f"x1={case[1]}, x2={case[2]}, equal shapes={case[3]}"
                + (f" (when {extra})" if extra else "")
                + ", which is not an identity for a linear map "
                "(e.g. A@(c/x) != c/(A@x), A@(x+c) != A@x + c)",
                facts={"point": {k: str(v) for k, v in bad_by_case[case].items()}})
        else:
            c.ok("R06-LAW", "_can_hlo_be_distributed", inst, where,
                 nontrivial=any(v for e, v in rows
                                if (e["op"], e["x1"], e["x2"], e["shapes_equal"]) == case))
    c.notes.append(f"free atoms in predicate: {sorted(free)}")


def r_branch(c):
    m = c.model
    fd = m.func(MAPPER + ".map_index_lambda")
    _fd, _ret, rows, _free, ops = predicate_table(m)
    admitted = {env["op"] for env, val in rows if val}
    OPS = {"ADD": ast.Add, "SUB": ast.Sub, "MULT": ast.Mult, "TRUEDIV": ast.Div,
           "FLOORDIV": ast.FloorDiv, "POWER": ast.Pow, "MOD": ast.Mod}
    hl = find(fd, "$hlo = index_lambda_to_high_level_op($e)")
    if len(hl) != 1:
        raise AnalysisError("anchor vanished: raised operation in map_index_lambda")
    hlo = hl[0]["$hlo"]
    ctxp = fd.args.args[2].arg
    where = m.loc(m.module_of(fd), fd)
    # Decision table of the handler's returns, on the normal form (helpers inlined,
    # locals propagated, early return == else): for every returned `l <op> r`, the
    # set of BinaryOpType values under which it is reached is computed from the
    # tests on hlo.binary_op along its path (==, !=, in, not in).
    from pta.pat import expr_is
    nf = m.normal(fd)
    hl2 = find(nf, "$hlo = index_lambda_to_high_level_op($e)")
    if hl2:
        hlo = hl2[0]["$hlo"]
    else:       # the local was propagated: the raised operation is the call itself
        calls = [x for x in ast.walk(nf) if isinstance(x, ast.Call)
                 and ast.unparse(x.func).endswith("index_lambda_to_high_level_op")]
        if not calls:
            raise AnalysisError("anchor vanished: raised operation in map_index_lambda")
        hlo = ast.unparse(calls[0])
    table = m.returns_by_condition(nf)
    if table is None:
        raise AnalysisError("map_index_lambda: a return inside a loop/try: decision table "
                            "of the operator branches cannot be built")
    universe = set(ops)

    def members(e):
        if isinstance(e, ast.Attribute):
            return {e.attr}
        if isinstance(e, (ast.Tuple, ast.List, ast.Set)):
            return set().union(*[members(x) for x in e.elts]) if e.elts else set()
        if isinstance(e, ast.Call) and e.args:       # frozenset({...}) and the like
            return members(e.args[0])
        return None
    handled = {}      # op -> [(binop node, left ok, right ok)]
    n_bin = 0
    side = {i: f"_verify_is_array($s.rec({hlo}.x{i}, {ctxp})) "
               f"if isinstance({hlo}.x{i}, Array) else {hlo}.x{i}" for i in ("1", "2")}
    for conds, v in table:
        while isinstance(v, ast.Call) and isinstance(v.func, ast.Name) and v.func.id == "cast":
            v = v.args[1]
        if not isinstance(v, ast.BinOp):
            continue
        n_bin += 1
        live = set(universe)
        for txt, pol in conds:
            t = ast.parse(txt, mode="eval").body
            if not (isinstance(t, ast.Compare) and len(t.ops) == 1
                    and ast.unparse(t.left) == f"{hlo}.binary_op"):
                continue
            mem = members(t.comparators[0])
            if mem is None:
                continue
            positive = isinstance(t.ops[0], (ast.Eq, ast.In, ast.Is))
            live = (live & mem) if positive == pol else (live - mem)
        for op in live:
            handled.setdefault(op, []).append(
                (v, expr_is(v.left, side["1"]), expr_is(v.right, side["2"])))
    if n_bin < 3:
        raise AnalysisError("anchor vanished: per-operator returns `l <op> r` in "
                            "map_index_lambda")
    for op, rets in sorted(handled.items()):
        ok = len(rets) == 1 and op in OPS and isinstance(rets[0][0].op, OPS[op]) \
            and rets[0][1] and rets[0][2]
        c.check(ok, "R06-BRANCH", "EinsumDistributiveLawMapper.map_index_lambda",
                f"{op}:operator-and-operand-order", m.loc(m.module_of(fd), rets[0][0]),
                f"under binary_op == {op} the handler does not return exactly "
                f"`rec(x1) <{op}> rec(x2)` (wrong operator, swapped operands, or more than "
                "one return reachable)")
    for op in sorted(admitted | set(handled)):
        c.check(op in handled and op in admitted, "R06-BRANCH",
                "EinsumDistributiveLawMapper.map_index_lambda", f"{op}:handled-iff-admitted",
                where,
                f"{op} is " + ("admitted by the predicate but has no branch"
                               if op in admitted else
                               "handled by a branch the predicate never admits"))
    # the operands of every returned operation are the recursions on x1 / x2
    for k, i in ((1, "1"), (2, "2")):
        ok = all(r[k] for rs in handled.values() for r in rs)
        c.check(ok, "R06-BRANCH", "EinsumDistributiveLawMapper.map_index_lambda",
                f"rec_x{i}-from-x{i}", where,
                f"rec_x{i} is not the recursion on hlo.x{i} (with the context passed on)")
    # the last else raises
    tails = [s for s in ast.walk(fd) if isinstance(s, ast.Raise)
             and "NotImplementedError" in ast.unparse(s)]
    c.check(bool(tails), "R06-BRANCH", "EinsumDistributiveLawMapper.map_index_lambda",
            "unknown-op-raises", where, "an unhandled admitted operator falls through")


def r_ctx(c):
    """the distribution context is consumed exactly once on every path"""
    m = c.model
    ci = m.cls(MAPPER)
    n = 0
    for mn, fd in sorted(ci.methods.items()):
        if not (mn.startswith("map_") or mn.startswith("_map_")) or len(fd.args.args) != 3:
            continue
        ctxp = fd.args.args[2].arg
        n += 1

        def cl(nd, ctxp=ctxp):
            if isinstance(nd, ast.Call):
                f = ast.unparse(nd.func)
                if f.endswith("_wrap_einsum_from_ctx") and len(nd.args) == 2 \
                        and ast.unparse(nd.args[1]) == ctxp:
                    return "WRAP"
                if f == "self.rec" and len(nd.args) == 2 \
                        and ast.unparse(nd.args[1]) == ctxp:
                    return "FWD"
            return None
        ps = P.walk(fd, cl)
        where = m.loc(ci.module, fd)
        both = [e for (e, x) in ps if "WRAP" in e and "FWD" in e]
        c.check(not both, "R06-CTX", f"EinsumDistributiveLawMapper.{mn}",
                "context-not-applied-twice", where,
                "a path both passes the einsum context down to a child and wraps the "
                "result in the einsum: the einsum is applied twice")
        labels = {lab for (e, _x) in ps for lab in e}
        c.check(bool(labels), "R06-CTX", f"EinsumDistributiveLawMapper.{mn}",
                "context-not-dropped", where,
                "the handler neither wraps its result in the surrounding einsum nor "
                "passes the context on: the einsum is lost")
        # children of a wrapped node are rewritten without context
        for call in ast.walk(fd):
            if isinstance(call, ast.Call) and ast.unparse(call.func) == "self.rec" \
                    and len(call.args) == 2:
                a1 = ast.unparse(call.args[1])
                # a context built on the spot (directly or held in a local) is the
                # third admissible argument: that is how a distribution starts
                built = {t.id for a in ast.walk(fd) if isinstance(a, ast.Assign)
                         and isinstance(a.value, ast.Call) and ast.unparse(a.value.func).endswith(
                             "_EinsumDistributiveLawMapperContext")
                         for t in a.targets if isinstance(t, ast.Name)}
                fresh = a1 in built or (isinstance(call.args[1], ast.Call) and ast.unparse(
                    call.args[1].func).endswith("_EinsumDistributiveLawMapperContext"))
                c.check(a1 in ("None", ctxp) or fresh, "R06-CTX",
                        f"EinsumDistributiveLawMapper.{mn}", f"rec-ctx-arg:{m.frag(call, 40)}",
                        m.loc(ci.module, call),
                        f"recursion passes `{a1}` as context (neither the incoming "
                        "context nor None)")
    if n < 7:
        raise AnalysisError(f"only {n} context-taking handlers found")
    # context dataclass: every field takes part in ==/hash (it is part of the cache key)
    cc = m.cls(EDL + "._EinsumDistributiveLawMapperContext")
    kw = cc.deco_kwargs()
    c.check(kw.get("frozen") == "True" and kw.get("eq", "True") == "True",
            "R06-CTX", "_EinsumDistributiveLawMapperContext", "frozen-eq-dataclass",
            m.loc(cc.module, cc.node),
            "the context is no longer a frozen dataclass with generated ==/hash")
    for (fname, _ann, _d, _k, val) in cc.own_fields:
        src = ast.unparse(val) if val is not None else ""
        c.check("compare=False" not in src and "hash=False" not in src, "R06-CTX",
                "_EinsumDistributiveLawMapperContext", f"field-in-cache-key:{fname}",
                m.loc(cc.module, cc.node),
                f"field {fname} is excluded from ==/hash although the context is part "
                "of the mapper's cache key: einsums differing only there share a "
                "cache entry")
    gk = m.func(MAPPER + ".get_cache_key")
    c.check(len(gk.args.args) == 3 and any(
        isinstance(r, ast.Return)
        and ast.unparse(r.value) == f"({gk.args.args[1].arg}, {gk.args.args[2].arg})"
        for r in ast.walk(gk)), "R06-CTX", "EinsumDistributiveLawMapper.get_cache_key",
            "key-is-(expr,ctx)", m.loc(m.module_of(gk), gk),
            "the cache key no longer consists of the expression and the context")


def r_wrap(c):
    m = c.model
    fd = m.func(EDL + "._wrap_einsum_from_ctx")
    where = m.loc(m.module_of(fd), fd)
    calls = [x for x in ast.walk(fd) if isinstance(x, ast.Call)
             and ast.unparse(x.func) == "Einsum"]
    if len(calls) != 1:
        raise AnalysisError("anchor vanished: Einsum(...) in _wrap_einsum_from_ctx")
    call = calls[0]
    init = m.init_order("pytato.array.Einsum")
    kws = {k.arg: k.value for k in call.keywords}
    for i, a in enumerate(call.args):
        kws[init[i]] = a
    ep, cp = fd.args.args[0].arg, fd.args.args[1].arg
    for f in ("access_descriptors", "redn_axis_to_redn_descr", "tags", "axes"):
        c.check(f in kws and ast.unparse(kws[f]) == f"{cp}.{f}", "R06-WRAP",
                "_wrap_einsum_from_ctx", f"Einsum.{f}", where,
                f"the rebuilt einsum's {f} is `{ast.unparse(kws[f]) if f in kws else None}` "
                f"instead of ctx.{f}")
    # operands: surrounding args at their recorded position, expr in the free slot
    av = ast.unparse(kws.get("args", ast.Name(id="?")))
    gen = (f"tuple(({cp}.surrounding_args.get($i, {ep}) "
           f"for $i in range(len({cp}.access_descriptors))))")
    c.check(has(fd, f"{av} = {gen}") or ("args" in kws and has(kws["args"], gen)),
            "R06-WRAP",
            "_wrap_einsum_from_ctx", "Einsum.args", where,
            "operands are not rebuilt as surrounding_args.get(position, expr) over "
            "all operand positions")
    c.check(any(isinstance(i, ast.If) and ast.unparse(i.test) == f"{cp} is None"
                and any(isinstance(s, ast.Return) and ast.unparse(s.value) == ep
                        for s in i.body) for i in ast.walk(fd)),
            "R06-WRAP", "_wrap_einsum_from_ctx", "no-context-is-identity", where,
            "without a context the expression is no longer returned unchanged")
    # map_einsum builds the context from the einsum's own fields, dropping ioperand
    me_raw = m.func(MAPPER + ".map_einsum")
    me = m.normal(me_raw)     # ioperand / surrounding_args / the context held in locals
    ctxs = [x for x in ast.walk(me) if isinstance(x, ast.Call)
            and ast.unparse(x.func).endswith("_EinsumDistributiveLawMapperContext")]
    if len(ctxs) != 1:
        raise AnalysisError("anchor vanished: context construction in map_einsum")
    cc = ctxs[0]
    cinit = m.init_order(EDL + "._EinsumDistributiveLawMapperContext")
    ck = {k.arg: k.value for k in cc.keywords}
    for i, a in enumerate(cc.args):
        ck[cinit[i]] = a
    wh = m.loc(m.module_of(me), cc)
    ep, cp = me.args.args[1].arg, me.args.args[2].arg
    dl = find(me_raw, f"$d = self.how_to_distribute({ep})")
    dv = dl[0]["$d"] if len(dl) == 1 else "?"
    if not any(isinstance(x, ast.Name) and x.id == dv for x in ast.walk(me)):
        dv = f"self.how_to_distribute({ep})"      # the local was propagated
    for f in ("access_descriptors", "redn_axis_to_redn_descr", "tags", "axes"):
        v = ast.unparse(ck[f]) if f in ck else ""
        c.check(v in (f"{ep}.{f}", f"constantdict({ep}.{f})"), "R06-WRAP",
                "EinsumDistributiveLawMapper.map_einsum", f"ctx.{f}", wh,
                f"context field {f} is built from `{v}` instead of expr.{f}")
    sa = ck.get("surrounding_args", ast.Constant(value=None))
    comp = f"{{$i: $a for $i, $a in enumerate({ep}.args) if $i != {dv}.ioperand}}"
    c.check(has(sa, comp), "R06-WRAP", "EinsumDistributiveLawMapper.map_einsum",
            "ctx.surrounding_args", wh,
            "surrounding_args is not {position: operand} for all operands except "
            "ioperand")
    # the recursion into the operand distributed over gets the context just built
    recs_ = [x for x in ast.walk(me) if isinstance(x, ast.Call)
             and ast.unparse(x.func) == "self.rec" and len(x.args) == 2
             and ast.unparse(x.args[0]) == f"{ep}.args[{dv}.ioperand]"]
    holders = {t.id for a in ast.walk(me) if isinstance(a, ast.Assign) and a.value is cc
               for t in a.targets if isinstance(t, ast.Name)}
    c.check(len(recs_) == 1 and (recs_[0].args[1] is cc or (
        isinstance(recs_[0].args[1], ast.Name) and recs_[0].args[1].id in holders)),
            "R06-WRAP", "EinsumDistributiveLawMapper.map_einsum", "recurses-into-ioperand",
            wh, "the operand distributed over is not expr.args[ioperand]")
    c.check(any(isinstance(i, ast.If) and ast.unparse(i.test) == f"{cp} is not None"
                and any(isinstance(s, ast.Raise) for s in i.body) for i in ast.walk(me)),
            "R06-WRAP", "EinsumDistributiveLawMapper.map_einsum",
            "composed-distribution-raises", wh,
            "distributing inside an already distributed einsum no longer raises")


def r_squeeze(c):
    m = c.model
    sq = m.func(RBE + "._squeeze_axes")
    me = m.func(RBE + ".map_einsum")
    where = m.loc(m.module_of(sq), sq)
    ep, ap = sq.args.args[1].arg, sq.args.args[2].arg
    from pta.pat import returns_are
    idx = (f"{ep}[tuple((slice(None) if $i not in {ap} else 0 for $i in range({ep}.ndim)))]",
           f"{ep}[tuple((0 if $i in {ap} else slice(None) for $i in range({ep}.ndim)))]")
    c.check(any(returns_are(m, sq, {((ap, True),): i_, ((ap, False),): ep}) for i_ in idx),
            "R06-SQUEEZE",
            "EinsumWithNoBroadcastsRewriter._squeeze_axes", "index-0-exactly-on-squeezed-axes",
            where, "the squeezed operand is not indexed with 0 exactly on the axes to "
            "squeeze and sliced fully elsewhere")
    # map_einsum, on the normal form (helpers inlined, single-assignment locals
    # propagated, fill loops as comprehensions): B = the broadcast axes of an operand
    from pta.pat import expr_is
    ep = me.args.args[1].arg
    me = m.normal(me)
    lp = [l for l in ast.walk(me) if isinstance(l, ast.For) and has(
        l.iter, f"zip({ep}.args, {ep}.access_descriptors, strict=True)")
        and isinstance(l.target, ast.Tuple) and len(l.target.elts) == 2
        and all(isinstance(t, ast.Name) for t in l.target.elts)]
    if len(lp) != 1:
        raise AnalysisError("anchor vanished: loop over zip(expr.args, "
                            "expr.access_descriptors, strict=True) in map_einsum")
    loop = lp[0]
    argv, descrs = (t.id for t in loop.target.elts)
    bpat = (f"tuple(($i for $i, $d in enumerate({descrs}) if not are_shape_components_equal("
            f"{argv}.shape[$i], {ep}._access_descr_to_axis_len()[$d])))")

    def deref(e):
        if isinstance(e, ast.Name):
            asg = [a for a in ast.walk(loop) if isinstance(a, (ast.Assign, ast.AnnAssign))
                   and any(isinstance(t, ast.Name) and t.id == e.id for t in (
                       a.targets if isinstance(a, ast.Assign) else [a.target]))]
            if len(asg) == 1 and asg[0].value is not None:
                return asg[0].value
        return e

    def is_b(e):
        return expr_is(deref(e), bpat)
    gens = find(loop, f"tuple(($d for $i, $d in enumerate({descrs}) if $i not in $$x))")
    ok = bool(gens) and all(
        is_b(g["@node"].args[0].generators[0].ifs[0].comparators[0]) for g in gens)
    # ... or selected directly by the complement of B's own test
    ok = ok or bool(find(loop, (
        f"tuple(($d for $i, $d in enumerate({descrs}) if are_shape_components_equal("
        f"{argv}.shape[$i], {ep}._access_descr_to_axis_len()[$d])))")))
    c.check(ok, "R06-SQUEEZE", "EinsumWithNoBroadcastsRewriter.map_einsum",
            "drops-descriptors-of-squeezed-axes", m.loc(m.module_of(me), me),
            "the access descriptors kept are not exactly those of the axes that are "
            "not squeezed (sibling of _squeeze_axes' membership test)")
    # the axes squeezed are exactly those whose length differs from the einsum's
    recs = [x for x in ast.walk(loop) if isinstance(x, ast.Call)
            and ast.unparse(x.func) == "self.rec" and len(x.args) == 2
            and ast.unparse(x.args[0]) == argv]
    n_b = 0
    ok = bool(recs)
    for r in recs:
        if is_b(r.args[1]):
            n_b += 1
            continue
        # `()` is what B is on the arm where B is empty
        empty_arm = False
        q, ch = r._parent, r
        while q is not loop:
            if isinstance(q, ast.If) and is_b(q.test) and any(ch is s_ for s_ in q.orelse):
                empty_arm = True
            ch, q = q, q._parent
        if not (ast.unparse(r.args[1]) == "()" and empty_arm):
            ok = False
    c.check(ok and n_b >= 1, "R06-SQUEEZE", "EinsumWithNoBroadcastsRewriter.map_einsum",
            "squeezes-only-broadcast-unit-axes", m.loc(m.module_of(me), me),
            "an operand is not rewritten with exactly its broadcast axes squeezed (the "
            "axes whose length differs from the einsum's length for their descriptor)")
    # args and descriptors are appended in step
    ok = False
    fin = find(me, f"return {ep}.replace_if_different(args=tuple($na), "
                   "access_descriptors=tuple($nd))")
    direct = [ast.unparse(s) for s in loop.body]
    ok = len(fin) == 1 and any(s.startswith(fin[0]["$na"] + ".append(") for s in direct) \
        and any(s.startswith(fin[0]["$nd"] + ".append(") for s in direct)
    c.check(ok, "R06-SQUEEZE", "EinsumWithNoBroadcastsRewriter.map_einsum",
            "args-and-descriptors-in-step", m.loc(m.module_of(me), me),
            "operands and access descriptors are no longer rebuilt in the same loop, "
            "unconditionally and in the same order")
    # rec: result squeezed after the un-squeezed recursion; key includes the axes
    rec = m.func(RBE + ".rec")
    ep, ap = rec.args.args[1].arg, rec.args.args[2].arg
    c.check(has(rec, f"$r = Mapper.rec(self, {ep}, ())")
            and (has(rec, f"self._squeeze_axes(_verify_is_array($r), {ap})")
                 or has(rec, f"self._squeeze_axes($r, {ap})")),
            "R06-SQUEEZE", "EinsumWithNoBroadcastsRewriter.rec", "squeeze-after-rewrite",
            m.loc(m.module_of(rec), rec),
            "the node is no longer rewritten without squeezing and squeezed afterwards")
    gk = m.func(RBE + ".get_cache_key")
    c.check(len(gk.args.args) == 3 and any(
        isinstance(r, ast.Return)
        and ast.unparse(r.value) == f"({gk.args.args[1].arg}, {gk.args.args[2].arg})"
        for r in ast.walk(gk)), "R06-SQUEEZE",
            "EinsumWithNoBroadcastsRewriter.get_cache_key", "key-includes-axes",
            m.loc(m.module_of(gk), gk),
            "the cache key does not include axes_to_squeeze: the same array reached "
            "with different squeeze requests shares one result")


SPEC = Spec(
    prop="C06",
    rules=[r_law, r_branch, r_ctx, r_wrap, r_squeeze],
    floors={"R06-LAW": 101, "R06-BRANCH": 7, "R06-CTX": 30, "R06-WRAP": 9,
            "R06-SQUEEZE": 4},
    explanation=(
        "R06-LAW: the AST of _can_hlo_be_distributed is evaluated by a finite "
        "abstract interpreter over BinaryOpType (members read from the enum) x "
        "{scalar,array}^2 x shapes_equal (unrecognised conjuncts become free "
        "booleans that are enumerated too); every point where it is true must be "
        "an algebraic identity for a linear map: +,- on two arrays of equal shape, "
        "* with a scalar operand, / with a scalar DENOMINATOR. R06-BRANCH: the handler is "
        "turned into its decision table (helpers inlined, locals propagated, early "
        "return = else); for every returned `l <op> r` the set of BinaryOpType values "
        "under which it is reached is computed from the tests on hlo.binary_op along "
        "the path; each such value must reach exactly one return, with its own "
        "operator, l = the recursion on x1 and r = the recursion on x2; "
        "handled = admitted, unknown raises. R06-CTX: on every path of every "
        "context-taking handler the einsum context is either passed down or "
        "consumed by wrapping, never both; the context dataclass is frozen and "
        "compares all fields; the cache key is (expr, ctx). R06-WRAP: the einsum is "
        "rebuilt from the context's own fields with exactly the free operand slot "
        "filled; map_einsum builds the context by dropping exactly ioperand. "
        "R06-SQUEEZE (on the normal form of map_einsum): every operand is rewritten "
        "with exactly B = its axes whose length differs from the einsum's length for "
        "their descriptor (or with () on the arm where B is empty), the descriptors "
        "kept are those not in B, operands and descriptors are rebuilt in step, the "
        "squeezed operand is indexed with 0 exactly on the squeezed axes, the cache "
        "key includes the squeeze axes."),
    not_decided=(
        "Numerical equality of original and rewritten expressions for all inputs "
        "and all policies; composition of nested distributions; correctness of the "
        "raiser's classification itself (C19)."),
)
