"""C17 -- code generation, partitioning and tag numbering are process-independent."""
from __future__ import annotations

import ast

from pta.check import Spec
from pta.model import AnalysisError
from pta.order import scan
from pta.tables.order_reviewed import REVIEWED, Reviewed

# modules whose behaviour ends up in the artefacts the property names
ARTEFACT_MODULES = [
    "pytato.target.loopy.codegen", "pytato.target.loopy", "pytato.codegen",
    "pytato.transform.lower_to_index_lambda", "pytato.target.python.numpy_like",
    "pytato.target.python", "pytato.target.python.jax",
    "pytato.distributed.partition", "pytato.distributed.tags",
    "pytato.transform", "pytato.transform.calls", "pytato.transform.materialize",
    "pytato.transform.metadata", "pytato.transform.dead_code_elimination",
    "pytato.transform.einsum_distributive_law",
    "pytato.transform.remove_broadcasts_einsum",
    # front end: builds the expressions the artefacts are generated from
    "pytato.array", "pytato.utils", "pytato.loopy", "pytato.function",
    "pytato.reductions", "pytato.cmath", "pytato.pad", "pytato.scalar_expr",
    "pytato.raising", "pytato.analysis", "pytato.distributed.nodes",
]
# modules that emit code: there the order of a DictOfNamedArrays is whatever the
# caller supplied (user dict / set-derived in the partitioner) and must be
# laundered by sorted(...) before it drives emission
EMITTERS = ["pytato.target.loopy.codegen", "pytato.codegen",
            "pytato.target.python.numpy_like", "pytato.target.loopy",
            "pytato.distributed.execute"]


def r_unordered(c):
    m = c.model
    mods = [x for x in ARTEFACT_MODULES if x in m.modules]
    if len(mods) < 14:
        raise AnalysisError(f"only {len(mods)} artefact modules found")
    sites = scan(m, mods)
    c.units["iteration_sites_over_unordered_values"] = len(sites)
    if len(sites) < 21:
        raise AnalysisError(f"only {len(sites)} iteration sites over unordered "
                            "values found (floor 21): type inference broken")
    rv = Reviewed(m)
    for s in sites:
        where = m.loc(m.module_of(s.node), s.node)
        inst = s.stmt_text[:120]
        if s.discharged:
            c.ok("R17-UNORDERED", s.func, inst, where,
                 f"{s.why}; discharged: {s.discharged}")
        elif (why_ := rv.lookup(s)) is not None:
            c.exempt("R17-UNORDERED", s.func, inst, where,
                     f"{s.why}; reviewed: {why_}")
        else:
            c.violation(
                "R17-UNORDERED", s.func, inst, where,
                f"iteration order of `{m.frag(s.iter_node, 60)}` ({s.why}) reaches "
                "ordered output: it depends on the interpreter's hash seed / object "
                "addresses. Sort it, use an ordered set, or review the instance",
                facts={"why": s.why, "key": s.key})
    for k in REVIEWED:
        if k not in rv.matched:
            c.notes.append(f"reviewed-instance entry no longer matches: {k[:90]}")


def r_emitter_dict_order(c):
    m = c.model
    mods = [x for x in EMITTERS if x in m.modules]
    sites = scan(m, mods, external_order_types={"DictOfNamedArrays"})
    n = 0
    rv = Reviewed(m)
    for s in sites:
        if "caller-determined order" not in s.why:
            continue
        n += 1
        where = m.loc(m.module_of(s.node), s.node)
        inst = s.stmt_text[:120]
        if s.discharged:
            c.ok("R17-DICT-ORDER", s.func, inst, where, s.discharged)
        elif (why_ := rv.lookup(s)) is not None:
            c.exempt("R17-DICT-ORDER", s.func, inst, where, why_)
        else:
            c.violation(
                "R17-DICT-ORDER", s.func, inst, where,
                f"code emission iterates `{m.frag(s.iter_node, 50)}` in the order its "
                "entries were supplied (user dict order, or set order in the "
                "partitioner) without sorted(...)",
                facts={"key": s.key})
    # the frontend that copies outputs for code generation sorts them
    fd = m.func("pytato.transform.copy_dict_of_named_arrays")
    srt = [n_ for n_ in ast.walk(fd) if isinstance(n_, (ast.DictComp, ast.For))]
    ok = False
    for n_ in srt:
        it = n_.generators[0].iter if isinstance(n_, ast.DictComp) else n_.iter
        if isinstance(it, ast.Call) and isinstance(it.func, ast.Name) \
                and it.func.id == "sorted" and "source_dict" in ast.unparse(it):
            ok = True
    c.check(ok, "R17-DICT-ORDER", "transform.copy_dict_of_named_arrays",
            "visits-outputs-in-sorted-order", m.loc(m.module_of(fd), fd),
            "the side-effecting code-generation mapper is applied to the outputs in "
            "the order the dictionary was filled (set order for distributed parts): "
            "generated names depend on the hash seed")
    if n < 2:
        raise AnalysisError(f"only {n} DictOfNamedArrays iterations in emitters")


def r_topo_key(c):
    """pytools' compute_topological_order is deterministic only with key="""
    m = c.model
    n = 0
    for mi, fd in m.all_functions():
        for call in ast.walk(fd):
            if isinstance(call, ast.Call) and ast.unparse(call.func).endswith(
                    "compute_topological_order"):
                n += 1
                if isinstance(getattr(call, "_parent", None), ast.Expr):
                    c.ok("R17-TOPO-KEY", m.qualname(fd).replace("pytato.", "", 1),
                         m.frag(call, 60), m.loc(mi, call),
                         "result discarded (cycle detection only)", nontrivial=False)
                    continue
                c.check(any(k.arg == "key" for k in call.keywords), "R17-TOPO-KEY",
                        m.qualname(fd).replace("pytato.", "", 1),
                        m.frag(call, 60), m.loc(mi, call),
                        "compute_topological_order is called without key=: ties are "
                        "broken by set/dict iteration order")
    if n < 1:
        raise AnalysisError("anchor vanished: compute_topological_order call")


def r_identity_order(c):
    """no id()/hash() in sort keys or generated names"""
    m = c.model
    n_sort = 0
    for mi, fd in m.all_functions(modules=[x for x in ARTEFACT_MODULES
                                            if x in m.modules]):
        if m.enclosing_function(fd) is not None:
            continue
        qn = m.qualname(fd).replace("pytato.", "", 1)
        for n in ast.walk(fd):
            if isinstance(n, ast.Call):
                fname = n.func.id if isinstance(n.func, ast.Name) else (
                    n.func.attr if isinstance(n.func, ast.Attribute) else "")
                if fname in ("sorted", "sort", "min", "max"):
                    n_sort += 1
                    for k in n.keywords:
                        if k.arg == "key":
                            src = ast.unparse(k.value)
                            bad = src in ("id", "hash") or any(
                                isinstance(x, ast.Call) and isinstance(x.func, ast.Name)
                                and x.func.id in ("id", "hash")
                                for x in ast.walk(k.value))
                            c.check(not bad, "R17-IDENTITY-ORDER", qn,
                                    m.frag(n, 60), m.loc(mi, n),
                                    "ordering by id()/hash(): differs between "
                                    "processes")
            if isinstance(n, ast.JoinedStr):
                for v in n.values:
                    if isinstance(v, ast.FormattedValue) and any(
                            isinstance(x, ast.Call) and isinstance(x.func, ast.Name)
                            and x.func.id in ("id", "hash") for x in ast.walk(v.value)):
                        par = getattr(n, "_parent", None)
                        # allowed in exception / log / warning messages only
                        p = n
                        in_msg = False
                        while p is not None and not isinstance(p, ast.stmt):
                            p = getattr(p, "_parent", None)
                        if isinstance(p, (ast.Raise, ast.Assert)) or (
                                isinstance(p, ast.Expr) and "warn" in ast.unparse(p)[:40]
                                or "logger" in ast.unparse(p)[:40]):
                            in_msg = True
                        c.check(in_msg, "R17-IDENTITY-ORDER", qn, m.frag(n, 60),
                                m.loc(mi, n),
                                "id()/hash() formatted into a string that is not an "
                                "error/log message: generated names would differ "
                                "between processes")
    c.ok("R17-IDENTITY-ORDER", "scope", f"{n_sort} sort/min/max calls inspected",
         "", nontrivial=False)
    if n_sort < 14:
        raise AnalysisError(f"only {n_sort} sort calls inspected")


def r_tag_numbering(c):
    """number_distributed_tags: no set union over ranks; ordered collection"""
    m = c.model
    fd = m.func("pytato.distributed.tags.number_distributed_tags")
    where = m.loc(m.module_of(fd), fd)
    src = ast.unparse(fd)
    # the collection gathered from all ranks and numbered is list/tuple-built
    sets = [n for n in ast.walk(fd) if isinstance(n, (ast.Set, ast.SetComp)) or (
        isinstance(n, ast.Call) and isinstance(n.func, ast.Name)
        and n.func.id in ("set", "frozenset"))]
    # sets may be used for membership only: not iterated, not gathered
    bad = []
    for s in sets:
        par = getattr(s, "_parent", None)
        if isinstance(par, ast.Compare):
            continue
        if isinstance(par, ast.Call) and isinstance(par.func, ast.Name) \
                and par.func.id in ("len", "sorted"):
            continue
        bad.append(s)
    c.check(not bad, "R17-TAG-NUMBERING", "distributed.tags.number_distributed_tags",
            "no-set-in-numbering-path", where,
            "a set takes part in collecting the symbolic tags that are numbered: the "
            "integers would differ between ranks/processes: "
            + "; ".join(m.frag(b, 50) for b in bad[:2]))


def r_state(c):
    """"identical when produced twice in one process", "other graphs built and
    discarded first": nothing an artefact is built from may live longer than the
    call that builds it (a module-level name generator or counter, a mutable
    default argument, a class-level table some method fills)"""
    from pta.rules.common import check_no_shared_state
    mods = sorted(x for x in c.model.modules
                  if not x.startswith(("pytato.visualization", "pytato.stringifier")))
    check_no_shared_state(
        c, "R17-STATE", mods,
        "what is generated (names, orders, tag numbers) depends on what was generated "
        "earlier in the same process", floor_funcs=500)


SPEC = Spec(
    prop="C17",
    rules=[r_unordered, r_emitter_dict_order, r_topo_key, r_identity_order,
           r_tag_numbering, r_state],
    floors={"R17-UNORDERED": 27, "R17-DICT-ORDER": 3, "R17-TOPO-KEY": 1,
            "R17-TAG-NUMBERING": 1, "R17-STATE": 25},
    explanation=(
        "R17-UNORDERED: local type inference finds every iteration (for loops, "
        "comprehensions, list()/tuple()/enumerate()/zip()/next(iter())/join/"
        "starred/unpacking/set.pop) over a value inferred to be a set/frozenset "
        "(displays, constructors, annotations through the alias table, dataclass "
        "fields, self attributes, functions/methods annotated to return sets, "
        "set-valued mapper results, set algebra) or a dict whose insertion order "
        "came from one, in all artefact-producing and front-end modules; an "
        "instance is discharged when order-insensitive by form (sorted, "
        "commutative consumer, commutative loop body, set result) or listed in the "
        "reviewed-instance table with a reason; anything else is a violation. "
        "R17-DICT-ORDER: in the emitting modules the entries of a DictOfNamedArrays "
        "are iterated only through sorted(...). R17-TOPO-KEY: "
        "compute_topological_order gets key=. R17-IDENTITY-ORDER: no id()/hash() in "
        "sort keys or generated strings. R17-TAG-NUMBERING: no set on the path "
        "that numbers communication tags. R17-STATE: no module of the package "
        "keeps state that outlives a call (mutable default arguments, class- or "
        "module-level containers that functions mutate): an artefact produced "
        "twice in one process is produced from the same inputs (canary fixture). "
        "sorted(x, key=k) counts as ordering x only when k cannot tie (no key, str/repr, .name, the key of .items())."),
    not_decided=(
        "Byte identity of C source produced by loopy and ordering inside loopy, "
        "islpy, mpi4py (trusted base); order dependence through a set hidden "
        "behind an un-annotated interface."),
)
