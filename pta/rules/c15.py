"""C15 -- names in generated code are faithful, unique and collision-free."""
from __future__ import annotations

import ast

from pta import paths as P
from pta.check import Spec
from pta.pat import find, has as phas
from pta.model import AnalysisError
from pta.rules.common import CGM, PREPROC, short

LC = "pytato.target.loopy.codegen"
NL = "pytato.target.python.numpy_like"
GENERATORS = ("var_name_gen", "insn_id_gen", "vng", "_generate_name_for_temp")
RESERVED = "_pt_"


def _is_gen_call(n):
    if not isinstance(n, ast.Call):
        return False
    f = ast.unparse(n.func)
    if f.split(".")[-1] in GENERATORS:
        return True
    # a local created as UniqueNameGenerator(...) in the enclosing function
    if isinstance(n.func, ast.Name):
        p = getattr(n, "_parent", None)
        while p is not None and not isinstance(p, (ast.FunctionDef, ast.AsyncFunctionDef)):
            p = getattr(p, "_parent", None)
        if p is not None:
            return phas(p, f"{n.func.id} = UniqueNameGenerator($$__a)") \
                or phas(p, f"{n.func.id} = UniqueNameGenerator()")
    return False


def r_seed_first(c):
    m = c.model
    # SEED = <...>var_name_gen.add_names(...); MINT = a call of the code
    # generation mapper instance created in the function, or of the helper
    # functions that generate code
    specs = [
        (LC + ".generate_loopy", ("CodeGenMapper",), ("add_store",)),
        (NL + ".generate_numpy_like", ("NumpyCodegenMapper",), ()),
        ("pytato.codegen.preprocess", (), ("copy_dict_of_named_arrays",)),
    ]
    for qn, mapper_classes, mint_funcs in specs:
        fd = m.inlined(m.func(qn))      # storing / seeding helpers are seen through

        gens = {e["$g"] for e in find(fd, "$g = UniqueNameGenerator($$__a)")} \
            | {e["$g"] for e in find(fd, "$g = UniqueNameGenerator()")}

        def is_seed(x, gens=gens):
            if not (isinstance(x, ast.Call) and isinstance(x.func, ast.Attribute)
                    and x.func.attr == "add_names"):
                return False
            r = x.func.value
            return (isinstance(r, ast.Attribute) and r.attr == "var_name_gen") \
                or (isinstance(r, ast.Name) and r.id in gens)
        nseeds = sum(1 for x in ast.walk(fd) if is_seed(x))
        mints = set(mint_funcs)
        for st in ast.walk(fd):
            if isinstance(st, (ast.Assign, ast.AnnAssign)) and isinstance(st.value, ast.Call) \
                    and isinstance(st.value.func, ast.Name) and st.value.func.id in mapper_classes:
                tg = st.targets[0] if isinstance(st, ast.Assign) else st.target
                if isinstance(tg, ast.Name):
                    mints.add(tg.id)
        if mapper_classes and len(mints) == len(mint_funcs):
            raise AnalysisError(f"anchor vanished: {mapper_classes} instance in {qn}")

        def cl(n, mints=mints, is_seed=is_seed):
            if isinstance(n, ast.Call):
                if is_seed(n):
                    return "SEED"
                if ast.unparse(n.func) in mints:
                    return "MINT"
            return None
        ps = P.walk(fd, cl)
        where = m.loc(m.module_of(fd), fd)
        name = qn.replace("pytato.", "", 1)
        c.check(nseeds >= 1, "R15-SEED-FIRST", name, "seeds-exist", where,
                "the name generator is never told the user's names")
        bad = []
        for (e, x) in ps:
            if "MINT" in e:
                i = e.index("MINT")
                if "SEED" in e[i:] or "SEED" not in e[:i]:
                    bad.append(e)
        has_mint = any("MINT" in e for (e, _x) in ps)
        c.check(has_mint and not bad, "R15-SEED-FIRST", name,
                "all-user-names-added-before-first-mint", where,
                f"a path mints a name before all add_names calls on that path are done "
                f"({bad[:1]}): a temporary can be given a name the user chose for an "
                "input or output")
    # what is seeded: inputs of all kinds and the output keys
    g = m.func(LC + ".generate_loopy")
    seeds = find(g, """$state.var_name_gen.add_names({$i.name for $n in $order
        for $i in $$ing($outs[$n].expr)
        if isinstance($i, Placeholder | SizeParam | DataWrapper) if $i.name is not None})""")
    c.check(len(seeds) == 1, "R15-SEED-FIRST", "target.loopy.codegen.generate_loopy",
            "seeds-input-names", m.loc(LC, g),
            "the names of all inputs (placeholders, size parameters, named data) of all "
            "outputs are not added to the generator")
    # preprocess(): before data wrappers are given generated names, ALL named
    # placeholders and size parameters are made known to the generator (a user
    # name need not look reserved to clash: Named("x") data next to placeholder x)
    pp = m.func("pytato.codegen.preprocess")
    pseeds = find(pp, """$mp.var_name_gen.add_names({$i.name for $i in InputGatherer()($$outs)
        if isinstance($i, Placeholder | SizeParam) and $i.name is not None})""") \
        + find(pp, """$mp.var_name_gen.add_names({$i.name for $i in InputGatherer()($$outs)
        if isinstance($i, Placeholder | SizeParam) if $i.name is not None})""")
    c.check(len(pseeds) == 1, "R15-SEED-FIRST", "codegen.preprocess",
            "seeds-every-named-input", m.loc("pytato.codegen", pp),
            "the preprocessor's name generator is not told the name of EVERY named "
            "placeholder and size parameter (no further filter on the name): a data wrapper "
            "named through a tag gets a name an input already has")
    outs_seeded = find(g, "$state.var_name_gen.add_names($outs)")
    c.check(len(outs_seeded) == 1 and (not seeds or (
        outs_seeded[0]["$outs"] == seeds[0]["$outs"]
        and outs_seeded[0]["$state"] == seeds[0]["$state"])),
            "R15-SEED-FIRST", "target.loopy.codegen.generate_loopy", "seeds-output-keys",
            m.loc(LC, g),
            "output keys are not added to the generator in a separate add_names call "
            "(which raises on a key that equals an input name)")
    g2 = m.func(NL + ".generate_numpy_like")
    ep = g2.args.args[0].arg
    s_in = find(g2, f"""$g.add_names({{$i.name for $i in InputGatherer()({ep})
        if isinstance($i, Placeholder | SizeParam | DataWrapper) if $i.name is not None}})""")
    c.check(len(s_in) == 1 and phas(g2, f"{s_in[0]['$g']}.add_names({ep})")
            and phas(g2, f"{s_in[0]['$g']}.add_names({{$$a, 'np', function_name}})"),
            "R15-SEED-FIRST", "target.python.numpy_like.generate_numpy_like",
            "seeds-inputs-outputs-and-module-names", m.loc(NL, g2),
            "the Python target does not reserve input names, output keys and the "
            "module/function names it emits")


def _prov(m, fd, node, depth=0):
    """provenance of a name-valued expression inside fd"""
    if _is_gen_call(node):
        return "GENERATED"
    if isinstance(node, ast.Attribute) and node.attr == "name":
        b = ast.unparse(node.value)
        if b in ("expr", "arg", "self"):
            return "USER"
        if isinstance(node.value, ast.Name):
            for st in ast.walk(fd):
                if isinstance(st, ast.Assign) and any(
                        isinstance(t, ast.Name) and t.id == b for t in st.targets) \
                        and ast.unparse(st.value).startswith("self.rec("):
                    return "STORED"       # name of an already implemented result
    if isinstance(node, ast.Constant) and node.value is None:
        return "NONE"
    if isinstance(node, ast.Subscript) and isinstance(node.value, ast.Name) and depth < 4:
        vals = [st.value for st in ast.walk(fd) if isinstance(st, ast.Assign)
                and isinstance(st.targets[0], ast.Subscript)
                and ast.unparse(st.targets[0].value) == node.value.id]
        if vals:
            ps_ = {_prov(m, fd, v, depth + 1) for v in vals}
            return "|".join(sorted(ps_))
        # the mapping is another local under a second name (an inlined helper's own)
        al = [st.value for st in ast.walk(fd) if isinstance(st, (ast.Assign, ast.AnnAssign))
              and st.value is not None and isinstance(st.value, ast.Name)
              and any(isinstance(t, ast.Name) and t.id == node.value.id for t in (
                  st.targets if isinstance(st, ast.Assign) else [st.target]))]
        if len(al) == 1 and al[0].id != node.value.id:
            return _prov(m, fd, ast.Subscript(value=ast.Name(id=al[0].id, ctx=ast.Load()),
                                              slice=node.slice, ctx=ast.Load()), depth + 1)
        # the mapping is built by a private helper: look at what the helper stores
        for st in ast.walk(fd):
            if isinstance(st, (ast.Assign, ast.AnnAssign)) and st.value is not None \
                    and isinstance(st.value, ast.Call) and any(
                        isinstance(t, ast.Name) and t.id == node.value.id
                        for t in (st.targets if isinstance(st, ast.Assign) else [st.target])):
                callee = next((f for f in m.private_callees(fd, 1)
                               if ast.unparse(st.value.func).split(".")[-1] == f.name), None)
                if callee is not None:
                    rets = [r.value for r in ast.walk(callee) if isinstance(r, ast.Return)
                            and isinstance(r.value, ast.Name)]
                    if rets:
                        sub = ast.Subscript(value=ast.Name(id=rets[0].id, ctx=ast.Load()),
                                            slice=node.slice, ctx=ast.Load())
                        return _prov(m, callee, sub, depth + 1)
    if isinstance(node, ast.Constant) and isinstance(node.value, str):
        return "LITERAL:" + node.value
    if isinstance(node, ast.JoinedStr):
        parts = []
        for v in node.values:
            if isinstance(v, ast.Constant):
                parts.append("LITERAL:" + v.value)
            else:
                parts.append(_prov(m, fd, v.value, depth + 1))
        named = [p for p in parts if not p.startswith("LITERAL") and p != "INDEX"]
        lit0 = parts[0] if parts and parts[0].startswith("LITERAL:") else None
        if named and all(_ok_prov(p) for p in named):
            return "EXTENDS:" + ",".join(sorted(set(named)))
        if lit0 and lit0[8:].startswith(RESERVED):
            return "RESERVED-PREFIX"
        return "OTHER:" + ast.unparse(node)[:40]
    if isinstance(node, ast.Name) and depth < 4:
        params = [a.arg for a in fd.args.posonlyargs + fd.args.args + fd.args.kwonlyargs]
        inner = m.enclosing_function(node)
        if inner is not None and inner is not fd:
            params += [a.arg for a in inner.args.args]
        if node.id in params:
            return "PARAM:" + node.id
        srcs = []
        for st in ast.walk(fd):
            if isinstance(st, (ast.Assign, ast.AnnAssign)):
                tg = st.targets if isinstance(st, ast.Assign) else [st.target]
                if any(isinstance(t, ast.Name) and t.id == node.id for t in tg) \
                        and st.value is not None:
                    srcs.append(_prov(m, fd, st.value, depth + 1))
            if isinstance(st, ast.For) and _inside(node, st) and any(
                    isinstance(t, ast.Name) and t.id == node.id
                    for t in ast.walk(st.target)):
                it = ast.unparse(st.iter)
                params_ = [a.arg for a in fd.args.args]
                if (isinstance(st.iter, ast.Name) and phas(fd, f"{st.iter.id} = $pp.compute_order")) \
                        or any(it == f"sorted({p_}.keys())" for p_ in params_):
                    srcs = ["OUTPUT_KEY"]
                    break
                srcs = ["INDEX" if it.startswith(("range(", "enumerate(")) else
                        "LOOP:" + it[:30]]
                if isinstance(st.iter, ast.Call) and ast.unparse(st.iter.func) == "zip" \
                        and isinstance(st.target, ast.Tuple):
                    for t, a in zip(st.target.elts, st.iter.args):
                        if isinstance(t, ast.Name) and t.id == node.id and isinstance(a, ast.Name):
                            lit = [x.value for x in ast.walk(fd) if isinstance(x, ast.Assign)
                                   and ast.unparse(x.targets[0]) == a.id]
                            if lit and all(isinstance(v, ast.Tuple) and all(
                                    isinstance(e, ast.Constant) for e in v.elts) for v in lit):
                                srcs = ["INDEX"]
                break
            if isinstance(st, (ast.ListComp, ast.GeneratorExp, ast.SetComp, ast.DictComp)) \
                    and _inside(node, st):
                for g in st.generators:
                    if any(isinstance(t, ast.Name) and t.id == node.id
                           for t in ast.walk(g.target)):
                        it = ast.unparse(g.iter)
                        srcs = ["INDEX" if it.startswith(("range(", "enumerate(")) else
                                "LOOP:" + it[:30]]
                if srcs and srcs[0].startswith(("INDEX", "LOOP")):
                    break
        if srcs and len(set(srcs)) == 1:
            return srcs[0]
        if srcs:
            return "|".join(sorted(set(srcs)))
    if isinstance(node, ast.IfExp):
        return "|".join(sorted({_prov(m, fd, node.body, depth + 1),
                                _prov(m, fd, node.orelse, depth + 1)}))
    return "OTHER:" + ast.unparse(node)[:40]


def _inside(node, container):
    p = node
    while p is not None:
        if p is container:
            return True
        p = getattr(p, "_parent", None)
    return False


GOOD = ("GENERATED", "USER", "OUTPUT_KEY", "RESERVED-PREFIX", "STORED", "NONE")


def _ok_prov(p):
    return all(x in GOOD or x.startswith("PARAM:") or x.startswith("EXTENDS:")
               for x in p.split("|"))


NAME_SINKS = {   # callee -> (positional index of the name, keyword)
    "lp.GlobalArg": (0, None), "lp.ValueArg": (0, None),
    "lp.TemporaryVariable": (0, None), "lp.SubstitutionRule": (0, None),
    "make_assignment": (None, "id"),
    "add_store": (0, None), "add_substitution": (0, None), "get_loopy_temporary": (0, None),
    "StoredResult": (0, None), "SubstitutionRuleResult": (0, None),
}


def _analysed(m, modname):
    """(function as analysed, qualified name) for the top-level functions and methods
    of a module: each with its private module-level helpers inlined; a helper all of
    whose calls were inlined is analysed through its callers and not on its own (its
    parameters get their provenance from the call site)"""
    mi = m.module(modname)
    tops = [fd for _mi, fd in m.all_functions(modules=[modname])
            if m.enclosing_function(fd) is None]
    inl = {}
    for fd in tops:
        try:
            inl[id(fd)] = m.inlined(fd)
        except AnalysisError:
            inl[id(fd)] = fd
    still_called, called = set(), set()
    for fd in tops:
        for x in ast.walk(fd):
            if isinstance(x, ast.Call) and isinstance(x.func, ast.Name):
                called.add(x.func.id)
        for x in ast.walk(inl[id(fd)]):
            if isinstance(x, ast.Call) and isinstance(x.func, ast.Name):
                still_called.add(x.func.id)
            elif isinstance(x, ast.Name) and isinstance(x.ctx, ast.Load) \
                    and x.id in mi.functions and not (
                        isinstance(getattr(x, "_parent", None), ast.Call)
                        and x._parent.func is x):
                still_called.add(x.id)       # handed on as a value
    for fd in tops:
        helper = isinstance(getattr(fd, "_parent", None), ast.Module) \
            and fd.name.startswith("_") and fd.name in called \
            and fd.name not in still_called
        if not helper:
            yield inl[id(fd)], m.qualname(fd).replace("pytato.", "", 1)


def r_provenance(c):
    m = c.model
    n = 0
    for modname in (LC, "pytato.codegen"):
        mi = m.module(modname)
        for fd, qn in _analysed(m, modname):
            if False:
                continue
            for call in ast.walk(fd):
                if not isinstance(call, ast.Call):
                    continue
                f = ast.unparse(call.func)
                if f not in NAME_SINKS:
                    continue
                pos, kw = NAME_SINKS[f]
                node = None
                if pos is not None and len(call.args) > pos:
                    node = call.args[pos]
                if kw is not None:
                    for k in call.keywords:
                        if k.arg == kw:
                            node = k.value
                if node is None:
                    continue
                n += 1
                p = _prov(m, fd, node)
                c.check(_ok_prov(p), "R15-PROVENANCE", qn, f"{f}:{m.frag(node, 30)}",
                        m.loc(mi, call),
                        f"the name handed to {f} has provenance {p}: it is neither "
                        "the user's name, an output key, nor minted by the seeded "
                        "generator / reserved _pt_ prefix",
                        ok_detail=p)
            # prefixes handed to generators are reserved or extend a validated name
            for call in ast.walk(fd):
                if _is_gen_call(call) and call.args and (
                        ast.unparse(call.func).endswith("insn_id_gen")
                        or (isinstance(call.func, ast.Name) and phas(
                            fd, f"{call.func.id} = UniqueNameGenerator(set(self.kernels_seen))"))):
                    c.exempt("R15-PROVENANCE", qn, f"prefix:{m.frag(call, 40)}",
                             m.loc(mi, call),
                             "instruction ids / callee kernel names are loopy name spaces "
                             "of their own, filled only through this generator",
                             nontrivial=False)
                    continue
                if _is_gen_call(call) and call.args and not ast.unparse(
                        call.func).endswith("_generate_name_for_temp"):
                    a = call.args[0]
                    if isinstance(a, ast.BinOp) and isinstance(a.op, ast.Add):
                        a = a.left
                    p = _prov(m, fd, a)
                    if isinstance(a, ast.Constant) and isinstance(a.value, str):
                        okp = a.value.startswith(RESERVED)
                    elif isinstance(a, ast.Attribute) and a.attr in ("prefix",):
                        okp = True      # PrefixNamed: the user's explicit wish
                    else:
                        okp = _ok_prov(p)
                    n += 1
                    c.check(okp, "R15-PROVENANCE", qn, f"prefix:{m.frag(call, 40)}",
                            m.loc(mi, call),
                            f"the name generator is asked for a name based on "
                            f"`{m.frag(a, 30)}` ({p}), which is neither in the reserved "
                            f"{RESERVED} space nor an extension of a validated name")
                if isinstance(call, ast.Call) and ast.unparse(call.func).endswith(
                        "_generate_name_for_temp"):
                    for k in call.keywords + [ast.keyword(arg="default_prefix", value=a_)
                                              for a_ in call.args[2:3]]:
                        if k.arg == "default_prefix" and isinstance(k.value, ast.Constant):
                            n += 1
                            c.check(k.value.value.startswith(RESERVED), "R15-PROVENANCE",
                                    qn, f"default_prefix:{k.value.value}", m.loc(mi, call),
                                    f"default prefix {k.value.value!r} is outside the "
                                    f"reserved {RESERVED} name space")
    # loop variables (inames): every element of an iname tuple is minted
    for fd, qn in _analysed(m, LC):
        for call in ast.walk(fd):
            if not isinstance(call, ast.Call):
                continue
            f = ast.unparse(call.func)
            cands = []
            if f == "domain_for_shape" and call.args:
                cands.append(call.args[0])
            if f == "add_store":
                cands += [k.value for k in call.keywords
                          if k.arg in ("store_inames", "result_inames")]
            for cand in cands:
                node = cand
                if isinstance(node, ast.Name):
                    asg = [s_.value for s_ in ast.walk(fd) if isinstance(s_, ast.Assign)
                           and any(isinstance(t, ast.Name) and t.id == node.id for t in s_.targets)]
                    asg = [a for a in asg if not (isinstance(a, ast.Constant) and a.value is None)]
                    if not asg:
                        continue        # a parameter: checked at the callers
                    node = asg[0]
                if isinstance(node, ast.Tuple) and not node.elts:
                    continue
                elt = None
                if isinstance(node, ast.Call) and ast.unparse(node.func) == "tuple" and node.args \
                        and isinstance(node.args[0], (ast.GeneratorExp, ast.ListComp)):
                    elt = node.args[0].elt
                if elt is None:
                    continue
                n += 1
                p = _prov(m, fd, elt)
                c.check(p == "GENERATED", "R15-PROVENANCE", qn,
                        f"inames:{m.frag(elt, 40)}", m.loc(LC, call),
                        f"loop-variable names `{m.frag(elt, 50)}` ({p}) are not drawn from "
                        "the seeded name generator: they can coincide with a user's "
                        "argument name")
    if n < 17:
        raise AnalysisError(f"only {n} name-provenance obligations (floor 17)")
    # default prefix of _generate_name_for_temp itself
    fd = m.func("pytato.codegen._generate_name_for_temp")
    for a, d in zip(reversed(fd.args.args), reversed(fd.args.defaults)):
        if a.arg == "default_prefix":
            c.check(d.value.startswith(RESERVED), "R15-PROVENANCE",
                    "codegen._generate_name_for_temp", f"default_prefix:{d.value}",
                    m.loc("pytato.codegen", fd), "default prefix outside the reserved space")


def r_generator_spaces(c):
    """variable-like names come from the variable generator, instruction ids
    from the instruction-id generator"""
    m = c.model
    n = 0
    for _mi, fd in m.all_functions(modules=[LC, "pytato.codegen"]):
        if m.enclosing_function(fd) is not None:
            continue
        qn = m.qualname(fd).replace("pytato.", "", 1)
        for call in ast.walk(fd):
            if not isinstance(call, ast.Call):
                continue
            f = ast.unparse(call.func)
            if f.endswith("_generate_name_for_temp") and len(call.args) >= 2:
                n += 1
                g = ast.unparse(call.args[1])
                c.check(g.endswith("var_name_gen"), "R15-PROVENANCE", qn,
                        f"name-space:{m.frag(call, 50)}", m.loc(m.module_of(fd), call),
                        f"a variable/temporary/substitution name is minted from `{g}` "
                        "instead of the variable-name generator that knows the user's "
                        "names: it can coincide with an input, output or temporary")
            if f == "make_assignment":
                for k in call.keywords:
                    if k.arg == "id":
                        n += 1
                        p = k.value
                        src = None
                        if isinstance(p, ast.Name):
                            for st in ast.walk(fd):
                                if isinstance(st, ast.Assign) and any(
                                        isinstance(t, ast.Name) and t.id == p.id
                                        for t in st.targets):
                                    src = ast.unparse(st.value)
                        c.check(src is not None and "insn_id_gen(" in src, "R15-PROVENANCE",
                                qn, f"name-space:id={m.frag(p, 30)}", m.loc(m.module_of(fd), call),
                                "an instruction id is not minted by the instruction-id "
                                "generator")
    if n < 5:
        raise AnalysisError(f"only {n} generator-name-space obligations (floor 5)")


def r_named(c):
    m = c.model
    fd = m.func("pytato.codegen._generate_name_for_temp")
    vg = fd.args.args[1].arg
    # (normal form: naming helpers inlined, a loop over a table of (tag type, namer)
    # rows written out)
    fd = m.normal(fd)

    def cl(n):
        if isinstance(n, ast.Call):
            f = ast.unparse(n.func)
            if f == f"{vg}.is_name_conflicting" and n.args:
                return "CHECK:" + ast.unparse(n.args[0])
            if f == f"{vg}.add_name" and n.args:
                return "ADD:" + ast.unparse(n.args[0])
        if isinstance(n, ast.Return) and n.value is not None:
            minted = any(isinstance(x, ast.Call) and ast.unparse(x.func) in (vg, f"{vg}.__call__")
                         for x in ast.walk(n.value))
            return "RETGEN" if minted else "RET:" + ast.unparse(n.value)
        if isinstance(n, ast.Raise):
            return "RAISE"
        return None
    ps = P.walk(fd, cl)
    where = m.loc("pytato.codegen", fd)
    bad = []
    n_user = 0
    for (e, x) in ps:
        rets = [l for l in e if l.startswith("RET:")]
        if not rets:
            continue
        n_user += 1
        v = rets[-1][4:]
        # the returned (user-chosen) name was tested for a conflict, then reserved
        # (the same expression, or the attribute it was read from)
        def same(lab, kind):
            a = lab[len(kind) + 1:]
            return a == v or a.endswith(".name") and v.endswith(".name") and a == v
        chk = [i for i, l in enumerate(e) if l.startswith("CHECK:") and same(l, "CHECK")]
        add = [i for i, l in enumerate(e) if l.startswith("ADD:") and same(l, "ADD")]
        if not (chk and add and chk[0] < add[0] < e.index(rets[-1])):
            bad.append(e)
    c.check(n_user and not bad, "R15-NAMED", "codegen._generate_name_for_temp",
            "conflict-test-then-reserve-then-return", where,
            "a path returns a name that the generator did not mint without first testing "
            f"that very name for a conflict and then reserving it ({bad[:1]}): two arrays "
            "can silently get the same name")
    # the conflict test raises
    ok = any(isinstance(i, ast.If) and f"{vg}.is_name_conflicting" in ast.unparse(i.test)
             and any(isinstance(s, ast.Raise) for s in i.body) for i in ast.walk(fd))
    c.check(ok, "R15-NAMED", "codegen._generate_name_for_temp", "conflict-raises", where,
            "a conflicting Named tag no longer raises")
    # every other path mints through the generator
    other = [e for (e, x) in ps if x == "return" and "RETGEN" not in e
             and not any(l.startswith("RET:") for l in e)]
    c.check(not other and any("RETGEN" in e for e, _x in ps), "R15-NAMED",
            "codegen._generate_name_for_temp",
            "other-paths-use-generator", where,
            "a path returns a name that was not minted by the generator")
    # Named is a unique tag: at most one name per array
    tg = m.cls("pytato.tags._BaseNameTag")
    c.check("UniqueTag" in " ".join(tg.base_srcs), "R15-NAMED", "tags._BaseNameTag",
            "unique-tag", m.loc(tg.module, tg.node),
            "naming tags are no longer unique per array")


def r_clash(c):
    m = c.model
    pv = m.func("pytato.codegen.NamesValidityChecker.post_visit")
    src = ast.unparse(pv)
    where = m.loc("pytato.codegen", pv)
    for k in ("Placeholder", "SizeParam", "DataWrapper"):
        c.check(any(isinstance(t, ast.Call) and ast.unparse(t.func) == "isinstance"
                    and k in ast.unparse(t.args[1]) for t in ast.walk(pv)),
                "R15-CLASH", "NamesValidityChecker.post_visit", f"covers:{k}", where,
                f"{k} inputs are not checked for name clashes")
    pe = pv.args.args[1].arg
    body = find(pv, f"""
try:
    $ary = self.name_to_input[{pe}.name]
except KeyError:
    self.name_to_input[{pe}.name] = {pe}
else:
    if $ary is not {pe}:
        from pytato.diagnostic import NameClashError
        raise NameClashError($$msg)
""")
    # the same with dict.setdefault: the first instance keeps the name, any other
    # instance under it is a clash (possibly in a helper handed the table)
    pvi = m.inlined(pv)
    body = body or [e for e in find(pvi, f"""
$o = self.name_to_input.setdefault({pe}.name, {pe})
if $o is not {pe}:
    from pytato.diagnostic import NameClashError
    raise NameClashError($$msg)
""")] or [e for e in find(pvi, f"""
$o = self.name_to_input.setdefault({pe}.name, {pe})
if $o is not {pe}:
    raise NameClashError($$msg)
""")]
    c.check(len(body) == 1, "R15-CLASH", "NamesValidityChecker.post_visit",
            "first-seen-recorded;different-object-same-name-raises", where,
            "the first input seen under a name is not recorded, or a different input "
            "object with the same name no longer raises NameClashError")
    pre = m.func("pytato.codegen.preprocess")

    def cl(n):
        if isinstance(n, ast.Call):
            f = ast.unparse(n.func)
            if f == "check_validity_of_outputs":
                return "VALIDATE"
            if f in ("inline_calls", "copy_dict_of_named_arrays", "CodeGenPreprocessor"):
                return "TRANSFORM"
        return None
    ps = P.walk(pre, cl)
    bad = P.precedes(ps, "VALIDATE", "TRANSFORM")
    c.check(not bad and any("VALIDATE" in e for e, _x in ps), "R15-CLASH",
            "codegen.preprocess", "validate-before-any-renaming",
            m.loc("pytato.codegen", pre),
            "inputs are renamed/transformed before name clashes are checked")
    cv = m.func("pytato.codegen.check_validity_of_outputs")
    mk = [x for x in ast.walk(cv) if isinstance(x, ast.Call)
          and ast.unparse(x.func) == "NamesValidityChecker"]
    in_loop = any(_inside(x, l) for x in mk for l in ast.walk(cv) if isinstance(l, (ast.For, ast.While)))
    c.check(len(mk) == 1 and not in_loop and any(isinstance(l, ast.For) for l in ast.walk(cv)),
        "R15-CLASH", "codegen.check_validity_of_outputs", "one-checker-for-all-outputs",
        m.loc("pytato.codegen", cv),
        "outputs are validated with separate checkers: a clash between two outputs' "
        "inputs goes unnoticed")
    # every code-generation entry point reaches the validity check before
    # generating anything
    from pta.rules.c03 import reach
    for qn, mint in ((LC + ".generate_loopy", "cg_mapper"),
                     (NL + ".generate_numpy_like", "cgen_mapper")):
        g = m.func(qn)
        cg = reach(m, [(qn, g)], depth=3)
        reaches = "pytato.codegen.check_validity_of_outputs" in cg
        c.check(reaches, "R15-CLASH", qn.replace("pytato.", "", 1),
                "reaches-check_validity_of_outputs", m.loc(m.module_of(g), g),
                "this code-generation entry point never runs the input-name validity "
                "check: two distinct inputs with the same name are silently merged")
    # the front end rejects reserved identifiers
    ci = m.func("pytato.array._check_identifier")
    c.check(any(isinstance(s, ast.Raise) for s in ast.walk(ci)) and "_pt_" in ast.unparse(
        m.module("pytato.array").tree.body[0]) or "isidentifier" in ast.unparse(ci),
        "R15-CLASH", "array._check_identifier", "validates-identifiers",
        m.loc("pytato.array", ci), "input names are no longer validated as identifiers")


def r_bound(c):
    m = c.model
    ci = m.cls(PREPROC)
    writes = []
    for mn, fd in ci.methods.items():
        for n in ast.walk(fd):
            if isinstance(n, ast.Assign) and isinstance(n.targets[0], ast.Subscript) \
                    and ast.unparse(n.targets[0].value) == "self.bound_arguments":
                writes.append((mn, n))
    c.check([w[0] for w in writes] == ["map_data_wrapper"], "R15-BOUND",
            "CodeGenPreprocessor", "only-map_data_wrapper-binds", m.loc(ci.module, ci.node),
            f"bound_arguments is written in {[w[0] for w in writes]}")
    for mn, n in writes:
        c.check(ast.unparse(n.value) == ci.methods[mn].args.args[1].arg + ".data", "R15-BOUND",
                f"CodeGenPreprocessor.{mn}", "binds-the-data-object-itself",
                m.loc(ci.module, n),
                f"the pre-bound argument is `{ast.unparse(n.value)}` rather than the "
                "wrapped data object, unmodified")
        key = ast.unparse(n.targets[0].slice)
        fd = ci.methods[mn]
        ph = [x for x in ast.walk(fd) if isinstance(x, ast.Call)
              and ast.unparse(x.func) == "Placeholder"]
        ok = ph and all(any(k.arg == "name" and ast.unparse(k.value) == key
                            for k in p.keywords) for p in ph)
        c.check(ok, "R15-BOUND", f"CodeGenPreprocessor.{mn}",
                "placeholder-named-like-binding", m.loc(ci.module, fd),
                "the placeholder standing in for the data and the key it is bound "
                "under differ")
    g = m.func(LC + ".generate_loopy")
    pres = find(g, "$pr = preprocess($$a, $$b)")
    c.check(bool(pres) and phas(g, f"$t.bind_program(program=$$p, bound_arguments={pres[0]['$pr']}.bound_arguments)"), "R15-BOUND",
            "generate_loopy", "hands-back-preprocessor-bindings", m.loc(LC, g),
            "the bound program does not get the preprocessor's bound arguments")
    pr = m.func("pytato.codegen.preprocess")
    mp_ = find(pr, "$mapper = CodeGenPreprocessor($$t)")
    c.check(bool(mp_) and phas(pr, f"PreprocessResult(outputs=$$o, compute_order=$$c, bound_arguments={mp_[0]['$mapper']}.bound_arguments)"), "R15-BOUND",
            "codegen.preprocess", "returns-mapper-bindings", m.loc("pytato.codegen", pr),
            "preprocess does not return the mapper's bound arguments")
    # user names stay as they are
    mp = m.resolve_method(PREPROC, "map_placeholder")[1]
    c.check(phas(mp, f"$n = {mp.args.args[1].arg}.name") and phas(
        mp, f"{mp.args.args[1].arg}.replace_if_different(name=$n, shape=$$s)"), "R15-BOUND",
            "CodeGenPreprocessor.map_placeholder", "keeps-user-name", m.loc(ci.module, mp),
            "a named placeholder does not keep its name through preprocessing")
    for meth, sink in (("map_placeholder", "lp.GlobalArg"), ("map_size_param", "lp.ValueArg")):
        fd = m.func(f"{CGM}.{meth}")
        # (in the handler or in a private helper that is handed the node)
        ok = any(isinstance(x, ast.Call) and ast.unparse(x.func) == sink
                 and x.args and ast.unparse(x.args[0]) == q + ".name"
                 for f_, q in m.handed_to(fd, fd.args.args[1].arg) for x in ast.walk(f_))
        c.check(ok, "R15-BOUND", f"CodeGenMapper.{meth}", "argument-named-expr.name",
                m.loc(LC, fd), f"the kernel argument is not created as {sink}(expr.name, ...)")


SPEC = Spec(
    prop="C15",
    rules=[r_seed_first, r_provenance, r_generator_spaces, r_named, r_clash, r_bound],
    floors={"R15-SEED-FIRST": 7, "R15-PROVENANCE": 25, "R15-NAMED": 2, "R15-CLASH": 6,
            "R15-BOUND": 5},
    explanation=(
        "R15-SEED-FIRST (must-precede on every path): in generate_loopy, "
        "generate_numpy_like and preprocess all add_names calls that tell the "
        "generator the user's input names and output keys precede the first call "
        "that can mint a name. R15-PROVENANCE: every string handed to "
        "lp.GlobalArg/ValueArg/TemporaryVariable/SubstitutionRule, instruction ids, "
        "add_store/add_substitution and result objects has provenance USER "
        "(expr.name), OUTPUT_KEY, minted by a generator, a parameter (checked at "
        "its callers) or an extension of one of those; literal prefixes given to "
        "generators lie in the reserved _pt_ space. R15-NAMED: the Named path tests "
        "for a conflict (raising), then reserves, then returns the name; all other "
        "paths mint. R15-CLASH: the validity checker covers the three named input "
        "kinds, raises on a different object with the same name, uses one checker "
        "for all outputs and runs before any renaming. R15-BOUND: data wrappers are "
        "bound under the name of their placeholder with the data object itself; "
        "user names reach the kernel arguments unchanged. "
        "R15-SEED-FIRST also: preprocess() tells its generator the name of every named placeholder and size parameter, with no further filter on the name."),
    not_decided=(
        "Collision freedom against names loopy invents later (accumulators, "
        "make_reduction_inames_unique), which live outside this repository."),
)
