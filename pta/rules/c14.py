"""C14 -- Python (NumPy-like / JAX) code generation."""
from __future__ import annotations

import ast
import sysconfig
from pathlib import Path

from pta.check import Spec
from pta.flow import Flow
from pta.model import AnalysisError
from pta.pat import find, has
from pta.rules.common import NPGEN, concrete_kinds, handler_name, sem_fields, short

NL = "pytato.target.python.numpy_like"
BINOP = "pytato.raising.BinaryOpType"


def numpy_all():
    p = Path(sysconfig.get_paths()["purelib"]) / "numpy" / "__init__.pyi"
    if not p.exists():
        raise AnalysisError("oracle missing: numpy/__init__.pyi")
    t = ast.parse(p.read_text())
    names = set()
    for n in t.body:
        if isinstance(n, ast.Assign) and any(
                isinstance(x, ast.Name) and x.id == "__all__" for x in n.targets):
            names |= {e.value for e in n.value.elts if isinstance(e, ast.Constant)}
    if len(names) < 300:
        raise AnalysisError("oracle broken: numpy __all__ too small")
    return names


def _table(m, name, module=NL):
    node = m.table(module, name)
    if isinstance(node, ast.Dict):
        return node
    raise AnalysisError(f"{module}.{name} is not a dict display")


def _str_values(d):
    return [v.value for v in d.values if isinstance(v, ast.Constant)
            and isinstance(v.value, str)]


def _set_elts(m, name, module="pytato.raising"):
    node = m.table(module, name)
    return {e.value for e in node.elts}


def emitted_names(m):
    """(name, where-node, how) for every attribute name the generator can emit on
    the array module / numpy."""
    out = []
    ci = m.cls(NPGEN)
    mi = ci.module
    funcs = list(ci.methods.values()) + [f for f in mi.functions.values()]
    for fd in funcs:
        local_assign = {}
        for st in ast.walk(fd):
            if isinstance(st, ast.Assign) and isinstance(st.targets[0], ast.Name):
                local_assign.setdefault(st.targets[0].id, []).append(st.value)
        for call in ast.walk(fd):
            if not (isinstance(call, ast.Call) and ast.unparse(call.func) == "ast.Attribute"):
                continue
            args = list(call.args) + [k.value for k in call.keywords
                                      if k.arg in ("value", "attr")]
            kw = {k.arg: k.value for k in call.keywords}
            base = call.args[0] if call.args else kw.get("value")
            attr = call.args[1] if len(call.args) > 1 else kw.get("attr")
            bsrc = ast.unparse(base) if base is not None else ""
            if "self.numpy" not in bsrc:
                continue     # attribute of a generated variable (x.T)
            for nm, how in _resolve_names(m, attr, local_assign, mi, fd=fd):
                out.append((nm, call, how, m.qualname(fd)))
    return out


def _resolve_names(m, node, local_assign, mi, depth=0, fd=None):
    if isinstance(node, ast.Call) and isinstance(node.func, ast.Name) \
            and node.func.id == "cast" and len(node.args) == 2:
        node = node.args[1]
    # a parameter of a private helper: what its callers (same module) pass
    if isinstance(node, ast.Name) and fd is not None and depth < 3 \
            and node.id not in local_assign and fd.name.startswith("_") \
            and node.id in [a.arg for a in fd.args.args + fd.args.kwonlyargs]:
        out, n_call = [], 0
        for g in ast.walk(mi.tree):
            if not isinstance(g, ast.FunctionDef) or g is fd:
                continue
            gl = {}
            for st in ast.walk(g):
                if isinstance(st, ast.Assign) and isinstance(st.targets[0], ast.Name):
                    gl.setdefault(st.targets[0].id, []).append(st.value)
            for call in ast.walk(g):
                if isinstance(call, ast.Call) and (
                        (isinstance(call.func, ast.Attribute) and call.func.attr == fd.name
                         and isinstance(call.func.value, ast.Name)
                         and call.func.value.id in ("self", "cls"))
                        or (isinstance(call.func, ast.Name) and call.func.id == fd.name)):
                    bind = m._bind_args(call, fd)
                    if bind is None or node.id not in bind:
                        return [("<unresolved:" + ast.unparse(node)[:40] + ">", "unresolved")]
                    n_call += 1
                    out += _resolve_names(m, bind[node.id], gl, mi, depth + 1, fd=g)
        if n_call:
            return out
    if isinstance(node, ast.Constant) and isinstance(node.value, str):
        return [(node.value, "literal")]
    if isinstance(node, ast.Subscript) and isinstance(node.value, ast.Name) \
            and node.value.id in mi.assigns:
        d = mi.assigns[node.value.id]
        if isinstance(d, ast.Dict):
            return [(v, f"table {node.value.id}") for v in _str_values(d)]
    if isinstance(node, ast.Name) and node.id in local_assign and depth < 3:
        out = []
        for v in local_assign[node.id]:
            out += _resolve_names(m, v, local_assign, mi, depth + 1)
        return out
    if isinstance(node, ast.Call) and isinstance(node.func, ast.Name) \
            and node.func.id == "_c99_callop_numpy_name":
        mism = _table(m, "MISMATCHED_C99_CALL_TO_NP_FUNC")
        keys = {k.value for k in mism.keys}
        funcs = _set_elts(m, "PT_C99UNARY_FUNCS") | _set_elts(m, "PT_C99BINARY_FUNCS")
        return [(v, "renamed c99 function") for v in _str_values(mism)] + \
               [(f, "c99 function") for f in sorted(funcs - keys)]
    if isinstance(node, ast.JoinedStr) or (
            isinstance(node, ast.Attribute) and "dtype" in ast.unparse(node)):
        return [("<dtype name>", "dynamic: name of a numpy scalar type")]
    # the result of a private helper of the module: whatever it can return
    if isinstance(node, ast.Call) and depth < 3 and (
            (isinstance(node.func, ast.Name) and node.func.id.startswith("_"))
            or (isinstance(node.func, ast.Attribute) and node.func.attr.startswith("_")
                and not node.func.attr.startswith("__")
                and isinstance(node.func.value, ast.Name)
                and node.func.value.id in ("self", "cls"))):
        hn = node.func.id if isinstance(node.func, ast.Name) else node.func.attr
        helpers = [g for g in ast.walk(mi.tree) if isinstance(g, ast.FunctionDef)
                   and g.name == hn]
        if len(helpers) == 1:
            h = helpers[0]
            hl = {}
            for st in ast.walk(h):
                if isinstance(st, ast.Assign) and isinstance(st.targets[0], ast.Name):
                    hl.setdefault(st.targets[0].id, []).append(st.value)
            rets = [r.value for r in ast.walk(h) if isinstance(r, ast.Return)
                    and r.value is not None]
            if rets:
                out = []
                for r in rets:
                    out += _resolve_names(m, r, hl, mi, depth + 1, fd=h)
                return out
    return [("<unresolved:" + ast.unparse(node)[:40] + ">", "unresolved")]


def r_namespace(c):
    m = c.model
    oracle = numpy_all()
    names = emitted_names(m)
    seen = set()
    for nm, node, how, fn in names:
        key = (nm, how)
        if key in seen:
            continue
        seen.add(key)
        where = m.loc(NL, node)
        if nm == "<dtype name>":
            c.exempt("R14-NAMESPACE", "NumpyCodegenMapper", nm, where,
                     "attribute is the name of the expression's numpy dtype taken "
                     "from numpy itself (np.dtype.type.__name__)", nontrivial=False)
        elif nm.startswith("<unresolved"):
            c.imprecise("R14-NAMESPACE", "NumpyCodegenMapper", nm, where,
                        "cannot resolve the set of names this attribute can take")
        else:
            c.check(nm in oracle, "R14-NAMESPACE", "NumpyCodegenMapper",
                    f"{nm} ({how})", where,
                    f"generated code refers to <array module>.{nm}, which the "
                    "installed NumPy does not export (numpy/__init__.pyi __all__): the "
                    "generated function fails with AttributeError when it runs")
    if len(seen) < 28:
        raise AnalysisError(f"only {len(seen)} emitted names found (floor 28)")


PY_OP = {"ADD": "Add", "SUB": "Sub", "MULT": "Mult", "TRUEDIV": "Div",
         "FLOORDIV": "FloorDiv", "MOD": "Mod", "POWER": "Pow", "BITWISE_OR": "BitOr",
         "BITWISE_XOR": "BitXor", "BITWISE_AND": "BitAnd"}
REDN = {"SumReductionOperation": "sum", "ProductReductionOperation": "prod",
        "MaxReductionOperation": "max", "MinReductionOperation": "min",
        "AllReductionOperation": "all", "AnyReductionOperation": "any"}


def r_tables(c):
    m = c.model
    from pta.rules.c06 import enum_members
    members = enum_members(m, BINOP)
    simple = _table(m, "SIMPLE_BINOP_TO_AST_OP")
    comp = _table(m, "COMPARISON_OP_TO_CALL")
    logi = _table(m, "LOGICAL_OP_TO_CALL")
    where = m.loc(NL, simple)
    keys = {}
    for name, d in (("SIMPLE_BINOP_TO_AST_OP", simple), ("COMPARISON_OP_TO_CALL", comp),
                    ("LOGICAL_OP_TO_CALL", logi)):
        for k, v in zip(d.keys, d.values):
            keys[k.attr] = (name, v)
    for mem in members:
        c.check(mem in keys, "R14-TABLES", "binary-op emitter tables", f"covers:{mem}",
                where, f"no emitter table has an entry for BinaryOpType.{mem}")
    for mem, (tbl, v) in sorted(keys.items()):
        if tbl == "SIMPLE_BINOP_TO_AST_OP":
            want = PY_OP.get(mem)
            got = v.attr if isinstance(v, ast.Attribute) else ast.unparse(v)
            c.check(want == got, "R14-TABLES", tbl, f"{mem}->ast.{got}", m.loc(NL, v),
                    f"BinaryOpType.{mem} is emitted as Python operator ast.{got}, "
                    f"expected ast.{want}")
        else:
            got = v.value
            c.check(got == mem.lower(), "R14-TABLES", tbl, f"{mem}->{got}", m.loc(NL, v),
                    f"BinaryOpType.{mem} is emitted as {got}(), expected {mem.lower()}()")
    # the branch tests select exactly the keys of the table they index
    fd = m.func(NPGEN + ".map_index_lambda")
    hl_ = find(fd, f"$h = index_lambda_to_high_level_op({fd.args.args[1].arg})")
    if len(hl_) != 1:
        raise AnalysisError("anchor vanished: raised operation in NumpyCodegenMapper.map_index_lambda")
    hv = hl_[0]["$h"]
    for iff in ast.walk(fd):
        if isinstance(iff, ast.If) and isinstance(iff.test, ast.Compare) \
                and ast.unparse(iff.test.left) == f"{hv}.binary_op" \
                and isinstance(iff.test.ops[0], ast.In) \
                and isinstance(iff.test.comparators[0], (ast.Set, ast.List, ast.Tuple)):
            sel = {e.attr for e in iff.test.comparators[0].elts}
            used = None
            for t in ("SIMPLE_BINOP_TO_AST_OP", "COMPARISON_OP_TO_CALL",
                      "LOGICAL_OP_TO_CALL"):
                if any(t in ast.unparse(s) for s in iff.body):
                    used = t
            if used:
                tk = {k for k, (tn, _v) in keys.items() if tn == used}
                c.check(sel <= tk, "R14-TABLES", "NumpyCodegenMapper.map_index_lambda",
                        f"branch-selects-keys-of:{used}", m.loc(NL, iff),
                        f"the branch admits {sorted(sel - tk)} which {used} has no entry "
                        "for (KeyError at code generation time)")
    # composite with the raiser's table: pymbolic node type -> BinaryOpType -> operator
    rsimple = m.table("pytato.raising", "_SIMPLE_PYMBOLIC_BINARY_OP_MAP")
    PYM = {"Sum": "Add", "Product": "Mult", "Quotient": "Div", "FloorDiv": "FloorDiv",
           "Power": "Pow", "Remainder": "Mod", "BitwiseOr": "BitOr",
           "BitwiseAnd": "BitAnd", "BitwiseXor": "BitXor"}
    for k, v in zip(rsimple.keys, rsimple.values):
        if k.attr in PYM and v.attr in keys and keys[v.attr][0] == "SIMPLE_BINOP_TO_AST_OP":
            got = keys[v.attr][1].attr
            c.check(got == PYM[k.attr], "R14-TABLES", "raiser x emitter tables",
                    f"{k.attr}->{v.attr}->ast.{got}", m.loc("pytato.raising", k),
                    f"a pymbolic {k.attr} is raised to {v.attr} and emitted as ast.{got} "
                    f"(expected ast.{PYM[k.attr]})")
    # reductions
    red = m.table(NL, "PYTATO_REDUCTION_TO_NP_REDUCTION")
    rk = {k.id: v.value for k, v in zip(red.keys, red.values)}
    ops = [q for q in m.subclasses("pytato.reductions.ReductionOperation", strict=True)
           if not m.is_abstract(q) and not m.subclasses(q, strict=True)]
    if len(ops) < 6:
        raise AnalysisError("anchor vanished: ReductionOperation subclasses")
    for q in ops:
        c.check(short(q) in rk, "R14-TABLES", "PYTATO_REDUCTION_TO_NP_REDUCTION",
                f"covers:{short(q)}", m.loc(NL, red),
                f"{short(q)} has no NumPy reduction name")
        if short(q) in rk and short(q) in REDN:
            c.check(rk[short(q)] == REDN[short(q)], "R14-TABLES",
                    "PYTATO_REDUCTION_TO_NP_REDUCTION", f"{short(q)}->{rk[short(q)]}",
                    m.loc(NL, red),
                    f"{short(q)} is emitted as {rk[short(q)]}(), expected "
                    f"{REDN[short(q)]}()")
    # every HighLevelOp subclass is handled or the cascade ends in a raise
    hl = [short(q) for q in m.subclasses("pytato.raising.HighLevelOp", strict=True)]
    handled = {ast.unparse(t.args[1]) for t in ast.walk(fd) if isinstance(t, ast.Call)
               and ast.unparse(t.func) == "isinstance" and ast.unparse(t.args[0]) == hv}
    tail_raises = any(isinstance(s, ast.Raise) and s.exc is not None
                      and ast.unparse(s.exc).startswith("NotImplementedError(")
                      for s in ast.walk(fd))
    for h in hl:
        c.check(h in handled or tail_raises, "R14-TABLES",
                "NumpyCodegenMapper.map_index_lambda", f"hlo:{h}", m.loc(NL, fd),
                f"{h} is neither handled nor rejected")


PY_OPERATOR_NODES = {"Add", "Sub", "Mult", "Div", "FloorDiv", "Mod", "Pow", "BitOr", "BitXor",
                     "BitAnd", "LShift", "RShift", "MatMult", "Invert", "Not", "UAdd", "USub",
                     "And", "Or", "Eq", "NotEq", "Lt", "LtE", "Gt", "GtE", "Is", "IsNot", "In",
                     "NotIn"}


def r_operator_inventory(c):
    """which Python operators the emitter can put into generated code: only the
    ones in the operator table (whose entries R14-TABLES checks one by one).
    Everything else -- comparisons, logical operations, negation -- has to be a
    NumPy call, because Python's own operators mean something else on arrays
    (`~x` is bitwise, `a and b` / `not a` raise or take truth values)"""
    m = c.model
    tbl = m.table(NL, "SIMPLE_BINOP_TO_AST_OP")
    in_table = {id(v) for v in tbl.values}
    n = 0
    for mi, fd in m.all_functions(modules=[NL]):
        # the one admitted use outside the table: an explicit minus in front of a
        # scalar CONSTANT (`ast.UnaryOp(ast.USub(), <constant>)`): no array is involved
        neg_const = set()
        for u in ast.walk(fd):
            if isinstance(u, ast.Call) and ast.unparse(u.func) == "ast.UnaryOp" \
                    and len(u.args) == 2 and ast.unparse(u.args[0]) == "ast.USub()" \
                    and isinstance(u.args[1], ast.Call) and ast.unparse(u.args[1].func) in (
                        "_constant", "ast.Constant"):
                neg_const |= {id(u.func), id(u.args[0].func)}
        for x in ast.walk(fd):
            if id(x) in neg_const:
                continue
            if isinstance(x, ast.Attribute) and isinstance(x.value, ast.Name) \
                    and x.value.id == "ast" and x.attr in PY_OPERATOR_NODES \
                    and id(x) not in in_table:
                n += 1
                c.violation("R14-TABLES", m.qualname(fd).replace("pytato.", "", 1),
                            f"python-operator:ast.{x.attr}", m.loc(mi, x),
                            f"the emitter builds the Python operator ast.{x.attr} directly "
                            "(outside SIMPLE_BINOP_TO_AST_OP): on arrays Python's operator "
                            "is not the NumPy function of the same name (e.g. ~x is bitwise "
                            "inversion, not logical_not)")
            if isinstance(x, ast.Attribute) and isinstance(x.value, ast.Name) \
                    and x.value.id == "ast" and x.attr in ("UnaryOp", "BoolOp", "Compare"):
                n += 1
                c.violation("R14-TABLES", m.qualname(fd).replace("pytato.", "", 1),
                            f"python-operator:ast.{x.attr}", m.loc(mi, x),
                            f"the emitter builds an ast.{x.attr} node: unary, boolean and "
                            "comparison operators of Python do not have NumPy's element-wise "
                            "meaning (or type) on arrays; they must be emitted as calls")
    c.ok("R14-TABLES", "target.python.numpy_like", "python-operators-only-from-the-table",
         m.loc(NL, tbl), f"{len(tbl.values)} operators, all table entries",
         nontrivial=len(tbl.values) > 0)


def r_consume(c):
    m = c.model
    flow = Flow(m, NPGEN, max_depth=6)
    n = 0
    for k in concrete_kinds(m, with_funcdef=False):
        mm = handler_name(m, NPGEN, k)
        if mm is None or short(k) in ("IndexLambda",):
            continue
        s = flow.handler(mm, k)
        if s.raises_only:
            continue
        reads = {p[0].lstrip("@") for p in s.read_paths("expr") if p}
        reads |= {q for p in s.read_paths("expr") for q in p}
        expr_prop = m.resolve_attr_kind(k, "expr")
        from pta.flow import _raises_only
        if mm == "map_named_array" and expr_prop and expr_prop[0] == "property" \
                and _raises_only(expr_prop[2]):
            continue    # handler goes through .expr, which raises for this kind
        for f in sem_fields(m, k):
            if "pytato.array.InputArgumentBase" in m.mro(k) and f in ("shape", "dtype"):
                c.exempt("R14-CONSUME", f"NumpyCodegenMapper.{mm}", f"{short(k)}.{f}",
                         s.where[2], "shape/dtype of an input describe the array the "
                         "caller supplies; the dynamically typed target has nothing to "
                         "declare", nontrivial=False)
                continue
            n += 1
            ok = f in reads or ("@shape" in {q for p in s.read_paths("expr") for q in p}
                                and f in ("newshape",))
            c.check(ok, "R14-CONSUME", f"NumpyCodegenMapper.{mm}", f"{short(k)}.{f}",
                    s.where[2],
                    f"the handler never reads {short(k)}.{f}: two nodes differing only "
                    "there generate the same code (runs, but computes something else)")
    if n < 14:
        raise AnalysisError(f"only {n} field-consumption obligations (floor 14)")


def r_args(c):
    m = c.model
    ci = m.cls(NPGEN)
    # who writes arg_names / bound_arguments
    writers = {"arg_names": set(), "bound_arguments": set()}
    bound_vals = []
    for mn, fd in ci.methods.items():
        if mn == "__init__":
            continue
        for n in ast.walk(fd):
            if isinstance(n, ast.Call) and isinstance(n.func, ast.Attribute) \
                    and ast.unparse(n.func.value) == "self.arg_names":
                writers["arg_names"].add(mn)
            if isinstance(n, ast.Assign) and isinstance(n.targets[0], ast.Subscript) \
                    and ast.unparse(n.targets[0].value) == "self.bound_arguments":
                writers["bound_arguments"].add(mn)
                bound_vals.append((n, ast.unparse(n.value),
                                   ast.unparse(n.targets[0].slice)))
    where = m.loc(ci.module, ci.node)
    c.check(writers["arg_names"] == {"map_placeholder", "map_data_wrapper"},
            "R14-ARGS", "NumpyCodegenMapper", "arg_names-writers", where,
            f"argument names are added in {sorted(writers['arg_names'])}, expected "
            "exactly map_placeholder and map_data_wrapper")
    c.check(writers["bound_arguments"] == {"map_data_wrapper"}, "R14-ARGS",
            "NumpyCodegenMapper", "bound_arguments-writers", where,
            f"bound arguments are written in {sorted(writers['bound_arguments'])}")
    for (n, v, k) in bound_vals:
        c.check(v == ci.methods["map_data_wrapper"].args.args[1].arg + ".data",
                "R14-ARGS", "NumpyCodegenMapper.map_data_wrapper",
                "binds-the-wrapped-data-itself", m.loc(ci.module, n),
                f"the pre-bound argument is `{v}`, not the wrapper's data object")
        fd = ci.methods["map_data_wrapper"]
        added = [ast.unparse(x.args[0]) for x in ast.walk(fd) if isinstance(x, ast.Call)
                 and ast.unparse(x.func) == "self.arg_names.add"]
        rets = [ast.unparse(r.value) for r in ast.walk(fd) if isinstance(r, ast.Return)]
        c.check(added == [k] and rets == [k], "R14-ARGS",
                "NumpyCodegenMapper.map_data_wrapper", "one-name-for-arg-binding-and-use",
                m.loc(ci.module, fd),
                f"the name added to the arguments ({added}), the key of the bound data "
                f"({k}) and the name used in the code ({rets}) differ")
    fd = ci.methods["map_placeholder"]
    added = [ast.unparse(x.args[0]) for x in ast.walk(fd) if isinstance(x, ast.Call)
             and ast.unparse(x.func) == "self.arg_names.add"]
    rets = [ast.unparse(r.value) for r in ast.walk(fd) if isinstance(r, ast.Return)]
    pn = fd.args.args[1].arg + ".name"
    c.check(added == [pn] and rets == [pn], "R14-ARGS",
            "NumpyCodegenMapper.map_placeholder", "argument-is-the-placeholder-name",
            m.loc(ci.module, fd),
            f"placeholder adds {added} as argument and uses {rets} in the code")
    # generate_numpy_like: parameter list and expected arguments from one collection
    g = m.normal(m.func(NL + ".generate_numpy_like"))    # intermediates propagated
    src = ast.unparse(g)
    kwonly = [k.value for call in ast.walk(g) if isinstance(call, ast.Call)
              and ast.unparse(call.func) == "ast.arguments"
              for k in call.keywords if k.arg == "kwonlyargs"]
    exp = [k.value for call in ast.walk(g) if isinstance(call, ast.Call)
           for k in call.keywords if k.arg == "expected_arguments"]
    bnd = [k.value for call in ast.walk(g) if isinstance(call, ast.Call)
           for k in call.keywords if k.arg == "bound_arguments"]
    # (propagating a local to several uses repeats its value: one construction site
    # is one text)
    def _uniq(nodes):
        return list({ast.dump(x): x for x in nodes}.values())
    kwonly, exp, bnd = _uniq(kwonly), _uniq(exp), _uniq(bnd)
    wh = m.loc(NL, g)
    cg_ = find(g, "$cg = NumpyCodegenMapper($$__a)") + find(g, "$cg = NumpyCodegenMapper($$__a, $$__b)") \
        + [e for e in find(g, "$cg = $$f") if ast.unparse(e["@node"].value).startswith(
            "NumpyCodegenMapper(")]
    if not cg_:
        raise AnalysisError("anchor vanished: NumpyCodegenMapper instance in generate_numpy_like")
    cgv = cg_[0]["$cg"]
    c.check(len(kwonly) == 1 and f"{cgv}.arg_names" in ast.unparse(kwonly[0]),
            "R14-ARGS", "generate_numpy_like", "kwonlyargs-from-arg_names", wh,
            "the keyword-only parameter list is not built from the mapper's arg_names")
    c.check(len(exp) == 1 and f"{cgv}.arg_names" in ast.unparse(exp[0]),
            "R14-ARGS", "generate_numpy_like", "expected_arguments-from-arg_names", wh,
            "expected_arguments is not built from the mapper's arg_names")
    c.check(len(bnd) == 1 and f"{cgv}.bound_arguments" in ast.unparse(bnd[0]),
            "R14-ARGS", "generate_numpy_like", "bound_arguments-from-mapper", wh,
            "bound_arguments handed to the program are not the mapper's")
    for kd in _uniq([x for x in ast.walk(g) if isinstance(x, ast.Call)]):
        if isinstance(kd, ast.Call) and ast.unparse(kd.func) == "ast.arguments":
            kws = {k.arg: k.value for k in kd.keywords}
            a, d = kws.get("kwonlyargs"), kws.get("kw_defaults")
            same_len = a is not None and d is not None and \
                f"{cgv}.arg_names" in ast.unparse(d)
            c.check(same_len, "R14-ARGS", "generate_numpy_like",
                    "kw_defaults-same-length", wh,
                    "kw_defaults is not built from the same collection as kwonlyargs")
            for nm in ("args", "posonlyargs", "defaults"):
                c.check(nm in kws and ast.unparse(kws[nm]) == "[]", "R14-ARGS",
                        "generate_numpy_like", f"no-{nm}", wh,
                        f"the generated function takes {nm}: inputs are no longer "
                        "exactly keyword arguments")
    # BoundPythonProgram.__call__ rejects anything but the expected names
    bc = m.func("pytato.target.python.BoundPythonProgram.__call__")
    bsrc = ast.unparse(bc)
    c.check("self.expected_arguments" in bsrc and any(
        isinstance(s, ast.Raise) for s in ast.walk(bc)), "R14-ARGS",
        "BoundPythonProgram.__call__", "checks-expected-arguments",
        m.loc(m.module_of(bc), bc),
        "the bound program no longer validates its keyword arguments against "
        "expected_arguments")


def r_unsupported(c):
    m = c.model
    flow = Flow(m, NPGEN, max_depth=2)
    r = m.resolve_method(NPGEN, "handle_unsupported_array")
    from pta.flow import _raises_only
    c.check(r is not None and _raises_only(r[1]), "R14-UNSUPPORTED",
            "NumpyCodegenMapper.handle_unsupported_array", "raises",
            m.loc(m.module_of(r[1]), r[1]),
            "unsupported node kinds no longer raise")
    for k in concrete_kinds(m, with_funcdef=False):
        mm = handler_name(m, NPGEN, k)
        ci = m.classes[k]
        if mm is None:
            c.ok("R14-UNSUPPORTED", "NumpyCodegenMapper", f"{short(k)}:no-handler->raises",
                 m.loc(ci.module, ci.node), nontrivial=False)
            continue
        owner, fd = m.resolve_method(NPGEN, mm)
        src = ast.unparse(fd)
        if "not yet supported" in src or "not supported" in src.lower():
            c.check(_raises_only(fd), "R14-UNSUPPORTED", f"NumpyCodegenMapper.{mm}",
                    f"{short(k)}:declared-unsupported-raises", m.loc(m.module_of(fd), fd),
                    "a handler that declares the construct unsupported does more than "
                    "raise")


def r_intclass(c):
    """the Python target treats NumPy integers in shapes and indices as integers
    (shared with R16-INTCLASS)"""
    from pta.rules.c16 import int_tests
    int_tests(c, "R14-UNSUPPORTED", [NL])
    c.ok("R14-UNSUPPORTED", "target.python.numpy_like",
         "integer-tests-on-shape-components-use-INT_CLASSES", "pytato/target/python/numpy_like.py:1",
         nontrivial=False)


CREATORS = ("zeros", "ones", "full", "empty", "zeros_like", "ones_like", "full_like",
            "empty_like", "arange")


def r_creator_dtype(c):
    """whatever the emitter CREATES (zeros, ones, full, *_like) gets the dtype of the
    node spelled out, unless the node's dtype is the backend's default (float):
    zeros_like(x) has x's dtype, not the dtype the node was built with"""
    m = c.model
    ci = m.cls(NPGEN)
    n = 0
    for mn, fd in sorted(ci.methods.items()):
        ep = fd.args.args[1].arg if len(fd.args.args) > 1 else None
        fd = m.expand_locals(fd)     # hoisted `dtype_kwarg = ...` locals are seen through

        def guard(t):
            """+1: test that the dtype IS the default float, -1: that it is not"""
            sign = 1
            while isinstance(t, ast.UnaryOp) and isinstance(t.op, ast.Not):
                t, sign = t.operand, -sign
            if isinstance(t, ast.Compare) and len(t.ops) == 1 \
                    and isinstance(t.ops[0], (ast.Eq, ast.NotEq)):
                ops = {ast.unparse(t.left), ast.unparse(t.comparators[0])}
                if ops in ({f"{ep}.dtype", "np.dtype(float)"}, {f"{ep}.dtype", "np.float64"}):
                    return sign if isinstance(t.ops[0], ast.Eq) else -sign
            return 0

        def dtype_in(e):
            return any(
                isinstance(x, ast.Call) and ast.unparse(x.func) == "ast.keyword"
                and any(k.arg == "arg" and ast.unparse(k.value) in ("'dtype'", '"dtype"')
                        for k in x.keywords)
                and f"{ep}.dtype" in ast.unparse(x) for x in ast.walk(e))
        def const_values(name):
            """the string constants a local is bound to (None when it is bound to
            anything else)"""
            vals = []
            for a in ast.walk(fd):
                if isinstance(a, (ast.Assign, ast.AnnAssign)) and a.value is not None and any(
                        isinstance(t, ast.Name) and t.id == name for t in (
                            a.targets if isinstance(a, ast.Assign) else [a.target])):
                    if isinstance(a.value, ast.Constant) and isinstance(a.value.value, str):
                        vals.append(a.value.value)
                    else:
                        return None
            return vals or None

        def guard_for(t, var, val):
            """guard() of a test in which the local `var` (the creator's name) is
            known to be `val`: 0 undecided, +1/-1 as guard(), 'never' when the test
            cannot be true"""
            conj = t.values if isinstance(t, ast.BoolOp) and isinstance(t.op, ast.And) else [t]
            g = 0
            for x in conj:
                if var is not None and isinstance(x, ast.Compare) and len(x.ops) == 1 \
                        and isinstance(x.left, ast.Name) and x.left.id == var:
                    rhs = x.comparators[0]
                    cs = None
                    if isinstance(rhs, ast.Constant):
                        cs = {rhs.value}
                    elif isinstance(rhs, (ast.Tuple, ast.List, ast.Set)) and all(
                            isinstance(e_, ast.Constant) for e_ in rhs.elts):
                        cs = {e_.value for e_ in rhs.elts}
                    if cs is not None:
                        pos = isinstance(x.ops[0], (ast.Eq, ast.In))
                        if (val in cs) != pos:
                            return "never"
                        continue
                gx = guard(x)
                if gx > 0:
                    g = 1
                elif gx < 0 and len(conj) == 1:
                    g = -1
            return g
        for call in ast.walk(fd):
            if not (isinstance(call, ast.Call) and ast.unparse(call.func) == "ast.Call"
                    and call.args and isinstance(call.args[0], ast.Call)
                    and ast.unparse(call.args[0].func) == "ast.Attribute"
                    and len(call.args[0].args) == 2):
                continue
            nm = call.args[0].args[1]
            var = None
            if isinstance(nm, ast.Constant):
                creators = [nm.value] if nm.value in CREATORS else []
            elif isinstance(nm, ast.Name):
                var = nm.id
                creators = [v for v in (const_values(nm.id) or []) if v in CREATORS]
            else:
                creators = []
            kws = next((k.value for k in call.keywords if k.arg == "keywords"), None)
            for creator in sorted(set(creators)):
                n += 1
                default_guard = False
                if isinstance(kws, ast.IfExp):
                    # keywords=[] if <default dtype> else [dtype keyword]
                    g = guard_for(kws.test, var, creator)
                    if g == "never":
                        has_dtype = dtype_in(kws.orelse)
                    elif g:
                        dflt, other = (kws.body, kws.orelse) if g > 0 \
                            else (kws.orelse, kws.body)
                        has_dtype = dtype_in(other) and (dtype_in(dflt)
                                                         or not creator.endswith("_like"))
                    else:
                        has_dtype = dtype_in(kws.body) and dtype_in(kws.orelse)
                else:
                    has_dtype = kws is not None and dtype_in(kws)
                p = call
                while p is not fd:
                    par = p._parent
                    if isinstance(par, ast.If) and (
                            (p in par.body and guard(par.test) > 0)
                            or (p in par.orelse and guard(par.test) < 0)):
                        default_guard = True
                    p = par
                ok = has_dtype or (default_guard and not creator.endswith("_like"))
                c.check(ok, "R14-CONSUME", f"NumpyCodegenMapper.{mn}",
                        f"creates-with-the-node's-dtype:{creator}", m.loc(ci.module, call),
                        f"`{creator}(...)` is emitted without dtype={ep}.dtype (and not under a "
                        "test that the dtype is the default float): the generated program "
                        "returns another dtype than the expression declares "
                        "(zeros_like(a, dtype=int32) comes back as float64)")
    if n < 2:
        raise AnalysisError(f"only {n} array-creating emissions found (floor 2)")


def r_scalar_constants(c):
    """a scalar operand reaches the generated source through ast.Constant, i.e. through
    its repr: that is an expression of the same value only for finite, non-negative
    numbers (`-2 ** x` is -(2 ** x); the repr of a non-finite numpy scalar names `inf`
    / `nan`).  The emitter's scalar path therefore (tabulated by case-split
    evaluation) builds the value from its string form where it is not finite and
    negates explicitly where it is negative"""
    m = c.model
    from pta import symrun
    fd = m.cls(NPGEN).methods["map_index_lambda"]
    helper = next((x for x in ast.walk(fd) if isinstance(x, ast.FunctionDef)
                   and x.name == "_rec_ary_or_constant"), None)
    if helper is None:
        cands = [x for x in m.scope(fd) if "_constant(" in ast.unparse(x) and x is not fd]
        helper = cands[0] if cands else None
    if helper is None:
        raise AnalysisError("anchor vanished: scalar/array operand emitter of the Python target")
    where = m.loc(NL, helper)
    ep = helper.args.args[-1].arg
    try:
        tab = symrun.table(m.normal(helper).body, lambda t: None)
    except AnalysisError as e:
        raise AnalysisError(f"scalar emitter: {e}")
    plain = nonfinite_plain = neg_plain = 0
    for cs, ev in tab.items():
        cs = dict(cs)
        if any(v for k, v in cs.items() if k.startswith("isinstance(") and "Array" in k):
            continue
        ret = next((e_[1] for e_ in ev if e_[0] == "exit" and e_[1].startswith("return ")), "")
        import re
        flat = re.sub(r"cast\('[^']*',\s*([^()]*)\)", r"\1", ret).replace(" ", "")
        is_plain = flat in (f"return_constant({ep})", f"returnast.Constant({ep})",
                            f"return_constant(value={ep})", f"returnast.Constant(value={ep})")
        finite = [v for k, v in cs.items() if "isfinite" in k]
        nan = [v for k, v in cs.items() if "isnan" in k or "isinf" in k]
        negative = [v for k, v in cs.items() if k.replace(" ", "") == f"{ep}<0"]
        known_finite = (finite and finite[0]) or (len(nan) >= 2 and not any(nan))
        is_complex = any(v for k, v in cs.items() if k.startswith("isinstance(")
                         and "complex" in k)
        known_nonneg = (negative and not negative[0]) or is_complex
        if is_plain:
            plain += 1
            if not known_finite:
                nonfinite_plain += 1
            if not known_nonneg:
                neg_plain += 1
    # a typed (NumPy) scalar keeps its type on the way into the source: after raising
    # has dropped the cast of the array operand, the typed constant is what makes
    # NumPy evaluate in the wider dtype; `e.item()` / float(e) / int(e) emit a weak
    # Python literal instead
    import re as _re
    weak = []
    for cs, ev in tab.items():
        cs = dict(cs)
        if any(v for k, v in cs.items() if k.startswith("isinstance(") and "Array" in k):
            continue
        if any((not v) for k, v in cs.items() if "isfinite" in k):
            continue        # built from the dtype's name and a string
        for e_ in ev:
            if e_[0] == "exit" and e_[1].startswith("return ") and _re.search(
                    r"\b" + _re.escape(ep) + r"\.(item|tolist)\(\)|\b(float|int|complex|bool)\("
                    + _re.escape(ep) + r"\)", e_[1]):
                weak.append(e_[1])
    c.check(not weak, "R14-TABLES", "NumpyCodegenMapper._rec_ary_or_constant",
            "typed-scalars-keep-their-type", where,
            f"a finite scalar is converted to a Python scalar before it is emitted "
            f"(`{weak[0][:70] if weak else ''}`): x_int8 + np.int64(100) is then evaluated in int8 "
            "(the typed constant is what drives NumPy's promotion once the cast on the "
            "array operand has been dropped)")
    c.check(plain >= 1 and nonfinite_plain == 0, "R14-TABLES",
            "NumpyCodegenMapper._rec_ary_or_constant", "non-finite-scalars-built-from-a-string",
            where, "a scalar that may be inf/nan is emitted through ast.Constant (its repr): "
            "`np.float32(inf)` raises NameError when the generated function runs")
    c.check(plain >= 1 and neg_plain == 0, "R14-TABLES",
            "NumpyCodegenMapper._rec_ary_or_constant", "negative-scalars-negated-explicitly",
            where, "a scalar that may be negative is emitted through ast.Constant: "
            "`-2 ** x` is parsed as -(2 ** x), the generated program computes another value "
            "than the expression")


def r_einsum_spec(c):
    """the subscript string re-synthesised for an Einsum (utils.get_einsum_specification,
    emitted verbatim by map_einsum) lists the OUTPUT letters by output axis number:
    the letter of EinsumElementwiseAxis(i) for i = 0, 1, ...  The table of letters is
    filled in order of first appearance in the operands; reading the output off that
    table's own order is right for 'ij,jk->ik' and wrong for 'ij,jk->ki'."""
    m = c.model
    fd0 = m.func("pytato.utils.get_einsum_specification")
    where = m.loc(m.module_of(fd0), fd0)
    fd = m.normal(fd0)
    outs = []
    for r in ast.walk(fd):
        if not isinstance(r, ast.Return) or r.value is None:
            continue
        v = r.value
        if isinstance(v, ast.JoinedStr):
            for i, part in enumerate(v.values[:-1]):
                if isinstance(part, ast.Constant) and str(part.value).endswith("->") \
                        and isinstance(v.values[i + 1], ast.FormattedValue):
                    outs.append(v.values[i + 1].value)
        elif isinstance(v, ast.BinOp) and isinstance(v.op, ast.Add):
            # a + "->" + b
            parts = []

            def flat(e):
                if isinstance(e, ast.BinOp) and isinstance(e.op, ast.Add):
                    flat(e.left)
                    flat(e.right)
                else:
                    parts.append(e)
            flat(v)
            for i, part in enumerate(parts[:-1]):
                if isinstance(part, ast.Constant) and str(part.value).endswith("->"):
                    outs.append(parts[i + 1])
    if len(outs) != 1:
        raise AnalysisError("anchor vanished: the output part (after '->') of the string "
                            "get_einsum_specification returns")
    o = outs[0]
    if not (isinstance(o, ast.Call) and isinstance(o.func, ast.Attribute)
            and o.func.attr == "join" and len(o.args) == 1
            and isinstance(o.args[0], (ast.GeneratorExp, ast.ListComp))):
        raise AnalysisError("get_einsum_specification: the output letters are not a "
                            "''.join(<comprehension>)")
    g = o.args[0]
    ep = fd.args.args[0].arg
    it = g.generators[0].iter
    its = ast.unparse(it)
    by_axis = len(g.generators) == 1 and not g.generators[0].ifs \
        and isinstance(g.generators[0].target, ast.Name) \
        and its in (f"range({ep}.ndim)", f"range(len({ep}.shape))") \
        and isinstance(g.elt, ast.Subscript) \
        and ast.unparse(g.elt.slice) == f"EinsumElementwiseAxis({g.generators[0].target.id})"
    base = it.func.value if (isinstance(it, ast.Call) and isinstance(it.func, ast.Attribute)
                             and it.func.attr in ("items", "keys", "values")
                             and not it.args) else it
    dicts = {t.id for a in ast.walk(fd) if isinstance(a, (ast.Assign, ast.AnnAssign))
             and a.value is not None and (isinstance(a.value, ast.Dict) or (
                 isinstance(a.value, ast.Call) and ast.unparse(a.value.func) == "dict"))
             for t in (a.targets if isinstance(a, ast.Assign) else [a.target])
             if isinstance(t, ast.Name)}
    insertion = isinstance(base, ast.Name) and base.id in dicts
    if not by_axis and not insertion:
        raise AnalysisError("get_einsum_specification: cannot tell in which order "
                            f"`{ast.unparse(g)[:90]}` lists the output letters")
    c.check(by_axis, "R14-ARGS", "utils.get_einsum_specification",
            "output-letters-by-output-axis-number", where,
            f"the output part of the einsum string is `{ast.unparse(g)[:100]}`: the letters "
            "come in the order the table was filled (first appearance in the operands), "
            "not by output axis number: 'ij,jk->ki' is re-synthesised as 'ij,jk->ik' and "
            "the generated program returns the transposed result")


def r_transpose_axes(c):
    """the axes= the emitter writes for an AxisPermutation are the node's
    axis_permutation as it stands: numpy.transpose(a, axes) makes result axis k the
    operand's axis axes[k], which is the node's own convention (AxisPermutation.shape).
    The inverse permutation is right for every 2-D transpose and every swap of two
    axes.  Decided by the role inference of R02-DIRECTION: positions of the emitted
    list number result axes, its entries operand axes."""
    m = c.model
    from pta.rules.c02 import _IN, _OUT, _perm_roles
    fd0 = m.resolve_method(NL + ".NumpyCodegenMapper", "map_axis_permutation")[1]
    fd = m.expand_locals(m.inlined(fd0))
    for n in ast.walk(fd):
        for ch in ast.iter_child_nodes(n):
            ch._parent = n
    ep = fd.args.args[1].arg
    P = f"{ep}.axis_permutation"
    gens_of, env_of, typed = _perm_roles(fd, P)
    kws = [k for x in ast.walk(fd) if isinstance(x, ast.Call) for k in x.keywords
           if k.arg == "arg" and isinstance(k.value, ast.Constant) and k.value.value == "axes"]
    if not kws:
        raise AnalysisError("anchor vanished: ast.keyword(arg='axes', ...) in "
                            "NumpyCodegenMapper.map_axis_permutation")
    n_sites = 0
    for x in ast.walk(fd):
        if not (isinstance(x, ast.Call) and any(k in kws for k in x.keywords)):
            continue
        val = next(k.value for k in x.keywords if k.arg == "value")
        comps = [y for y in ast.walk(val) if isinstance(y, (ast.ListComp, ast.GeneratorExp))]
        where = m.loc(m.module_of(fd0), fd0)
        if not comps:
            # map(_constant, P) / the permutation handed on whole
            ok = any(ast.unparse(y) == P for y in ast.walk(val))
            if not ok:
                raise AnalysisError("R14-ARGS: cannot tell how the emitted axes= are computed "
                                    f"(`{ast.unparse(val)[:80]}`)")
            c.ok("R14-ARGS", "NumpyCodegenMapper.map_axis_permutation",
                 "axes-are-the-node's-permutation", where)
            n_sites += 1
            continue
        for cp in comps:
            e = cp.elt
            # through the wrappers that make a constant node of it:
            # ast.Constant(cast(T, y)), _constant(y), int(y)
            y = e
            while isinstance(y, ast.Call) and y.args and not (
                    isinstance(y.func, ast.Attribute) and y.func.attr == "index"
                    and ast.unparse(y.func.value) == P):
                y = y.args[-1]
            env, free, impl = env_of(gens_of(cp.elt))
            if impl is None:
                raise AnalysisError("R14-ARGS: the emitted axes= are not computed from "
                                    f"{P} in a way the role inference knows")
            rs = typed([impl, y], env, free)
            if rs is None or None in rs:
                raise AnalysisError(f"R14-ARGS: cannot tell which axes `{ast.unparse(cp)[:80]}` "
                                    "numbers (result or operand)")
            n_sites += 1
            c.check(tuple(rs) == (_OUT, _IN), "R14-ARGS",
                    "NumpyCodegenMapper.map_axis_permutation",
                    "axes-are-the-node's-permutation", where,
                    f"`{ast.unparse(cp)[:90]}` writes, at positions numbered by {rs[0]}, "
                    f"entries numbered by {rs[1]}: numpy.transpose(a, axes) wants result "
                    "positions holding operand axes (the node's axis_permutation itself); "
                    "the inverse permutation is emitted, which is only right for involutions")
    if not n_sites:
        raise AnalysisError("anchor vanished: emitted axes= of transpose")


SPEC = Spec(
    prop="C14",
    rules=[r_namespace, r_tables, r_consume, r_args, r_unsupported, r_operator_inventory, r_intclass, r_creator_dtype,
           r_scalar_constants, r_einsum_spec, r_transpose_axes],
    floors={"R14-NAMESPACE": 31, "R14-TABLES": 48, "R14-CONSUME": 20, "R14-ARGS": 9,
            "R14-UNSUPPORTED": 5},
    explanation=(
        "R14-NAMESPACE: the set of attribute names the generator can emit on the "
        "array module (literals, values of the emitter tables, renamed and plain "
        "c99 function names, reduction names; flowing into ast.Attribute(ast.Name("
        "self.numpy_backend|self.numpy), name)) must be a subset of the installed "
        "NumPy's __all__, read statically from numpy/__init__.pyi. R14-TABLES: the "
        "emitter tables cover every BinaryOpType member with the matching Python "
        "operator / function name, each branch selects only keys of the table it "
        "indexes, the composite pymbolic-node -> BinaryOpType -> operator mapping "
        "is the natural one, every concrete ReductionOperation has a NumPy name, "
        "every HighLevelOp is handled or rejected. R14-CONSUME: every semantic "
        "field of every supported kind is read by its handler. R14-ARGS: argument "
        "names/bound data are written only by the placeholder / data-wrapper "
        "handlers, one name is used for argument, binding and code; the parameter "
        "list, kw_defaults and expected_arguments come from one collection; only "
        "keyword-only parameters. R14-UNSUPPORTED: unsupported kinds raise. "
        "R14-CONSUME also: every array-creating emission (zeros, ones, full, *_like) spells out dtype=expr.dtype unless guarded by a test for the default float dtype. R14-UNSUPPORTED also: integer tests on shape components and indices use INT_CLASSES. "
        "R14-TABLES also (case table of the scalar-operand emitter): a scalar reaches ast.Constant, i.e. its repr, only where it is known to be finite and not negative; non-finite scalars are built from their string form, negative ones get an explicit unary minus (the one use of a Python operator outside the table that is admitted: its operand is a constant). R14-ARGS also: the einsum string emitted for an Einsum lists its output letters by output axis number (EinsumElementwiseAxis(i) for i in range(ndim)), never in the order the table of letters was filled; the axes= emitted for an AxisPermutation are the node's permutation, not its inverse (role inference shared with R02-DIRECTION)."),
    not_decided=(
        "That the generated function returns NumPy's values (needs running it); "
        "slice re-synthesis correctness; dtype preservation through dropped casts; "
        "JAX itself is not installed - NumPy is the reference module as the "
        "property states."),
    trusted_base=["CPython ast", "numpy/__init__.pyi __all__ as name oracle"],
)
