"""C20 -- graph analyses agree with the graph and with each other."""
from __future__ import annotations

import ast

from pta import paths as P
from pta.check import Spec
from pta.flow import Flow, child_paths, fmt_paths, paths_of
from pta.model import AnalysisError
from pta.pat import find, has, th, kwarg
from pta.rules.common import (
    CWALK, LPREDS, LUSERS, USERS, WALK, concrete_kinds, handler_name, short,
)
from pta.rules.c13 import strip_markers
from pta.tables.exemptions import EXEMPT

DERIVED = ("<derived-shape>",)


def classify_edges(m, kind, paths, array_only=True):
    """map raw access paths to edge classes: a child-carrying path of the kind,
    or DERIVED for anything computed from children (shape properties)."""
    ch = child_paths(m, kind)
    out = set()
    for p in paths:
        if not p:
            continue
        hit = None
        for c in ch:
            if p == c or (p[:len(c)] == c and len(p) > len(c)
                          and ch[c] in ("array",) and False):
                hit = c
        if p in ch:
            if array_only and ch[p] in ("container", "funcdef"):
                continue
            out.add(p)
        elif any(p[:len(c)] == c for c in ch) or p:
            # below a child (arrays.shape, indices.start) or reached through a
            # derived property (translation_unit...): derived-shape edge
            # unless it is a strict prefix of a child path (expr.matrix, expr.send)
            if any(c[:len(p)] == p for c in ch):
                continue
            out.add(DERIVED)
    return out


def users_edges(m, summ, attr, kind):
    """paths registered as 'root expr is a user of <path>' in self.<attr>"""
    ps = set()
    other_user = set()
    for e in summ.keyed:
        if e.attr != attr:
            continue
        vroots = paths_of(e.value, "expr")
        if () in vroots:
            ps |= strip_markers(paths_of(e.key, "expr"))
        elif e.value:
            other_user |= strip_markers(paths_of(e.key, "expr"))
    return classify_edges(m, kind, ps), classify_edges(m, kind, other_user)


def r_converse(c):
    m = c.model
    kinds = [k for k in concrete_kinds(m, with_funcdef=False)]
    f1, f2, fp = Flow(m, LUSERS, 8), Flow(m, USERS, 8), Flow(m, LPREDS, 8)
    for k in kinds:
        h1 = handler_name(m, LUSERS, k)
        h2 = handler_name(m, USERS, k)
        hp = handler_name(m, LPREDS, k)
        sk = short(k)
        ci = m.classes[k]
        present = {"ListOfUsersCollector": h1, "UsersCollector": h2,
                   "ListOfDirectPredecessorsGetter": hp}
        for name, h in present.items():
            inst = f"{sk}:handled-by-{name}"
            if h is not None:
                c.ok("R20-CONVERSE", name, inst, m.loc(ci.module, ci.node))
            elif any(v is not None for v in present.values()):
                ex = EXEMPT.get(("R20-CONVERSE", inst))
                if ex:
                    c.exempt("R20-CONVERSE", name, inst, m.loc(ci.module, ci.node), ex)
                else:
                    c.violation(
                        "R20-CONVERSE", name, inst, m.loc(ci.module, ci.node),
                        f"{name} has no handler for {sk} (raises "
                        "UnsupportedArrayError) while "
                        f"{[n for n, v in present.items() if v]} handle it")
        if not (h1 and hp):
            continue
        s1 = f1.handler(h1, k)
        sp = fp.handler(hp, k)
        U1, U1o = users_edges(m, s1, "array_to_users", k)
        Pk = classify_edges(m, k, strip_markers(paths_of(sp.ret, "expr")))
        U2 = U2o = None
        if h2:
            s2 = f2.handler(h2, k)
            U2, U2o = users_edges(m, s2, "node_to_users", k)
        for e in sorted(U1 | Pk):
            es = ".".join(e)
            inst = f"{sk}.{es}"
            where = s1.where[2] if e in Pk else sp.where[2]
            ex = EXEMPT.get(("R20-CONVERSE", inst))
            if e in U1 and e in Pk:
                c.ok("R20-CONVERSE", "users<->predecessors", inst, where)
            elif ex:
                c.exempt("R20-CONVERSE", "users<->predecessors", inst, where, ex)
            else:
                who = ("ListOfDirectPredecessorsGetter reports it as a predecessor "
                       "but ListOfUsersCollector does not register the node as its "
                       "user" if e in Pk else
                       "ListOfUsersCollector registers the node as a user of it but "
                       "ListOfDirectPredecessorsGetter does not report it as a "
                       "predecessor")
                c.violation("R20-CONVERSE", "users<->predecessors", inst, where,
                            f"edge {es} of {sk}: {who}",
                            facts={"users": fmt_paths(U1), "preds": fmt_paths(Pk)})
        if U2 is not None:
            # connectivity: the users graph is not cut at this kind -- for every
            # child-carrying path of the kind the node registers itself as a user
            # of that child or of something below it (a NamedCallResult registers
            # for the bindings of its call, skipping the Call, which is no array)
            raw = set()
            for ev in s2.keyed:
                if ev.attr == "node_to_users" and () in paths_of(ev.value, "expr"):
                    raw |= strip_markers(paths_of(ev.key, "expr"))
            for pth, kindof in sorted(child_paths(m, k).items()):
                if kindof not in ("array", "container"):
                    continue
                inst = f"{sk}.{'.'.join(pth)}"
                reached = any(q[:len(pth)] == pth for q in raw)
                if not reached and sk == "Call":
                    # a Call is no array: its results stand in for it as users
                    hn = handler_name(m, USERS, "pytato.function.NamedCallResult")
                    if hn:
                        sn = Flow(m, USERS, 8).handler(hn, "pytato.function.NamedCallResult")
                        via = set()
                        for ev in sn.keyed:
                            if ev.attr == "node_to_users" and () in paths_of(ev.value, "expr"):
                                via |= strip_markers(paths_of(ev.key, "expr"))
                        reached = any(q[:1 + len(pth)] == ("_container",) + pth for q in via)
                ex = EXEMPT.get(("R20-CONVERSE", "UsersCollector:" + inst))
                if reached:
                    c.ok("R20-CONVERSE", "UsersCollector:users-graph-connected", inst,
                         s2.where[2])
                elif ex:
                    c.exempt("R20-CONVERSE", "UsersCollector:users-graph-connected", inst,
                             s2.where[2], ex)
                else:
                    c.violation("R20-CONVERSE", "UsersCollector:users-graph-connected", inst,
                                s2.where[2],
                                f"UsersCollector registers a {sk} as a user of nothing at or "
                                f"below its child `{'.'.join(pth)}`: get_users / "
                                "rec_get_user_nodes of that child never reach this node or "
                                "anything downstream of it",
                                facts={"registered": fmt_paths(raw)})
            for e in sorted(U1):
                inst = f"{sk}.{'.'.join(e)}"
                ok = e in U2 or e in (U2o or ())
                c.check(ok, "R20-CONVERSE", "UsersCollector>=ListOfUsersCollector",
                        inst, s2.where[2],
                        f"edge {'.'.join(e)} of {sk} is registered by "
                        "ListOfUsersCollector but not by UsersCollector",
                        facts={"U2": fmt_paths(U2)})


def _walk_classifier(childpaths_attr_names, m=None, cls=None):
    def classify(n):
        if m is not None and isinstance(n, ast.Call) \
                and isinstance(n.func, ast.Attribute) \
                and isinstance(n.func.value, ast.Name) and n.func.value.id == "self" \
                and (n.func.attr.startswith("_map_") or n.func.attr.startswith("map_")):
            r = m.resolve_method(cls, n.func.attr)
            if r is not None:
                return ("INLINE", r[1])
        if isinstance(n, ast.Call) and isinstance(n.func, ast.Attribute) \
                and isinstance(n.func.value, ast.Name):
            who, a = n.func.value.id, n.func.attr
            if who == "self" and a == "visit":
                return "VISIT"
            if who == "self" and a == "post_visit":
                return "POST"
            if a in ("rec", "rec_function_definition", "rec_idx_or_size_tuple") \
                    or (who != "self" and a == "__call__"):
                return "REC"
        if isinstance(n, ast.Call) and isinstance(n.func, ast.Name) \
                and n.func.id in childpaths_attr_names:
            return "REC"
        return None
    return classify


def r_topo(c):
    """post_visit only after every child was recursed into; visit first."""
    m = c.model
    done = set()
    for mapper in [WALK] + m.subclasses(WALK, strict=True):
        ci = m.classes[mapper]
        for mn, fd in ci.methods.items():
            if not (mn.startswith("map_") or mn.startswith("_map_")):
                continue
            if (mapper, mn) in done:
                continue
            done.add((mapper, mn))
            # local mapper clones called as functions count as recursion
            clones = {t.id for n in ast.walk(fd) if isinstance(n, ast.Assign)
                      and "clone_for_callee" in ast.unparse(n.value)
                      for t in n.targets if isinstance(t, ast.Name)}
            ps = P.walk(fd, _walk_classifier(clones, m, mapper))
            if not any("POST" in e or "REC" in e for (e, _x) in ps):
                continue
            where = m.loc(ci.module, fd)
            cname = f"{short(mapper)}.{mn}"
            bad_post_first = [e for (e, x) in ps if "POST" in e and "REC" in e
                              and e.index("POST") < max(i for i, l in enumerate(e)
                                                         if l == "REC")]
            c.check(not bad_post_first, "R20-TOPO", cname, "post_visit-after-children",
                    where,
                    "post_visit is called before a child is recursed into: a node "
                    "would be listed before something it depends on")
            bad_visit = P.precedes(ps, "VISIT", "REC")
            c.check(not bad_visit, "R20-TOPO", cname, "visit-before-children", where,
                    "children are recursed into before visit() is consulted")
            nopost = [e for e in P.normal(ps) if "REC" in e and "POST" not in e]
            c.check(not nopost, "R20-TOPO", cname, "post_visit-on-every-traversing-path",
                    where, "a path recurses into children but never calls "
                    "post_visit: the node would be missing from post-order results")
    # TopoSortMapper.post_visit appends exactly expr
    fd = m.func("pytato.transform.TopoSortMapper.post_visit")
    apps = [n for n in ast.walk(fd) if isinstance(n, ast.Call)
            and isinstance(n.func, ast.Attribute) and n.func.attr == "append"]
    arg0 = fd.args.args[1].arg
    c.check(len(apps) == 1 and ast.unparse(apps[0].args[0]) == arg0
            and "topological_order" in ast.unparse(apps[0].func),
            "R20-TOPO", "TopoSortMapper.post_visit", "appends-expr",
            m.loc(m.module_of(fd), fd),
            "post_visit no longer appends exactly the visited node")


def _ret_ifexp(fd):
    rets = [n for n in ast.walk(fd) if isinstance(n, ast.Return) and n.value]
    return rets


def r_count(c):
    m = c.model
    A = "pytato.analysis."
    # NodeCountMapper: key is id(expr) iff count_duplicates, else expr; both keys
    for name in ("get_cache_key", "get_function_definition_cache_key"):
        fd = m.func(A + f"NodeCountMapper.{name}")
        rets = _ret_ifexp(fd)
        ok = False
        ep = fd.args.args[1].arg
        if len(rets) == 1 and isinstance(rets[0].value, ast.IfExp):
            ie = rets[0].value
            ok = (ast.unparse(ie.test) == "self.count_duplicates"
                  and ast.unparse(ie.body) == f"id({ep})"
                  and ast.unparse(ie.orelse) == ep)
            ok = ok or (ast.unparse(ie.test) == "not self.count_duplicates"
                        and ast.unparse(ie.orelse) == f"id({ep})"
                        and ast.unparse(ie.body) == ep)
        c.check(ok, "R20-COUNT", f"NodeCountMapper.{name}", "key-by-id-iff-duplicates",
                m.loc(m.module_of(fd), fd),
                "cache key is no longer id(expr) exactly when duplicates are counted "
                "and the node itself otherwise")
    # clone_for_callee passes count_duplicates on
    fd = m.func(A + "NodeCountMapper.clone_for_callee")
    c.check(bool(kwarg(fd, "count_duplicates", "self.count_duplicates")),
            "R20-COUNT", "NodeCountMapper.clone_for_callee", "propagates-count_duplicates",
            m.loc(m.module_of(fd), fd),
            "the mapper cloned for function bodies does not inherit count_duplicates")
    # post_visit increments by one, once
    for cls, attr in (("NodeCountMapper", "expr_type_counts"),
                      ("NodeMultiplicityMapper", "expr_multiplicity_counts"),
                      ("CallSiteCountMapper", "count")):
        fd = m.func(A + f"{cls}.post_visit")
        incs = [n for n in ast.walk(fd) if isinstance(n, ast.AugAssign)
                and attr in ast.unparse(n.target)]
        ok = len(incs) == 1 and isinstance(incs[0].op, ast.Add) \
            and ast.unparse(incs[0].value) == "1"
        c.check(ok, "R20-COUNT", f"{cls}.post_visit", "increments-once-by-one",
                m.loc(m.module_of(fd), fd),
                f"{attr} is not incremented exactly once by 1 per visit")
    for cls in ("NodeMultiplicityMapper", "CallSiteCountMapper"):
        for name in ("get_cache_key", "get_function_definition_cache_key"):
            fd = m.func(A + f"{cls}.{name}")
            rets = _ret_ifexp(fd)
            c.check(len(rets) == 1
                    and ast.unparse(rets[0].value) == f"id({fd.args.args[1].arg})",
                    "R20-COUNT", f"{cls}.{name}", "key-by-id",
                    m.loc(m.module_of(fd), fd),
                    "objects are no longer distinguished by identity")
    # NodeMultiplicityMapper keys its result by the node (equality), not id
    fd = m.func(A + "NodeMultiplicityMapper.post_visit")
    c.check(any(isinstance(n, ast.Subscript) and ast.unparse(n.slice) == fd.args.args[1].arg
                for n in ast.walk(fd)), "R20-COUNT", "NodeMultiplicityMapper.post_visit",
            "counts-per-equal-node", m.loc(m.module_of(fd), fd),
            "multiplicity is no longer accumulated per (equality class of) node")
    # CallSiteCountMapper adds the callee's count
    fd = m.func(A + "CallSiteCountMapper.map_function_definition")
    ep = fd.args.args[1].arg
    c.check(has(fd, f"""
$nm = self.clone_for_callee({ep})
for $sub in {ep}.returns.values():
    $nm($sub)
self.count += $nm.count
"""), "R20-COUNT",
            "CallSiteCountMapper.map_function_definition", "adds-callee-count",
            m.loc(m.module_of(fd), fd), "call sites inside function bodies are lost")
    # TagCountMapper.rec
    fd = m.func(A + "TagCountMapper.rec")
    src = ast.unparse(fd)
    # What the un-cached path returns is evaluated abstractly on the normal form
    # (helpers inlined, locals propagated, two-armed assignments as conditional
    # expressions), for the four truth values of
    #   A = isinstance(expr, Array)   B = self._tag_types <= {types of expr's tags}:
    # it must be (count of the predecessors) + 1 when A and B, + 0 otherwise.
    from pta.pat import expr_is
    ep = fd.args.args[1].arg
    nf = m.normal(fd)

    class _Unk(Exception):
        pass

    def ev(n, a, b):
        """-> (constant part, number of times the predecessors' count is added) for
        an int-valued node, bool for a boolean one"""
        if isinstance(n, ast.Constant) and isinstance(n.value, (bool, int)):
            return n.value if isinstance(n.value, bool) else (n.value, 0)
        if expr_is(n, f"isinstance({ep}, Array)"):
            return a
        if expr_is(n, f"self._tag_types <= frozenset((type($t) for $t in {ep}.tags))") \
                or expr_is(n, f"frozenset((type($t) for $t in {ep}.tags)) >= self._tag_types") \
                or expr_is(n, f"self._tag_types.issubset(frozenset((type($t) for $t in "
                              f"{ep}.tags)))"):
            if not a:
                raise _Unk("tag test evaluated for a non-array")
            return b
        if isinstance(n, ast.UnaryOp) and isinstance(n.op, ast.Not):
            v = ev(n.operand, a, b)
            if isinstance(v, bool):
                return not v
        if isinstance(n, ast.BoolOp):
            res = isinstance(n.op, ast.And)
            for v_ in n.values:         # short circuit, left to right
                v = ev(v_, a, b)
                if not isinstance(v, bool):
                    raise _Unk(ast.unparse(n))
                if v != res:
                    return v
            return res
        if isinstance(n, ast.IfExp):
            t = ev(n.test, a, b)
            if isinstance(t, bool):
                return ev(n.body if t else n.orelse, a, b)
        if isinstance(n, ast.BinOp) and isinstance(n.op, ast.Add):
            l, r = ev(n.left, a, b), ev(n.right, a, b)
            if isinstance(l, tuple) and isinstance(r, tuple):
                return (l[0] + r[0], l[1] + r[1])
        if isinstance(n, ast.Call) and ast.unparse(n.func).endswith(".rec") \
                and "super(" in ast.unparse(n.func) and len(n.args) == 1 \
                and ast.unparse(n.args[0]) == ep:
            return (0, 1)
        if isinstance(n, ast.Call) and isinstance(n.func, ast.Name) and n.func.id == "int" \
                and len(n.args) == 1:
            v = ev(n.args[0], a, b)
            return (int(v), 0) if isinstance(v, bool) else v
        raise _Unk(ast.unparse(n)[:60])
    handlers = [h for h in ast.walk(nf) if isinstance(h, ast.ExceptHandler)]
    rets = [r for h in handlers for r in ast.walk(h) if isinstance(r, ast.Return)
            and r.value is not None]
    ok = len(rets) == 1
    why = ""
    if ok:
        for a in (True, False):
            for b in (True, False):
                try:
                    got = ev(rets[0].value, a, b)
                except _Unk as e:
                    ok, why = False, f"cannot evaluate `{e}`"
                    break
                if got != ((1 if (a and b) else 0), 1):
                    ok = False
                    why = f"for array={a}, all tag types present={b} it returns {got}"
    c.check(ok, "R20-COUNT", "TagCountMapper.rec", "adds-one-iff-tagged",
            m.loc(m.module_of(fd), fd),
            "a node contributes 1 not exactly when its tag types include all of "
            f"tag_types ({why or 'no single return on the un-cached path'})")
    adds = [n for n in ast.walk(fd) if isinstance(n, ast.Call)
            and ast.unparse(n.func) == "self._cache_add"]
    c.check(len(adds) == 1 and ast.unparse(adds[0].args[1]) == "0",
            "R20-COUNT", "TagCountMapper.rec", "revisit-contributes-zero",
            m.loc(m.module_of(fd), fd),
            "a revisited node no longer contributes 0 (it would be counted once per "
            "path)")
    # get_nusers counts list lengths
    fd = m.func(A + "get_nusers")
    c.check(has(fd, "$c = ListOfUsersCollector()\n$c($o)") and (
        has(fd, "{$a: len($u) for $a, $u in $c.array_to_users.items()}")),
            "R20-COUNT", "get_nusers", "counts-list-length",
            m.loc(m.module_of(fd), fd),
            "number of users is no longer the length of the list of users")


def r_materialized(c):
    m = c.model
    A = "pytato.analysis.MaterializedNodeCollector"
    fd = m.func(A + ".post_visit")
    where = m.loc(m.module_of(fd), fd)
    first = None
    for n in ast.walk(fd):
        if isinstance(n, ast.Call) and isinstance(n.func, ast.Name) \
                and n.func.id == "isinstance" and isinstance(n.args[1], ast.Tuple):
            first = n
            break
    if first is None:
        raise AnalysisError("anchor vanished: isinstance tuple in "
                            "MaterializedNodeCollector.post_visit")
    names = {ast.unparse(e) for e in first.args[1].elts}
    for need, why in (("InputArgumentBase", "inputs"), ("DistributedRecv", "received arrays"),
                      ("LoopyCallResult", "loopy call results"),
                      ("NamedCallResult", "function call results")):
        c.check(need in names, "R20-MATERIALIZED", "MaterializedNodeCollector.post_visit",
                f"type:{need}", where,
                f"{why} ({need}) are no longer collected as materialized")
    ep = fd.args.args[1].arg
    c.check(has(fd, f"isinstance({ep}, Array) and {ep}.tags_of_type(ImplStored)"),
            "R20-MATERIALIZED",
            "MaterializedNodeCollector.post_visit", "stored-tag", where,
            "ImplStored-tagged nodes are no longer collected")
    for cond, add, inst in (
            ("DistributedSendRefHolder",
             [f"self.materialized_nodes.add({ep}.send.data)"], "sent-data"),
            ("LoopyCall", [], "loopy-call-bindings"),
            ("Call", [f"self.materialized_nodes.update({ep}.bindings.values())"],
             "call-bindings")):
        ok = False
        for n in ast.walk(fd):
            if isinstance(n, ast.If) and f"isinstance({ep}, {cond})" == ast.unparse(n.test):
                blk = ast.Module(body=n.body, type_ignores=[])
                if cond == "LoopyCall":
                    for l in ast.walk(blk):
                        if isinstance(l, ast.For) and isinstance(l.target, ast.Name) \
                                and ast.unparse(l.iter) == f"{ep}.bindings.values()":
                            sv = l.target.id
                            ok = any(
                                isinstance(i, ast.If)
                                and ast.unparse(i.test) == f"isinstance({sv}, Array)"
                                and has(ast.Module(body=i.body, type_ignores=[]),
                                        f"self.materialized_nodes.add({sv})")
                                for i in l.body)
                else:
                    ok = any(has(blk, a) for a in add)
        c.check(ok, "R20-MATERIALIZED", "MaterializedNodeCollector.post_visit", inst,
                where, f"{inst} are no longer collected as materialized")
    # outputs only under include_outputs
    fd = m.func(A + ".__call__")
    ok = True
    for n in ast.walk(fd):
        if isinstance(n, ast.Call) and isinstance(n.func, ast.Attribute) \
                and "materialized_nodes" in ast.unparse(n.func):
            p = n
            guarded = False
            while p is not fd:
                p = p._parent
                if isinstance(p, ast.If) and "include_outputs" in ast.unparse(p.test):
                    guarded = True
            ok = ok and guarded
    c.check(ok, "R20-MATERIALIZED", "MaterializedNodeCollector.__call__",
            "outputs-only-when-requested", m.loc(m.module_of(fd), fd),
            "outputs are added to the materialized set regardless of include_outputs")
    # what is added for a dictionary root are its arrays, not NamedArray views
    from pta.flow import NAMED
    fl = Flow(m, A, 4)
    s = fl.handler("__call__", "pytato.array.DictOfNamedArrays")
    added = set()
    for e in s.keyed:
        if e.attr == "materialized_nodes":
            added |= paths_of(e.value, "expr")
    c.check(("_data",) in added and not any(NAMED in p for p in added),
            "R20-MATERIALIZED", "MaterializedNodeCollector.__call__",
            "adds-output-arrays-of-dict", m.loc(m.module_of(fd), fd),
            "for a DictOfNamedArrays root the collector adds "
            f"{fmt_paths(added)} instead of the arrays in _data (NamedArray "
            "wrappers are not nodes of the graph)")
    # results are ordered sets
    ci = m.cls("pytato.analysis.MaterializedNodeCollector")
    c.check("OrderedSet()" in ast.unparse(ci.methods["__init__"]), "R20-MATERIALIZED",
            "MaterializedNodeCollector.__init__", "ordered-result",
            m.loc(ci.module, ci.methods["__init__"]),
            "materialized nodes are no longer kept in an ordered set")


DEPS_EXEMPT = {
    "NamedCallResult":
        "a result of a function call is represented by the dependencies of the call "
        "(map_named_call_result returns rec(expr._container), map_call the bindings' "
        "dependencies): deliberate, function calls are opaque to the partitioner",
}


def r_deps_self(c):
    """"the dependencies of a node include the node": for every array kind the
    handler of DependencyMapper / SubsetDependencyMapper returns a set containing
    the node itself (the partitioner places a sent array by looking it up in the
    dependency set of the send's data)"""
    m = c.model
    n = 0
    for M in ("pytato.transform.DependencyMapper", "pytato.transform.SubsetDependencyMapper"):
        fl = Flow(m, M, 8)
        for k in concrete_kinds(m, with_funcdef=False):
            if m.ARRAY not in m.mro(k):
                continue
            h = handler_name(m, M, k)
            ci = m.classes[k]
            if not h:
                c.violation("R20-DEPS", short(M), f"{short(k)}:handled",
                            m.loc(ci.module, ci.node), f"{short(M)} has no handler for {short(k)}")
                continue
            s = fl.handler(h, k)
            n += 1
            inc = () in paths_of(s.ret, "expr")
            where = "%s:%s" % (s.where[2].split(":")[0], s.where[2].split(":")[1])
            if not inc and short(k) in DEPS_EXEMPT:
                c.exempt("R20-DEPS", f"{short(M)}.{h}", f"{short(k)}:includes-the-node-itself",
                         where, DEPS_EXEMPT[short(k)])
                continue
            c.check(inc, "R20-DEPS", f"{short(M)}.{h}", f"{short(k)}:includes-the-node-itself",
                    where,
                    f"the dependency set {short(M)} computes for a {short(k)} does not contain "
                    f"the {short(k)} itself (every sibling handler adds frozenset([expr])): a "
                    "stored/sent node of this kind is not found among the dependencies of "
                    "what uses it, so the partitioner places it in the wrong part")
    if n < 21:
        raise AnalysisError(f"only {n} dependency handlers analysed (floor 21)")


def r_stateless_getters(c):
    """the direct-predecessor getters are functions of the node they are asked
    about: they keep nothing between calls (a memo keyed by id() outlives the
    nodes it was filled for and answers for whatever is allocated at that address)"""
    m = c.model
    for q in ("pytato.analysis.ListOfDirectPredecessorsGetter",
              "pytato.analysis.DirectPredecessorsGetter"):
        ci = m.cls(q)
        bad = []
        for mn, fd in ci.methods.items():
            for x in ast.walk(fd):
                base = None
                if isinstance(x, ast.Call) and isinstance(x.func, ast.Attribute) \
                        and x.func.attr in ("add", "append", "update", "setdefault", "pop"):
                    base = x.func.value
                elif isinstance(x, ast.Subscript) and isinstance(x.ctx, (ast.Store, ast.Del)):
                    base = x.value
                if base is not None and ast.unparse(base).startswith("self."):
                    bad.append((mn, x))
            if mn == "__init__":
                from pta.rules.common import _is_mutable_display
                for st in ast.walk(fd):
                    if isinstance(st, (ast.Assign, ast.AnnAssign)) and st.value is not None \
                            and _is_mutable_display(st.value):
                        tg = st.targets[0] if isinstance(st, ast.Assign) else st.target
                        if isinstance(tg, ast.Attribute) and ast.unparse(tg.value) == "self":
                            bad.append((mn, st))
        c.check(not bad, "R20-CONVERSE", short(q), "keeps-nothing-between-calls",
                m.loc(ci.module, bad[0][1] if bad else ci.node),
                f"{short(q)}.{bad[0][0] if bad else ''} keeps a container on the instance "
                f"(`{m.frag(bad[0][1], 50) if bad else ''}`): a getter reused for a second "
                "graph answers with predecessors remembered from the first")


def r_user_is_the_node(c):
    """the USER recorded for a child is the node the handler is visiting: whatever is
    added to the users table is the handler's own node parameter, and a helper that
    records users for a shape / index tuple (`rec_idx_or_size_tuple(user, tuple)`) is
    handed that parameter, not one of the node's fields (x[idx] uses idx; x does not)"""
    m = c.model
    n = 0
    for cls, tbl in (("pytato.transform.UsersCollector", "node_to_users"),
                     ("pytato.analysis.ListOfUsersCollector", "array_to_users")):
        ci = m.cls(cls)
        # helpers that record users on behalf of their caller: methods with a
        # parameter that is added to the table
        helper_param = {}
        for mn, fd in ci.methods.items():
            if mn.startswith("map_") or mn.startswith("_map_") or len(fd.args.args) < 3:
                continue
            for x in ast.walk(fd):
                if isinstance(x, ast.Call) and isinstance(x.func, ast.Attribute) \
                        and x.func.attr in ("add", "append") and tbl in ast.unparse(x.func.value) \
                        and x.args and isinstance(x.args[0], ast.Name) \
                        and x.args[0].id in [a.arg for a in fd.args.args[1:]]:
                    helper_param[mn] = [a.arg for a in fd.args.args[1:]].index(x.args[0].id)
        for mn, fd in sorted(ci.methods.items()):
            if not (mn.startswith("map_") or mn.startswith("_map_")) or len(fd.args.args) < 2:
                continue
            ep = fd.args.args[1].arg
            for x in ast.walk(fd):
                if not isinstance(x, ast.Call):
                    continue
                what = None
                if isinstance(x.func, ast.Attribute) and x.func.attr in ("add", "append") \
                        and tbl in ast.unparse(x.func.value) and x.args:
                    what = x.args[0]
                elif isinstance(x.func, ast.Attribute) and isinstance(x.func.value, ast.Name) \
                        and x.func.value.id == "self" and x.func.attr in helper_param \
                        and len(x.args) > helper_param[x.func.attr]:
                    what = x.args[helper_param[x.func.attr]]
                if what is None:
                    continue
                n += 1
                ex = EXEMPT.get(("R20-CONVERSE", f"{short(cls)}.{mn}:user={ast.unparse(what)}"))
                if ex and ast.unparse(what) != ep:
                    c.exempt("R20-CONVERSE", f"{short(cls)}.{mn}",
                             f"user-is-the-visited-node:{m.frag(x, 50)}", m.loc(ci.module, x), ex)
                    continue
                c.check(ast.unparse(what) == ep, "R20-CONVERSE", f"{short(cls)}.{mn}",
                        f"user-is-the-visited-node:{m.frag(x, 50)}", m.loc(ci.module, x),
                        f"`{m.frag(what, 30)}` is recorded as the user, not the node `{ep}` the "
                        "handler visits: the users relation is no longer the converse of "
                        "the predecessors relation")
    if n < 20:
        raise AnalysisError(f"only {n} user registrations found (floor 20)")


def r_shape_component_tests(c):
    """(shared rule, pta/rules/common.py) array-valued shape components are selected
    with isinstance(.., Array), never with a narrower class"""
    from pta.rules.common import check_shape_component_tests
    n = check_shape_component_tests(c, "R20-CONVERSE", ["pytato.analysis", "pytato.transform", "pytato.transform.materialize", "pytato.transform.metadata", "pytato.transform.calls"])
    if n < 1:
        raise AnalysisError("no type test on shape components found")


SPEC = Spec(
    prop="C20",
    rules=[r_converse, r_topo, r_count, r_materialized, r_deps_self, r_stateless_getters,
           r_user_is_the_node, r_shape_component_tests],
    floors={"R20-CONVERSE": 90, "R20-TOPO": 40, "R20-COUNT": 10, "R20-MATERIALIZED": 7,
            "R20-DEPS": 26},
    explanation=(
        "R20-CONVERSE: for every concrete node kind the handlers of "
        "ListOfUsersCollector, UsersCollector and ListOfDirectPredecessorsGetter "
        "are analysed by access-path flow analysis; the set of edges for which "
        "the node registers itself as a user (keys of array_to_users / "
        "node_to_users with the node as value) must equal, per edge kind "
        "(child-carrying field path, or derived-shape edge), the set of edges the "
        "predecessor getter returns, restricted to array-valued edges; "
        "UsersCollector must register at least the list collector's edges; a kind "
        "handled by one must be handled by all. R20-TOPO: every path of every "
        "WalkMapper-family handler calls visit before, and post_visit after, all "
        "child recursions (post-order => topological order). R20-COUNT: the count "
        "mappers key by id exactly when duplicates are counted and increment once "
        "per visit; TagCountMapper adds 1 iff tagged and caches 0. "
        "R20-MATERIALIZED: the collector's type tests cover inputs, receives, call "
        "results, stored tags, sent data and call bindings; outputs only on request. "
        "R20-DEPS: for every array kind the set DependencyMapper / "
        "SubsetDependencyMapper return contains the node itself (access-path flow: "
        "the root path flows into the result); function-call results are "
        "represented by the call's dependencies (exempt). Shared rule: wherever the array-valued components of a shape are picked out, the type test is isinstance(.., Array), never a narrower class."),
    not_decided=(
        "Numeric equality of the returned counts / relations with an independent "
        "enumeration on concrete graphs (follows from R13/R20 but is not measured)."),
)
