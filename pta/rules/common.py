"""Helpers shared by the rule modules."""
from __future__ import annotations

import ast

from pta.model import AnalysisError, Model

EQ = "pytato.equality.EqualityComparer"
MAPPER = "pytato.transform.Mapper"
CACHED = "pytato.transform.CachedMapper"
COPY = "pytato.transform.CopyMapper"
COPYX = "pytato.transform.CopyMapperWithExtraArgs"
COMBINE = "pytato.transform.CombineMapper"
WALK = "pytato.transform.WalkMapper"
CWALK = "pytato.transform.CachedWalkMapper"
USERS = "pytato.transform.UsersCollector"
LUSERS = "pytato.analysis.ListOfUsersCollector"
LPREDS = "pytato.analysis.ListOfDirectPredecessorsGetter"
MPMS = "pytato.transform.materialize.MPMSMaterializer"
TOIL = "pytato.transform.lower_to_index_lambda.ToIndexLambdaMixin"
PREPROC = "pytato.codegen.CodeGenPreprocessor"
CGM = "pytato.target.loopy.codegen.CodeGenMapper"
NPGEN = "pytato.target.python.numpy_like.NumpyCodegenMapper"

META_FIELDS = {"axes", "tags", "non_equality_tags"}


def short(qn: str) -> str:
    return qn.rsplit(".", 1)[-1]


def concrete_kinds(m: Model, with_funcdef=True) -> list[str]:
    """Instantiable node kinds: non-ABC array dataclasses whose ``shape`` and
    ``dtype`` both resolve to a field or a run-time property, concrete
    named-array containers, and FunctionDefinition."""
    out = []
    for k in m.kinds():
        if m.is_abstract(k):
            continue
        mro = m.mro(k)
        if m.ARRAY in mro:
            ok = True
            for a in ("shape", "dtype"):
                r = m.resolve_attr_kind(k, a)
                if r is None or r[0] not in ("field", "property"):
                    ok = False
            if not ok:
                continue
        elif k == m.FUNCDEF:
            if not with_funcdef:
                continue
        elif k == m.NAMES:
            continue
        out.append(k)
    if len(out) < 20:
        raise AnalysisError(f"only {len(out)} concrete node kinds found (floor 20)")
    return out


def handler_name(m: Model, mapper: str, kind: str, mro_fallback=True) -> str | None:
    if kind == m.FUNCDEF:
        return "map_function_definition" if m.resolve_method(
            mapper, "map_function_definition") else None
    return m.dispatch(mapper, kind, mro_fallback)


def where_of(m: Model, fd_or_node, module=None) -> str:
    mi = module or m.module_of(fd_or_node)
    return m.loc(mi, fd_or_node)


def str_const(node) -> str | None:
    if isinstance(node, ast.Constant) and isinstance(node.value, str):
        return node.value
    return None


def dotted(node) -> str | None:
    if isinstance(node, ast.Name):
        return node.id
    if isinstance(node, ast.Attribute):
        b = dotted(node.value)
        return f"{b}.{node.attr}" if b else None
    return None


def calls_in(node, pred=None):
    for n in ast.walk(node):
        if isinstance(n, ast.Call) and (pred is None or pred(n)):
            yield n


def call_name(n: ast.Call) -> str:
    return dotted(n.func) or ast.unparse(n.func)


def is_descriptor_ann(m: Model, ann: ast.expr) -> bool:
    """annotation names ReductionDescriptor (directly or as mapping value)."""
    return "ReductionDescriptor" in ast.unparse(ann)


def sem_fields(m: Model, kind: str) -> list[str]:
    """F(K) minus metadata: axes, tags, non_equality_tags and descriptor-typed
    fields (they carry tags only; classified by type, not by name)."""
    out = []
    for n, (ann, _d, _kw, _c) in m.fields(kind).items():
        if n in META_FIELDS or is_descriptor_ann(m, ann):
            continue
        out.append(n)
    return out
