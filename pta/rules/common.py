"""Helpers shared by the rule modules."""
from __future__ import annotations

import ast

from pta.model import AnalysisError, Model

EQ = "pytato.equality.EqualityComparer"
MAPPER = "pytato.transform.Mapper"
CACHED = "pytato.transform.CachedMapper"
COPY = "pytato.transform.CopyMapper"
COPYX = "pytato.transform.CopyMapperWithExtraArgs"
COMBINE = "pytato.transform.CombineMapper"
WALK = "pytato.transform.WalkMapper"
CWALK = "pytato.transform.CachedWalkMapper"
USERS = "pytato.transform.UsersCollector"
LUSERS = "pytato.analysis.ListOfUsersCollector"
LPREDS = "pytato.analysis.ListOfDirectPredecessorsGetter"
MPMS = "pytato.transform.materialize.MPMSMaterializer"
TOIL = "pytato.transform.lower_to_index_lambda.ToIndexLambdaMixin"
PREPROC = "pytato.codegen.CodeGenPreprocessor"
CGM = "pytato.target.loopy.codegen.CodeGenMapper"
NPGEN = "pytato.target.python.numpy_like.NumpyCodegenMapper"

META_FIELDS = {"axes", "tags", "non_equality_tags"}


def short(qn: str) -> str:
    return qn.rsplit(".", 1)[-1]


def concrete_kinds(m: Model, with_funcdef=True) -> list[str]:
    """Instantiable node kinds: non-ABC array dataclasses whose ``shape`` and
    ``dtype`` both resolve to a field or a run-time property, concrete
    named-array containers, and FunctionDefinition."""
    out = []
    for k in m.kinds():
        if m.is_abstract(k):
            continue
        mro = m.mro(k)
        if m.ARRAY in mro:
            ok = True
            for a in ("shape", "dtype"):
                r = m.resolve_attr_kind(k, a)
                if r is None or r[0] not in ("field", "property"):
                    ok = False
            if not ok:
                continue
        elif k == m.FUNCDEF:
            if not with_funcdef:
                continue
        elif k == m.NAMES:
            continue
        out.append(k)
    if len(out) < 14:
        raise AnalysisError(f"only {len(out)} concrete node kinds found (floor 14)")
    return out


def handler_name(m: Model, mapper: str, kind: str, mro_fallback=True) -> str | None:
    if kind == m.FUNCDEF:
        return "map_function_definition" if m.resolve_method(
            mapper, "map_function_definition") else None
    return m.dispatch(mapper, kind, mro_fallback)


def where_of(m: Model, fd_or_node, module=None) -> str:
    mi = module or m.module_of(fd_or_node)
    return m.loc(mi, fd_or_node)


def str_const(node) -> str | None:
    if isinstance(node, ast.Constant) and isinstance(node.value, str):
        return node.value
    return None


def dotted(node) -> str | None:
    if isinstance(node, ast.Name):
        return node.id
    if isinstance(node, ast.Attribute):
        b = dotted(node.value)
        return f"{b}.{node.attr}" if b else None
    return None


def calls_in(node, pred=None):
    for n in ast.walk(node):
        if isinstance(n, ast.Call) and (pred is None or pred(n)):
            yield n


def call_name(n: ast.Call) -> str:
    return dotted(n.func) or ast.unparse(n.func)


def is_descriptor_ann(m: Model, ann: ast.expr) -> bool:
    """annotation names ReductionDescriptor (directly or as mapping value)."""
    return "ReductionDescriptor" in ast.unparse(ann)


def sem_fields(m: Model, kind: str) -> list[str]:
    """F(K) minus metadata: axes, tags, non_equality_tags and descriptor-typed
    fields (they carry tags only; classified by type, not by name)."""
    out = []
    for n, (ann, _d, _kw, _c) in m.fields(kind).items():
        if n in META_FIELDS or is_descriptor_ann(m, ann):
            continue
        out.append(n)
    return out


# ---------------------------------------------------------------------------
# state that outlives a call: mutable default arguments, mutated class attributes

_MUT_CTORS = ("set", "dict", "list", "defaultdict", "OrderedSet", "Counter", "deque",
              "OrderedDict")
_MUTATORS = ("add", "append", "update", "setdefault", "pop", "clear", "extend", "insert",
             "remove", "discard", "popitem", "__setitem__")


def _is_mutable_display(n):
    import ast
    if isinstance(n, (ast.Dict, ast.List, ast.Set, ast.DictComp, ast.ListComp, ast.SetComp)):
        return True
    return isinstance(n, ast.Call) and isinstance(n.func, ast.Name) and n.func.id in _MUT_CTORS


def shared_mutable_state(m, modules):
    """(kind, module, node, description) for
    * mutable default argument values, and
    * class-level attributes initialised to a mutable container that some method
      of the class (or a subclass) mutates through self/cls
    in ``modules``.  Both make a result depend on what was computed earlier in
    the process (histories), which no single call reveals."""
    import ast
    out = []
    for mi, fd in m.all_functions(modules=modules):
        args = fd.args
        pos = args.posonlyargs + args.args
        for a, d in list(zip(pos[len(pos) - len(args.defaults):], args.defaults)) \
                + [(a, d) for a, d in zip(args.kwonlyargs, args.kw_defaults) if d is not None]:
            if _is_mutable_display(d):
                out.append(("default", mi, fd,
                            f"parameter `{a.arg}={ast.unparse(d)}` of "
                            f"{m.qualname(fd).replace('pytato.', '', 1)}"))
    # module-level containers mutated inside functions (hand-made memo tables)
    for mod in modules:
        mi = m.modules[mod]
        glob = {}
        for st in mi.tree.body:
            tgt = val = None
            if isinstance(st, ast.Assign) and len(st.targets) == 1 \
                    and isinstance(st.targets[0], ast.Name):
                tgt, val = st.targets[0].id, st.value
            elif isinstance(st, ast.AnnAssign) and isinstance(st.target, ast.Name) \
                    and st.value is not None:
                tgt, val = st.target.id, st.value
            if tgt and _is_mutable_display(val):
                glob[tgt] = st
        if glob:
            # ... or handed out by a function: whoever fills the returned container
            # fills it for every later caller
            for _mi, fd in m.all_functions(modules=[mod]):
                local = {a.arg for a in ast.walk(fd.args) if isinstance(a, ast.arg)} | {
                    x.id for x in ast.walk(fd) if isinstance(x, ast.Name)
                    and isinstance(x.ctx, ast.Store)}
                for r in ast.walk(fd):
                    if not (isinstance(r, ast.Return) and r.value is not None):
                        continue
                    vals = r.value.elts if isinstance(r.value, ast.Tuple) else [r.value]
                    for v in vals:
                        if isinstance(v, ast.Name) and v.id in glob and v.id not in local:
                            out.append(("global", mi, glob[v.id],
                                        f"module-level `{v.id} = "
                                        f"{ast.unparse(glob[v.id].value)[:30]}` returned by "
                                        f"{m.qualname(fd).replace('pytato.', '', 1)}"))
                            glob.pop(v.id)
        if glob:
            for _mi, fd in m.all_functions(modules=[mod]):
                local = {a.arg for a in ast.walk(fd.args) if isinstance(a, ast.arg)} | {
                    x.id for x in ast.walk(fd) if isinstance(x, ast.Name)
                    and isinstance(x.ctx, ast.Store)}
                for x in ast.walk(fd):
                    base = None
                    if isinstance(x, ast.Call) and isinstance(x.func, ast.Attribute) \
                            and x.func.attr in _MUTATORS:
                        base = x.func.value
                    elif isinstance(x, ast.Subscript) and isinstance(x.ctx, (ast.Store, ast.Del)):
                        base = x.value
                    if isinstance(base, ast.Name) and base.id in glob and base.id not in local:
                        out.append(("global", mi, glob[base.id],
                                    f"module-level `{base.id} = "
                                    f"{ast.unparse(glob[base.id].value)[:30]}` mutated in "
                                    f"{m.qualname(fd).replace('pytato.', '', 1)}"))
                        glob.pop(base.id)
                        break
                if not glob:
                    break
    for qn, ci in m.classes.items():
        if ci.module.name not in modules:
            continue
        for st in ci.node.body:
            tgt, val = None, None
            if isinstance(st, ast.Assign) and len(st.targets) == 1 \
                    and isinstance(st.targets[0], ast.Name):
                tgt, val = st.targets[0].id, st.value
            elif isinstance(st, ast.AnnAssign) and isinstance(st.target, ast.Name) \
                    and st.value is not None:
                tgt, val = st.target.id, st.value
            if tgt is None or not _is_mutable_display(val):
                continue
            # mutated through self / cls / the class name in this class or a subclass?
            for k in [qn] + list(m.subclasses(qn, strict=True)):
                for mn, fd in m.classes[k].methods.items():
                    for x in ast.walk(fd):
                        base = None
                        if isinstance(x, ast.Call) and isinstance(x.func, ast.Attribute) \
                                and x.func.attr in _MUTATORS:
                            base = x.func.value
                        elif isinstance(x, ast.Subscript) and isinstance(x.ctx, (ast.Store, ast.Del)):
                            base = x.value
                        if isinstance(base, ast.Attribute) and base.attr == tgt \
                                and ast.unparse(base.value) in ("self", "cls", ci.name, "type(self)"):
                            # unless the instance re-binds the attribute in __init__
                            init = m.classes[k].methods.get("__init__")
                            rebinds = init is not None and any(
                                isinstance(y, ast.Attribute) and isinstance(y.ctx, ast.Store)
                                and y.attr == tgt and ast.unparse(y.value) == "self"
                                for y in ast.walk(init))
                            if not rebinds:
                                out.append(("classattr", ci.module, st,
                                            f"class attribute `{ci.name}.{tgt} = "
                                            f"{ast.unparse(val)[:30]}` mutated in "
                                            f"{m.classes[k].name}.{mn}"))
                                break
                    else:
                        continue
                    break
                else:
                    continue
                break
    return out


def check_no_shared_state(c, rule, modules, why, floor_funcs=10):
    """one obligation per module: no state of the two kinds above"""
    m = c.model
    # canary: the fixture must be flagged (exactly its two bad constructs)
    from pathlib import Path
    from pta.model import AnalysisError, Model
    fm = Model(Path(__file__).resolve().parent.parent / "fixtures" / "state", package="fixpkg")
    got = sorted(k for k, _mi, _n, _d in shared_mutable_state(fm, list(fm.modules)))
    if got != ["classattr", "default", "global", "global"]:
        raise AnalysisError(f"shared-mutable-state canary: expected one default, one class "
                            f"attribute and two module-level tables (one mutated, one returned), flagged {got}")
    mods = [x for x in modules if x in m.modules]
    found = shared_mutable_state(m, mods)
    by_mod = {}
    for kind, mi, node, desc in found:
        by_mod.setdefault(mi.name, []).append((kind, mi, node, desc))
    n_funcs = sum(1 for _ in m.all_functions(modules=mods))
    if n_funcs < floor_funcs:
        from pta.model import AnalysisError
        raise AnalysisError(f"only {n_funcs} functions scanned for shared mutable state")
    for mod in mods:
        mi = m.modules[mod]
        hits = by_mod.get(mod, [])
        if not hits:
            c.ok(rule, mod.replace("pytato.", "", 1), "no-state-outliving-a-call",
                 mi.relpath(m.repo) + ":1", nontrivial=False)
        for kind, mi_, node, desc in hits:
            c.violation(rule, mod.replace("pytato.", "", 1),
                        f"no-state-outliving-a-call:{desc[:70]}", m.loc(mi_, node),
                        f"{desc}: the container is created once and shared by every later "
                        f"call / instance, so {why}")


def only_called_from(m, fd, allowed, depth=2):
    """is the private function/method ``fd`` (``_name``) called only from functions
    named in ``allowed`` (directly, or through further private helpers)?  A block
    moved out of an allowed function into a helper keeps the allowance."""
    import ast
    if fd.name in allowed:
        return True
    if depth <= 0 or not fd.name.startswith("_") or fd.name.startswith("__"):
        return False
    mi = m.module_of(fd)
    callers = []
    for g in ast.walk(mi.tree):
        if isinstance(g, (ast.FunctionDef, ast.AsyncFunctionDef)) and g is not fd:
            for call in ast.walk(g):
                if isinstance(call, ast.Call) and (
                        (isinstance(call.func, ast.Name) and call.func.id == fd.name)
                        or (isinstance(call.func, ast.Attribute) and call.func.attr == fd.name
                            and isinstance(call.func.value, ast.Name)
                            and call.func.value.id in ("self", "cls"))):
                    callers.append(g)
                    break
    return bool(callers) and all(only_called_from(m, g, allowed, depth - 1) for g in callers)


def check_no_pickled_hash_cache(c, rule, modules, why):
    """a hand-written __hash__ that stores its value on the instance, in a class
    without a __getstate__ that drops it: the (hash-seed dependent) value travels in
    the pickle to another process (another MPI rank, a persistent cache)"""
    import ast
    m = c.model
    n = 0
    for qn, ci in sorted(m.classes.items()):
        if not any(qn.startswith(x + ".") for x in modules) or "__hash__" not in ci.methods:
            continue
        n += 1
        fd = ci.methods["__hash__"]
        src = ast.unparse(fd)
        caches = "__setattr__" in src or any(
            isinstance(x, ast.Assign) and any(
                isinstance(t, ast.Attribute) and isinstance(t.value, ast.Name)
                and t.value.id == fd.args.args[0].arg for t in x.targets)
            for x in ast.walk(fd))
        has_gs = m.resolve_method(qn, "__getstate__") is not None
        c.check((not caches) or has_gs, rule, f"{short(qn)}.__hash__",
                "no-unpickled-hash-cache", m.loc(ci.module, fd),
                "hand-written __hash__ caches on the instance but the class has no "
                "__getstate__ dropping the cache: " + why)
    return n


def check_shape_component_tests(c, rule, modules):
    """an array-valued shape component is any Array (a size parameter, or an
    expression of size parameters such as n + 1): wherever the traversal and
    analysis code picks the array-valued components out of a shape, the type test is
    against Array itself.  A narrower class (InputArgumentBase, SizeParam) still finds
    every bare size parameter, which is all the tests use."""
    import ast
    m = c.model
    n = 0
    for mi, fd in m.all_functions(modules=[x for x in modules if x in m.modules]):
        if m.enclosing_function(fd) is not None:
            continue
        params = {a.arg for a in fd.args.posonlyargs + fd.args.args + fd.args.kwonlyargs}
        sites = []     # (loop variable, nodes in which it is tested)
        for x in ast.walk(fd):
            if isinstance(x, ast.For) and isinstance(x.target, ast.Name):
                sites.append((x.target.id, x.iter, x.body))
            elif isinstance(x, (ast.ListComp, ast.SetComp, ast.GeneratorExp, ast.DictComp)):
                body = [x.key, x.value] if isinstance(x, ast.DictComp) else [x.elt]
                for g in x.generators:
                    if isinstance(g.target, ast.Name):
                        sites.append((g.target.id, g.iter, body + list(g.ifs)))
        for var, it, body in sites:
            its = ast.unparse(it)
            if not (its.endswith(".shape") or (its == "shape" and "shape" in params)):
                continue
            for b in body:
                for t in ast.walk(b):
                    if isinstance(t, ast.Call) and ast.unparse(t.func) == "isinstance" \
                            and len(t.args) == 2 and ast.unparse(t.args[0]) == var:
                        ty = ast.unparse(t.args[1])
                        if ty in ("INT_CLASSES", "int", "Integer", "(int, np.integer)"):
                            continue
                        n += 1
                        qn = m.qualname(fd).replace("pytato.", "", 1)
                        c.check(ty == "Array", rule, qn,
                                f"shape-components-selected-by-Array:{its}", m.loc(mi, t),
                                f"the array-valued components of `{its}` are selected with "
                                f"isinstance(.., {ty}): a component that is an Array but no "
                                f"{ty} (an expression of size parameters, n + 1) is skipped: "
                                "it is no predecessor / is never visited, although its users "
                                "and the shape itself say it is there")
    return n


def check_no_hash_keyed_tables(c, rule, modules):
    """a table that stands for 'the objects seen so far' is keyed by the objects (or
    by id()), never by hash(obj): distinct objects may share a hash (hash(-1) ==
    hash(-2) in CPython, so x[-1] and x[-2] do), and a lookup by hash hands back
    whichever came first.  Flags hash(..) used as a subscript, as the left side of
    `in`, or as the argument of .get/.add/.setdefault/.pop/.discard, directly or
    through a local."""
    import ast
    m = c.model
    n_funcs = 0
    for mi, fd in m.all_functions(modules=[x for x in modules if x in m.modules]):
        if m.enclosing_function(fd) is not None or fd.name in (
                "__hash__", "update_persistent_hash", "__eq__"):
            continue
        n_funcs += 1
        hashed = set()      # locals bound to hash(..)
        for a in ast.walk(fd):
            if isinstance(a, (ast.Assign, ast.AnnAssign)) and a.value is not None \
                    and isinstance(a.value, ast.Call) and isinstance(a.value.func, ast.Name) \
                    and a.value.func.id == "hash":
                for t in (a.targets if isinstance(a, ast.Assign) else [a.target]):
                    if isinstance(t, ast.Name):
                        hashed.add(t.id)

        def is_hash(e):
            return (isinstance(e, ast.Call) and isinstance(e.func, ast.Name)
                    and e.func.id == "hash") or (isinstance(e, ast.Name) and e.id in hashed)
        for x in ast.walk(fd):
            site = None
            if isinstance(x, ast.Subscript) and is_hash(x.slice):
                site = x
            elif isinstance(x, ast.Compare) and len(x.ops) == 1 \
                    and isinstance(x.ops[0], (ast.In, ast.NotIn)) and is_hash(x.left):
                site = x
            elif isinstance(x, ast.Call) and isinstance(x.func, ast.Attribute) \
                    and x.func.attr in ("get", "add", "setdefault", "pop", "discard") \
                    and x.args and is_hash(x.args[0]):
                site = x
            if site is not None:
                qn = m.qualname(fd).replace("pytato.", "", 1)
                c.violation(rule, qn, f"table-keyed-by-hash:{m.frag(site, 50)}",
                            m.loc(mi, site),
                            f"`{m.frag(site, 70)}` looks an object up by its hash: two "
                            "distinct objects with the same hash (x[-1] and x[-2]: "
                            "hash(-1) == hash(-2)) are taken for one another")
    return n_funcs
