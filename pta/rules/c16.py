"""C16 -- symbolic shapes: equality decisions go through the affine comparison."""
from __future__ import annotations

import ast

from pta.check import Spec
from pta.model import AnalysisError
from pta.pat import find, has, kwarg, stmt_is
from pta.order import _own_nodes

SHAPE_ANN = ("ShapeType", "ShapeComponent", "ConvertibleToShape")
ROUTERS = ("are_shape_components_equal", "are_shapes_equal")
# pytato.equality is *structural* equality of expressions by definition (C04)
SCOPE_EXCLUDE = ("pytato.visualization", "pytato.stringifier", "pytato.equality")

_RESHAPE = ("reshape() rejects symbolic axis lengths before lowering ('reshape of "
            "arrays with symbolic lengths not allowed'): these helpers only see integers")
REVIEWED = {
    # (function, comparison text) -> reason
    ("transform.lower_to_index_lambda._generate_index_expressions",
     "old_shape == new_shape"): _RESHAPE,
    ("transform.lower_to_index_lambda._get_reshaped_indices",
     "old_ax_len_product != new_ax_len_product"): _RESHAPE,
    ("transform.lower_to_index_lambda._get_reshaped_indices",
     "old_ax_len_product != new_ax_len_product#2"): _RESHAPE,
    ("transform.lower_to_index_lambda._generate_index_expressions",
     "new_shape == (1,)"): _RESHAPE,
    ("transform.lower_to_index_lambda._get_reshaped_indices",
     "old_ax_len_product == 1"): _RESHAPE,
    ("transform.lower_to_index_lambda._get_reshaped_indices",
     "new_ax_len_product == 1"): _RESHAPE,
    ("transform.lower_to_index_lambda._get_reshaped_indices",
     "old_shape[old_index] == 1"): _RESHAPE,
    ("transform.lower_to_index_lambda._get_reshaped_indices",
     "new_shape[new_index] == 1"): _RESHAPE,
}
# matched on alpha-normalised text (local renames do not matter); one entry
# exempts one comparison
from pta.pat import alpha as _alpha
_REVIEWED_N: dict = {}
for (_q, _t), _w in REVIEWED.items():
    _REVIEWED_N.setdefault((_q, _alpha(_t.split("#")[0])), []).append(_w)


def _moved_entry(qn, text, mi, used):
    """a reviewed comparison whose code was moved into another function of the same
    module ('extract function'): the review is about the comparison, one entry
    still covers one comparison"""
    mod = mi.name.replace("pytato.", "", 1)
    for (q, t), whys in _REVIEWED_N.items():
        if t == text and q != qn and (q == mod or q.startswith(mod + ".")) \
                and used[(q, t)] < len(whys):
            used[(q, t)] += 1
            return whys[0] + f" (entry written for {q})"
    return None


class ShapeTyping:
    def __init__(self, m):
        self.m = m
        self.shape_funcs = set()
        for mi, fd in m.all_functions():
            if fd.returns is not None and any(t in ast.unparse(fd.returns)
                                              for t in SHAPE_ANN):
                self.shape_funcs.add(fd.name)

    def analyse(self, fd, inherited=None):
        vars_ = dict(inherited or {})
        for a in fd.args.posonlyargs + fd.args.args + fd.args.kwonlyargs:
            if a.annotation is not None and any(t in ast.unparse(a.annotation)
                                                for t in SHAPE_ANN):
                vars_[a.arg] = f"parameter {a.arg}: {ast.unparse(a.annotation)[:30]}"
        for _ in range(2):
            for n in _own_nodes(fd):
                if isinstance(n, ast.Assign):
                    r = self.is_shape(n.value, vars_)
                    if r:
                        for t in n.targets:
                            for nm in ast.walk(t):
                                if isinstance(nm, ast.Name):
                                    vars_.setdefault(nm.id, r)
                elif isinstance(n, ast.AnnAssign) and isinstance(n.target, ast.Name):
                    if any(t in ast.unparse(n.annotation) for t in SHAPE_ANN) or (
                            n.value is not None and self.is_shape(n.value, vars_)):
                        vars_.setdefault(n.target.id, "annotated/assigned shape")
                elif isinstance(n, (ast.For, ast.comprehension)):
                    self._bind_iter(n.target, n.iter, vars_)
        return vars_

    def _bind_iter(self, tgt, it, vars_):
        if isinstance(it, ast.Call) and isinstance(it.func, ast.Name) \
                and it.func.id == "zip" and isinstance(tgt, (ast.Tuple, ast.List)):
            for t, a in zip(tgt.elts, it.args):
                self._bind_iter(t, a, vars_)
            return
        if isinstance(it, ast.Call) and isinstance(it.func, ast.Name) \
                and it.func.id == "enumerate" and isinstance(tgt, (ast.Tuple, ast.List)) \
                and len(tgt.elts) == 2 and it.args:
            self._bind_iter(tgt.elts[1], it.args[0], vars_)
            return
        r = self.is_shape(it, vars_)
        if r and isinstance(tgt, ast.Name):
            vars_.setdefault(tgt.id, "component of " + r)

    def is_shape(self, n, vars_):
        if isinstance(n, ast.Attribute) and n.attr in ("shape", "newshape"):
            return f"{ast.unparse(n)[:40]}"
        if isinstance(n, ast.Name):
            return vars_.get(n.id)
        if isinstance(n, ast.Subscript):
            return self.is_shape(n.value, vars_)
        if isinstance(n, ast.BinOp) and isinstance(n.op, ast.Add):
            a, b = self.is_shape(n.left, vars_), self.is_shape(n.right, vars_)
            if a and b:
                return a
            # tuple concatenation with a literal tuple
            if (a and isinstance(n.right, ast.Tuple)) or (b and isinstance(n.left, ast.Tuple)):
                return a or b
            return None
        if isinstance(n, ast.Call):
            f = n.func
            nm = f.id if isinstance(f, ast.Name) else (f.attr if isinstance(f, ast.Attribute) else None)
            if nm in self.shape_funcs or nm in vars_.get("__localshapefuncs__", ()):
                return f"result of {nm}()"
            if nm == "tuple" and n.args:
                return self.is_shape(n.args[0], vars_)
            if nm == "cast" and len(n.args) == 2:
                return self.is_shape(n.args[1], vars_)
        if isinstance(n, ast.Starred):
            return self.is_shape(n.value, vars_)
        return None


def _literal(n):
    if isinstance(n, ast.Constant):
        return True
    if isinstance(n, ast.UnaryOp) and isinstance(n.operand, ast.Constant):
        return True
    if isinstance(n, (ast.Tuple, ast.List)):
        return all(_literal(e) for e in n.elts)
    return False


def _empty_tuple(n):
    """`()`: comparing a shape with it tests the rank only.  Any other literal
    (1, (1,), 0) is a statement about a component's VALUE, and a symbolic
    component can have that value for every valuation without being that
    literal structurally (n - n + 1)"""
    return isinstance(n, ast.Tuple) and not n.elts


def _int_proven(cmp_, names):
    """a dominating isinstance(<name>, INT_CLASSES / int) test on both operands"""
    need = set(names)
    p = cmp_
    while p is not None:
        par = getattr(p, "_parent", None)
        tests = []
        if isinstance(par, ast.If) and (p in par.body):
            tests.append(par.test)
        if isinstance(par, ast.IfExp) and par.body is p:
            tests.append(par.test)
        if isinstance(par, ast.BoolOp) and isinstance(par.op, ast.And):
            tests += [v for v in par.values if v is not p]
        for t in tests:
            for call in ast.walk(t):
                if isinstance(call, ast.Call) and ast.unparse(call.func) == "isinstance" \
                        and any(k in ast.unparse(call.args[1])
                                for k in ("INT_CLASSES", "int", "Integer")):
                    need.discard(ast.unparse(call.args[0]))
        p = par
    return not need


def r_route(c):
    m = c.model
    st = ShapeTyping(m)
    n_cmp = 0
    n_funcs = 0
    from collections import Counter
    used_rev = Counter()

    def visit(mi, fd, inherited):
        nonlocal n_cmp, n_funcs
        n_funcs += 1
        vars_ = st.analyse(fd, inherited)
        # nested defs returning shapes
        local_funcs = {x.name for x in _own_nodes(fd)
                       if isinstance(x, ast.FunctionDef) and x.returns is not None
                       and any(t in ast.unparse(x.returns) for t in SHAPE_ANN)}
        vars_["__localshapefuncs__"] = tuple(local_funcs) + tuple(
            (inherited or {}).get("__localshapefuncs__", ()))
        qn = m.qualname(fd).replace("pytato.", "", 1)
        for n in _own_nodes(fd):
            if isinstance(n, ast.Compare) and len(n.ops) == 1 \
                    and isinstance(n.ops[0], (ast.Eq, ast.NotEq)):
                l, r = n.left, n.comparators[0]
                sl, sr = st.is_shape(l, vars_), st.is_shape(r, vars_)
                if not (sl or sr):
                    continue
                n_cmp += 1
                inst = m.frag(n, 70)
                where = m.loc(mi, n)
                if fd.name in ROUTERS:
                    c.ok("R16-ROUTE", qn, inst, where, "inside the decision procedure",
                         nontrivial=False)
                elif _empty_tuple(l) or _empty_tuple(r):
                    c.ok("R16-ROUTE", qn, inst, where,
                         "compared with () : a test of the rank, exact for any shape")
                elif _int_proven(n, [ast.unparse(x) for x, sx in ((l, sl), (r, sr)) if sx]):
                    c.ok("R16-ROUTE", qn, inst, where,
                         "the shape-typed operands are proven integers by a dominating "
                         "isinstance test: == on an integer is exact")
                elif used_rev[(qn, _alpha(inst))] < len(_REVIEWED_N.get((qn, _alpha(inst)), [])):
                    used_rev[(qn, _alpha(inst))] += 1
                    c.exempt("R16-ROUTE", qn, inst, where,
                             _REVIEWED_N[(qn, _alpha(inst))][0])
                elif (moved := _moved_entry(qn, _alpha(inst), mi, used_rev)) is not None:
                    c.exempt("R16-ROUTE", qn, inst, where, moved)
                else:
                    c.violation(
                        "R16-ROUTE", qn, inst, where,
                        f"shape-typed operand ({sl or sr}) compared with raw "
                        f"{'==' if isinstance(n.ops[0], ast.Eq) else '!='}: for symbolic "
                        "shapes this is structural equality of the shape expressions, "
                        "so n+1 and 1+n are treated as different; route it through "
                        "are_shape_components_equal / are_shapes_equal")
        for sub in _own_nodes(fd):
            if isinstance(sub, (ast.FunctionDef, ast.AsyncFunctionDef)):
                visit(mi, sub, vars_)

    for name, mi in m.modules.items():
        if name.startswith(SCOPE_EXCLUDE):
            continue
        for node in mi.tree.body:
            if isinstance(node, ast.FunctionDef):
                visit(mi, node, None)
            elif isinstance(node, ast.ClassDef):
                for s in ast.walk(node):
                    if isinstance(s, ast.FunctionDef) and isinstance(
                            getattr(s, "_parent", None), (ast.ClassDef, ast.If)):
                        visit(mi, s, None)
    c.units["functions_scanned"] = n_funcs
    if n_cmp < 8:
        raise AnalysisError(f"only {n_cmp} comparisons on shape-typed operands found "
                            "(floor 8): shape typing broken")


def r_decision(c):
    m = c.model
    fd = m.func("pytato.utils.are_shape_components_equal")
    where = m.loc("pytato.utils", fd)
    d1, d2 = fd.args.args[0].arg, fd.args.args[1].arg
    # The function as a decision table (early returns and `else` alike): besides the
    # integer fast path, the only ways out are `A.is_cst() and A.get_constant_val()
    # .is_zero()`, or the same thing in two steps (`if not A.is_cst(): return False`
    # / `return A.get_constant_val().is_zero()`)
    from pta.pat import expr_is
    rows = m.returns_by_condition(fd)
    if rows is None:
        raise AnalysisError("are_shape_components_equal: a return inside a loop/try")
    diffs = find(fd, f"$d = {d1} - {d2}") + find(fd, f"$d = {d2} - {d1}")
    dv = diffs[0]["$d"] if len(diffs) == 1 else "?"
    fast_txt = (f"isinstance({d1}, INT_CLASSES) and isinstance({d2}, INT_CLASSES)",
                f"isinstance({d2}, INT_CLASSES) and isinstance({d1}, INT_CLASSES)")
    affs, whole, step_f, step_t, row_ok = set(), False, False, False, {}
    for conds, v in rows:
        in_fast = any(t in fast_txt and pol for t, pol in conds)
        rest = [(t, pol) for t, pol in conds if t not in fast_txt]
        ok_row = False
        if in_fast:
            ok_row = ast.unparse(v) in (f"{d1} == {d2}", f"{d2} == {d1}")
        elif not rest and isinstance(v, ast.BoolOp):
            e_ = find(ast.Expr(value=v), "$aff.is_cst() and $aff.get_constant_val().is_zero()")
            if e_ and e_[0]["@node"] is v:
                ok_row = whole = True
                affs.add(e_[0]["$aff"])
        elif len(rest) == 1 and rest[0][0].endswith(".is_cst()"):
            a_ = rest[0][0][:-len(".is_cst()")]
            if not rest[0][1] and isinstance(v, ast.Constant) and v.value is False:
                ok_row = step_f = True
                affs.add(a_)
            elif rest[0][1] and ast.unparse(v) == f"{a_}.get_constant_val().is_zero()":
                ok_row = step_t = True
                affs.add(a_)
        row_ok[id(v)] = (ok_row, v)
    aff = affs.pop() if len(affs) == 1 else "?"
    ok = (whole or (step_f and step_t)) and has(
        fd, f"{aff} = ShapeToISLExpressionMapper($sp)({dv})")
    c.check(ok, "R16-DECISION", "utils.are_shape_components_equal",
            "true-only-for-constant-zero-difference", where,
            "the decision is no longer `difference is constant AND that constant is "
            "zero`: a non-constant or non-zero difference could be accepted as equal")
    # every other assignment to the difference only deduplicates it
    others = [a for a in ast.walk(fd) if isinstance(a, ast.Assign)
              and ast.unparse(a.targets[0]) == dv and not stmt_is(a, f"{dv} = {d1} - {d2}")
              and not stmt_is(a, f"{dv} = {d2} - {d1}")]
    c.check(len(diffs) == 1 and all(stmt_is(a, f"{dv} = deduplicate({dv})") for a in others),
            "R16-DECISION", "utils.are_shape_components_equal",
            "forms-the-difference", where,
            "the ISL expression is not built from the difference of the two components")
    fast = [i for i in ast.walk(fd) if isinstance(i, ast.If) and ast.unparse(i.test) in (
        f"isinstance({d1}, INT_CLASSES) and isinstance({d2}, INT_CLASSES)",
        f"isinstance({d2}, INT_CLASSES) and isinstance({d1}, INT_CLASSES)")]
    c.check(len(fast) == 1 and any(
        isinstance(s, ast.Return) and ast.unparse(s.value) in (f"{d1} == {d2}", f"{d2} == {d1}")
        for s in fast[0].body), "R16-DECISION",
            "utils.are_shape_components_equal", "integer-fast-path-is-equality", where,
            "the integer fast path is not plain equality of two integers")
    # every way out of the decision procedure is one of the two exact deciders:
    # integer equality under the isinstance guard, or the affine test.  Any other
    # return (a shortcut on parameter sets, ranks, identity, ...) answers without
    # asking whether the difference is identically zero
    for ok_row, v in row_ok.values():
        c.check(ok_row, "R16-DECISION", "utils.are_shape_components_equal",
                f"return-is-an-exact-decider:return {m.frag(v, 33)}",
                m.loc("pytato.utils", v) if hasattr(v, "lineno") else where,
                f"`return {m.frag(v, 60)}` decides equality of two shape components without "
                "going through integer equality or the zero-difference test: "
                "components that are equal for every valuation can be declared "
                "different (or vice versa)")
    sp = m.func("pytato.utils._create_size_param_space")
    c.check(bool(kwarg(sp, "params", f"sorted({sp.args.args[0].arg})",
                       func="create_from_names")), "R16-DECISION",
            "utils._create_size_param_space", "sorted-parameter-space",
            m.loc("pytato.utils", sp),
            "the parameter space is not created from the sorted names")
    se = m.func("pytato.utils.are_shapes_equal")
    s1, s2 = se.args.args[0].arg, se.args.args[1].arg
    c.check(has(se, f"return len({s1}) == len({s2}) and all((are_shape_components_equal($a, $b) "
                    f"for $a, $b in zip({s1}, {s2}, strict=True)))"),
            "R16-DECISION", "utils.are_shapes_equal",
            "same-rank-and-all-components", m.loc("pytato.utils", se),
            "shapes are no longer equal iff same rank and all components equal")
    # the ISL mapper maps size params to their own variable and evaluates affinely
    mp = m.func("pytato.utils.ShapeToISLExpressionMapper.map_size_param")
    c.check(has(mp, f"$dt, $pos = self.space.get_var_dict()[{mp.args.args[1].arg}.name]\n"
                    "return isl.Aff.var_on_domain(self.space, $dt, $pos)"), "R16-DECISION",
            "utils.ShapeToISLExpressionMapper.map_size_param", "variable-by-own-name",
            m.loc("pytato.utils", mp),
            "a size parameter is not mapped to the space variable of its own name")
    # users of the decision: the consumers the property lists
    for qn, what in (("pytato.utils.get_shape_after_broadcasting", "broadcasting"),
                     ("pytato.array.stack", "stacking"),
                     ("pytato.array._get_einsum_access_descr_to_axis_len", "einsum axis matching"),
                     ("pytato.function.FunctionDefinition.__call__", "call argument checking"),
                     ("pytato.array.concatenate", "concatenation"),
                     ("pytato.array.sparse_matmul", "sparse matmul")):
        f = m.func(qn)
        c.check(any(r in ast.unparse(g) for r in ROUTERS for g in m.scope(f)), "R16-DECISION",
                qn.replace("pytato.", "", 1), f"uses-affine-comparison:{what}",
                m.loc(m.module_of(f), f),
                f"{what} no longer decides shape equality through the affine comparison")


def r_bindnames(c):
    """symbolic shape components enter a lowered index lambda under names that
    cannot clash with the operand bindings or with each other"""
    m = c.model
    LOW = "pytato.transform.lower_to_index_lambda"
    n = 0
    for mi, fd in m.all_functions(modules=[LOW]):
        for call in ast.walk(fd):
            if not (isinstance(call, ast.Call)
                    and ast.unparse(call.func).split(".")[-1] == "dim_to_index_lambda_components"):
                continue
            n += 1
            qn = m.qualname(fd).replace("pytato.", "", 1)
            where = m.loc(mi, call)
            inst = m.frag(call.args[0], 40) if call.args else "?"
            gen = call.args[1] if len(call.args) > 1 else next(
                (k.value for k in call.keywords if k.arg == "vng"), None)
            if gen is None:
                c.violation("R16-BINDNAMES", qn, f"{inst}:shared-generator", where,
                            "dim_to_index_lambda_components is called without a name "
                            "generator: every symbolic component is bound as `_in`, so two "
                            "components (or a component and an operand) overwrite each "
                            "other in the lambda's bindings")
                continue
            # resolve the generator: UniqueNameGenerator(<seed>) directly or via a local
            src = gen
            asg = None
            if isinstance(gen, ast.Name):
                cands = [a for a in ast.walk(fd) if isinstance(a, (ast.Assign, ast.AnnAssign))
                         and a.value is not None and any(
                             isinstance(t, ast.Name) and t.id == gen.id
                             for t in (a.targets if isinstance(a, ast.Assign) else [a.target]))]
                if len(cands) == 1:
                    asg = cands[0]
                    src = asg.value
            seeded = isinstance(src, ast.Call) and ast.unparse(src.func).split(".")[-1] \
                == "UniqueNameGenerator" and len(src.args) == 1 \
                and ast.unparse(src.args[0]) not in ("set()", "()", "[]", "{}")
            c.check(seeded, "R16-BINDNAMES", qn, f"{inst}:generator-seeded-with-operand-names",
                    where,
                    f"the generator handed over is `{m.frag(src, 50)}`: it does not know the "
                    "names of the operand bindings, so a size parameter can be bound under "
                    "an operand's name")
            # calls in a loop share one generator created outside the loop
            loop = call
            while loop is not fd and not isinstance(loop, (ast.For, ast.While)):
                loop = loop._parent
            if loop is not fd:
                shared = asg is not None and not any(asg is x for x in ast.walk(loop))
                c.check(shared, "R16-BINDNAMES", qn, f"{inst}:one-generator-for-the-loop", where,
                        "the call sits in a loop but its name generator is created per "
                        "iteration: later components reuse the names of earlier ones")
    if n < 2:
        raise AnalysisError(f"only {n} dim_to_index_lambda_components call sites in lowering")


def r_broadcast(c):
    """broadcasting decisions on (possibly symbolic) axis lengths: shared with C03"""
    from pta.rules.c03 import SHAPE_MODULES, broadcast_folds
    n = broadcast_folds(c, "R16-BROADCAST", SHAPE_MODULES)
    if n < 2:
        raise AnalysisError(f"only {n} broadcast decision trees found (floor 2)")


def r_state(c):
    """the decision procedure is a function of its two arguments only"""
    from pta.rules.common import check_no_shared_state
    check_no_shared_state(
        c, "R16-STATE", ["pytato.utils"],
        "the verdict on two shape components depends on earlier verdicts (a memo keyed by "
        "id() answers for dead objects whose address was reused)", floor_funcs=20)

INTISH_ATTRS = ("shape", "indices", "newshape", "index_tuple")
INTISH_ANN = ("ShapeComponent", "IndexExpr", "ShapeType", "Integer")


def int_tests(c, rule, modules):
    """pytato accepts NumPy integers wherever it accepts integers (INT_CLASSES =
    (int, np.integer): shapes, indices, shifts).  A test `isinstance(x, int)` on a
    shape component, an index or a reduction bound therefore takes a NumPy integer
    for something symbolic / unsupported.  Returns the number of tests inspected."""
    m = c.model
    n = 0
    for mi, fd in m.all_functions(modules=[x for x in modules if x in m.modules]):
        from pta.order import _own_nodes
        own = list(_own_nodes(fd))
        # names bound to components of shapes / index tuples / bounds in this function
        intish = {}
        for a in fd.args.args + fd.args.kwonlyargs:
            if a.annotation is not None and any(
                    t in ast.unparse(a.annotation) for t in INTISH_ANN):
                intish[a.arg] = f"parameter annotated {ast.unparse(a.annotation)[:30]}"
        for x in own:
            it = tg = None
            if isinstance(x, (ast.For, ast.comprehension)):
                it, tg = x.iter, x.target
            elif isinstance(x, ast.Assign) and len(x.targets) == 1:
                it, tg = x.value, x.targets[0]
                if not any(isinstance(y, ast.Attribute) and y.attr == "bounds"
                           for y in ast.walk(it)):
                    it = None
            if it is None:
                continue
            src = [y for y in ast.walk(it) if isinstance(y, ast.Attribute)
                   and y.attr in INTISH_ATTRS + ("bounds",)]
            if src:
                for t in ast.walk(tg):
                    if isinstance(t, ast.Name):
                        intish.setdefault(t.id, f"component of `{m.frag(src[0], 30)}`")
        for call in own:
            if not (isinstance(call, ast.Call) and isinstance(call.func, ast.Name)
                    and call.func.id == "isinstance" and len(call.args) == 2):
                continue
            x, ty = call.args
            tys = [ast.unparse(e) for e in (ty.elts if isinstance(ty, ast.Tuple) else [ty])]
            if "int" not in tys:
                continue
            if any(t in ("np.integer", "numpy.integer", "INT_CLASSES", "*INT_CLASSES",
                         "Integer") for t in tys):
                continue
            why = None
            if isinstance(x, ast.Name) and x.id in intish:
                why = intish[x.id]
            elif isinstance(x, ast.Subscript) and isinstance(x.value, ast.Attribute) \
                    and x.value.attr in INTISH_ATTRS:
                why = f"component of `{m.frag(x.value, 30)}`"
            if why is None:
                continue
            n += 1
            in_assert = False
            p = call
            while p is not fd and p is not None:
                if isinstance(p, ast.Assert):
                    in_assert = True
                p = getattr(p, "_parent", None)
            qn = m.qualname(fd).replace("pytato.", "", 1)
            c.check(False, rule, qn, f"isinstance({m.frag(x, 25)}, int)", m.loc(mi, call),
                    f"`{m.frag(call, 50)}`: {m.frag(x, 25)} is a {why}; NumPy integers are "
                    "accepted there (INT_CLASSES), so x[np.int64(1)] or a shape "
                    "(np.int64(3), 4) is taken for symbolic/unsupported"
                    + (" (the assertion fails)" if in_assert else ""))
    return n


def r_intclass(c):
    int_tests(c, "R16-INTCLASS", sorted(c.model.modules))
    c.ok("R16-INTCLASS", "pytato", "integer-tests-on-shape-components-use-INT_CLASSES",
         "pytato/scalar_expr.py:88", nontrivial=False)


def r_symbolic_sibling(c):
    """padding: for an axis of SYMBOLIC length the upper guard compares with a binding
    (`bindings[name] = V; ... Variable(name)`), for a static length with the value
    itself.  The two arms of `isinstance(axis_len, Array)` must build the same
    expression once the binding is written out -- the symbolic arm is reached by no
    test with a static shape.  Case-split evaluation (pta/symrun.py) of one iteration
    up to and including that `if`, then `Variable(<key>)` replaced by what was stored
    under <key>."""
    m = c.model
    import re
    from pta import symrun
    fd0 = m.func("pytato.pad._get_constant_padded_idx_lambda")
    where = m.loc(m.module_of(fd0), fd0)
    fd = m.inlined(fd0)
    found = 0
    for loop in ast.walk(fd):
        if not isinstance(loop, ast.For):
            continue
        ifs = [st for st in loop.body if isinstance(st, ast.If) and st.orelse
               and re.fullmatch(r"isinstance\((.+), Array\)", ast.unparse(st.test))]
        if len(ifs) != 1:
            continue
        iff = ifs[0]

        def assigned(block):
            return {t.id for st in block for a in ast.walk(st) if isinstance(a, ast.Assign)
                    for t in a.targets if isinstance(t, ast.Name)}
        both = assigned(iff.body) & assigned(iff.orelse)
        if len(both) != 1:
            raise AnalysisError("R16-DECISION: cannot tell which expression the two arms of "
                                "isinstance(axis_len, Array) in pad build")
        acc = both.pop()
        probe = ast.Expr(value=ast.Call(func=ast.Name(id="__result__", ctx=ast.Load()),
                                        args=[ast.Name(id=acc, ctx=ast.Load())], keywords=[]))
        idx = loop.body.index(iff)
        tbl = symrun.table(loop.body[:idx + 1] + [probe], lambda t: None)
        res = {}
        for cs, ev in tbl.items():
            cs = dict(cs)
            key = [v for k, v in cs.items()
                   if re.fullmatch(r"isinstance\((.+), Array\)", k)]
            if len(key) != 1 or len(cs) != 1:
                raise AnalysisError("R16-DECISION: the arms of isinstance(axis_len, Array) in "
                                    "pad depend on further tests; cannot compare them")
            r = [e for e in ev if e[0] == "call" and e[1] == "__result__"][0][2][0]
            for e in ev:
                if e[0] == "store":
                    for ctor in ("prim.Variable", "Variable", "p.Variable"):
                        r = r.replace(f"{ctor}({e[2]})", e[3])
            res[key[0]] = r
        if set(res) != {True, False}:
            continue
        found += 1
        c.check(res[True] == res[False], "R16-DECISION", "pad._get_constant_padded_idx_lambda",
                "symbolic-length-arm-builds-the-static-arm's-expression", where,
                f"for a symbolic axis length the guard is `{res[True][:110]}`, for a static one "
                f"`{res[False][:110]}` (bindings written out): padding an array with a "
                "symbolic shape computes something else than padding the same array with "
                "its shape known")
    if not found:
        raise AnalysisError("anchor vanished: the two arms of isinstance(axis_len, Array) in "
                            "pad's index lambda")


SPEC = Spec(
    prop="C16",
    rules=[r_route, r_decision, r_bindnames, r_broadcast, r_state, r_intclass, r_symbolic_sibling],
    floors={"R16-ROUTE": 12, "R16-DECISION": 9, "R16-BINDNAMES": 2, "R16-BROADCAST": 7,
            "R16-STATE": 1, "R16-INTCLASS": 1},
    explanation=(
        "R16-ROUTE (who-may-compare): local shape typing (X.shape / newshape, "
        "subscripts and slices of it, variables assigned from it, parameters and "
        "function results annotated ShapeType/ShapeComponent, loop variables over "
        "shapes incl. zip/enumerate, nested helper functions) finds every ==/!= "
        "with a shape-typed operand in the package; it must be inside the "
        "decision procedure, compare with a literal, or have both operands proven "
        "integers by a dominating isinstance test; any other raw comparison is a "
        "violation (structural equality is sound but not complete for symbolic "
        "shapes, contradicting 'exactly when'). R16-DECISION: "
        "are_shape_components_equal forms the difference and returns true only for "
        "a constant AND zero difference over a sorted parameter space; the "
        "consumers the property names call it; every return of the decision "
        "procedure is integer equality under the isinstance guard or the affine "
        "test. R16-BINDNAMES: symbolic shape components enter a lowered index "
        "lambda through dim_to_index_lambda_components with a name generator that "
        "is seeded with the operand binding names and shared by all calls of a "
        "loop. R16-BROADCAST: every broadcasting decision tree on axis lengths, "
        "evaluated on its consistent abstract cases (equal / new is 1 / remembered "
        "is 1 / neither), does what NumPy broadcasting does (shared with R03-FOLD). "
        "R16-ROUTE treats only a comparison with () (a rank test) as exact; a "
        "component compared with another literal must be integer-proven or "
        "reviewed. R16-STATE: pytato.utils keeps no state that outlives a call (no "
        "memo of verdicts keyed by id()). "
        "R16-INTCLASS: an integer test on a shape component, an index or a reduction bound uses INT_CLASSES, never bare int (NumPy integers are accepted there). R16-DECISION also (sibling agreement by case-split evaluation): in pad's index lambda the arm for a symbolic axis length builds, once its binding is written out, the very expression the arm for a static length builds."),
    not_decided=(
        "That one compiled kernel is right for every size (behaviour of generated "
        "code) and that inferred shapes equal concrete shapes under every "
        "valuation; completeness of ISL's affine reasoning (trusted base)."),
)
