"""C01 -- structural clauses of loopy code generation."""
from __future__ import annotations

import ast
import sysconfig
from pathlib import Path

from pta.check import Spec
from pta.model import AnalysisError
from pta.pat import find, has
from pta.order import scan
from pta.rules.common import CGM, COPY, PREPROC, TOIL, concrete_kinds, short
from pta.rules.c02 import high_level_kinds
from pta.tables.order_reviewed import Reviewed

LC = "pytato.target.loopy.codegen"
IEGM = LC + ".InlinedExpressionGenMapper"


def fragment_kinds(m):
    A = "pytato.array."
    base = [A + "Placeholder", A + "DataWrapper", A + "SizeParam", A + "IndexLambda",
            A + "NamedArray", A + "DictOfNamedArrays", "pytato.loopy.LoopyCall",
            "pytato.loopy.LoopyCallResult"]
    for k in base:
        m.cls(k)
    return base + high_level_kinds(m)


def r_dispatch(c):
    m = c.model
    hl = set(high_level_kinds(m))
    survivors = []
    for k in fragment_kinds(m):
        mm = m.dispatch(PREPROC, k)
        ci = m.classes[k]
        where = m.loc(ci.module, ci.node)
        c.check(mm is not None, "R01-DISPATCH", "CodeGenPreprocessor", f"{short(k)}:handler",
                where, f"preprocessing has no handler for {short(k)}: code generation "
                "for a program of the supported fragment raises UnsupportedArrayError")
        if mm is None:
            continue
        owner, fd = m.resolve_method(PREPROC, mm)
        if k in hl:
            c.check(owner == TOIL, "R01-DISPATCH", f"CodeGenPreprocessor.{mm}",
                    f"{short(k)}:lowered-by-ToIndexLambdaMixin", m.loc(m.module_of(fd), fd),
                    f"{short(k)} is handled by {short(owner)}.{mm} instead of the lowering "
                    "mixin: the high-level node survives preprocessing and CodeGenMapper "
                    "has no handler for it (base-class order / shadowing)")
        else:
            survivors.append(k)
    # data wrappers become bound placeholders
    r = m.resolve_method(PREPROC, "map_data_wrapper")
    fd = r[1]
    rets = [x for x in ast.walk(fd) if isinstance(x, ast.Return)]
    c.check(rets and all(isinstance(x.value, ast.Call) and ast.unparse(x.value.func) ==
                         "Placeholder" for x in rets), "R01-DISPATCH",
            "CodeGenPreprocessor.map_data_wrapper", "becomes-Placeholder",
            m.loc(m.module_of(fd), fd), "a data wrapper is not turned into a placeholder")
    for x in rets:
        if isinstance(x.value, ast.Call):
            kws = {k.arg: ast.unparse(k.value) for k in x.value.keywords}
            for f in ("dtype", "axes", "tags", "non_equality_tags"):
                c.check(kws.get(f) == f"expr.{f}", "R01-DISPATCH",
                        "CodeGenPreprocessor.map_data_wrapper", f"Placeholder.{f}",
                        m.loc(m.module_of(fd), x),
                        f"the placeholder replacing a data wrapper has {f}={kws.get(f)}")
    # what survives preprocessing has a code generator
    for k in survivors:
        if short(k) == "DataWrapper":
            continue
        mm = m.dispatch(CGM, k)
        ci = m.classes[k]
        c.check(mm is not None, "R01-DISPATCH", "CodeGenMapper", f"{short(k)}:handler",
                m.loc(ci.module, ci.node),
                f"CodeGenMapper has no handler for {short(k)}, which survives "
                "preprocessing")


def loopy_reduction_names():
    p = Path(sysconfig.get_paths()["purelib"]) / "loopy" / "library" / "reduction.py"
    if not p.exists():
        raise AnalysisError("oracle missing: loopy/library/reduction.py")
    t = ast.parse(p.read_text())
    for n in ast.walk(t):
        if isinstance(n, ast.Assign) and any(
                isinstance(x, ast.Name) and x.id == "_REDUCTION_OPS" for x in n.targets):
            return {k.value for k in n.value.keys}
    raise AnalysisError("oracle broken: _REDUCTION_OPS not found in loopy")


def r_tables(c):
    m = c.model
    tbl = m.table(LC, "PYTATO_REDUCTION_TO_LOOPY_REDUCTION")
    keys = {k.attr: v.value for k, v in zip(tbl.keys, tbl.values)}
    ops = [q for q in m.subclasses("pytato.reductions.ReductionOperation", strict=True)
           if not m.is_abstract(q) and not m.subclasses(q, strict=True)]
    lnames = loopy_reduction_names()
    where = m.loc(LC, tbl)
    for q in ops:
        c.check(short(q) in keys, "R01-TABLES", "PYTATO_REDUCTION_TO_LOOPY_REDUCTION",
                f"covers:{short(q)}", where,
                f"{short(q)} has no loopy reduction: code generation raises "
                "NotImplementedError for a supported reduction")
        if short(q) in keys:
            v = keys[short(q)]
            c.check(v in lnames, "R01-TABLES", "PYTATO_REDUCTION_TO_LOOPY_REDUCTION",
                    f"{short(q)}->{v}", where,
                    f"loopy has no reduction operation named {v!r} "
                    f"(loopy.library.reduction._REDUCTION_OPS: {sorted(lnames)[:6]}...)")
            c.check(short(q).lower().startswith(v[:3]), "R01-TABLES",
                    "PYTATO_REDUCTION_TO_LOOPY_REDUCTION", f"{short(q)}~{v}", where,
                    f"{short(q)} is generated as loopy reduction {v!r}")
    # pytato's own scalar nodes have generators
    for node, meth in (("Reduce", "map_reduce"), ("TypeCast", "map_type_cast")):
        r = m.resolve_method(IEGM, meth)
        c.check(r is not None and r[0] == IEGM, "R01-TABLES", "InlinedExpressionGenMapper",
                f"scalar-node:{node}", m.loc(m.classes[IEGM].module, m.classes[IEGM].node),
                f"no generator for pytato's scalar node {node}")
    # function name spaces the front end emits have consuming branches
    mc = m.func(IEGM + ".map_call")
    # (normal form: `function = expr.function`, a named prefix constant and
    # len(<that constant>) are what they stand for)
    src = ast.unparse(m.normal(mc))
    ap = m.func("pytato.cmath._apply_elem_wise_func")
    fsrc = ast.unparse(ap)
    # default name space literal
    dflt = None
    for a, d in zip(reversed(ap.args.args), reversed(ap.args.defaults)):
        if a.arg == "pt_namespace":
            dflt = d.value
    spaces = {dflt}
    for call in ast.walk(m.module("pytato.cmath").tree):
        if isinstance(call, ast.Call) and ast.unparse(call.func) == "_apply_elem_wise_func":
            for k in call.keywords:
                if k.arg == "pt_namespace" and isinstance(k.value, ast.Constant):
                    spaces.add(k.value.value)
    c.check(has(ap, 'prim.Call(var(f"pytato.{pt_namespace}{func_name}"), $$_)')
            or has(ap, "prim.Call(var('pytato.' + pt_namespace + func_name), $$_)"),
            "R01-TABLES", "cmath._apply_elem_wise_func", "emits-pytato-namespaced-call",
            m.loc("pytato.cmath", ap), "element-wise functions are no longer emitted in "
            "the pytato.<namespace> function name space")
    import re
    for ns in sorted(x for x in spaces if x is not None):
        prefix = "pytato." + ns
        if ns:
            ok = f"startswith('{prefix}')" in src
            sl = re.findall(r"\.name\[(\d+):\]", src)
            c.check(ok, "R01-TABLES", "InlinedExpressionGenMapper.map_call",
                    f"namespace:{prefix}*", m.loc(LC, mc),
                    f"calls in the {prefix}* name space emitted by pytato.cmath have no "
                    "generating branch")
            for s_ in sl:
                c.check(int(s_) == len(prefix), "R01-TABLES",
                        "InlinedExpressionGenMapper.map_call", f"prefix-slice:[{s_}:]",
                        m.loc(LC, mc),
                        f"the loopy function name is cut at [{s_}:] but {prefix!r} has "
                        f"{len(prefix)} characters")
        else:
            # bare pytato.<func>: each such function needs its own branch
            for call in ast.walk(m.module("pytato.cmath").tree):
                if isinstance(call, ast.Call) and ast.unparse(call.func) == "_apply_elem_wise_func" \
                        and any(k.arg == "pt_namespace" and isinstance(k.value, ast.Constant)
                                and k.value.value == "" for k in call.keywords):
                    fn = call.args[1].value
                    c.check(f"== 'pytato.{fn}'" in src, "R01-TABLES",
                            "InlinedExpressionGenMapper.map_call", f"function:pytato.{fn}",
                            m.loc(LC, mc), f"pytato.{fn} has no generating branch")


CTOR_FIELDS = {
    "pytato.array.IndexLambda": ("bindings", "var_to_reduction_descr"),
    "pytato.array.Einsum": ("redn_axis_to_redn_descr",),
    "pytato.function.FunctionDefinition": ("returns",),
    "pytato.function.Call": ("bindings",),
    "pytato.loopy.LoopyCall": ("bindings",),
}


def _evidently_constantdict(m, mi, fd, node, field, depth=0):
    if isinstance(node, ast.Call):
        f = ast.unparse(node.func)
        if f in ("constantdict", "cast") or f.endswith(".constantdict"):
            if f == "cast":
                return _evidently_constantdict(m, mi, fd, node.args[1], field, depth)
            return True
        # repo function annotated to return a constantdict
        if isinstance(node.func, ast.Name):
            qn = m.resolve_name(mi.name, node.func.id)
            if qn and m.has_func(qn):
                r = m.func(qn).returns
                if r is not None and "constantdict" in ast.unparse(r):
                    return True
    if isinstance(node, ast.Attribute) and node.attr == field:
        return True          # the same field of an existing, already validated node
    if isinstance(node, ast.Attribute) and node.attr in (
            "bindings", "var_to_reduction_descr", "redn_axis_to_redn_descr", "returns"):
        return True
    if isinstance(node, ast.Name) and fd is not None and depth < 3:
        for a in fd.args.args + fd.args.kwonlyargs:
            if a.arg == node.id and a.annotation is not None \
                    and "constantdict" in ast.unparse(a.annotation):
                return True
        asg = [s for s in ast.walk(fd) if isinstance(s, (ast.Assign, ast.AnnAssign))
               and any(isinstance(t, ast.Name) and t.id == node.id
                       for t in (s.targets if isinstance(s, ast.Assign) else [s.target]))
               and s.value is not None]
        if asg and all(_evidently_constantdict(m, mi, fd, s.value, field, depth + 1)
                       for s in asg):
            return True
    if isinstance(node, ast.IfExp):
        return _evidently_constantdict(m, mi, fd, node.body, field, depth) and \
            _evidently_constantdict(m, mi, fd, node.orelse, field, depth)
    return False


def r_ctor_state(c):
    """constructor typestate: the node's own __post_init__ asserts constantdict"""
    m = c.model
    # the assertions are still there (otherwise the rule has no basis)
    for cls, fields in CTOR_FIELDS.items():
        ci = m.cls(cls)
        pi = ci.methods.get("__post_init__")
        src = ast.unparse(pi) if pi is not None else ""
        for f in fields:
            c.check(f"isinstance(self.{f}, constantdict)" in src, "R01-CTOR-STATE",
                    f"{short(cls)}.__post_init__", f"asserts:{f}", m.loc(ci.module, ci.node),
                    f"{short(cls)} no longer asserts that {f} is a constantdict")
    n = 0
    for mi in m.modules.values():
        for call in ast.walk(mi.tree):
            if not isinstance(call, ast.Call):
                continue
            if not isinstance(call.func, (ast.Name, ast.Attribute)):
                continue
            nm = ast.unparse(call.func)
            qn = m.resolve_name(mi.name, nm) if "." not in nm or nm.count(".") == 1 else None
            if qn not in CTOR_FIELDS:
                continue
            init = m.init_order(qn)
            kws = {k.arg: k.value for k in call.keywords if k.arg}
            if any(k.arg is None for k in call.keywords):
                continue        # **kwargs: cannot see the fields
            for i, a in enumerate(call.args):
                if i < len(init) and not isinstance(a, ast.Starred):
                    kws[init[i]] = a
            fd = m.enclosing_function(call)
            for f in CTOR_FIELDS[qn]:
                if f not in kws:
                    continue
                n += 1
                cname = (m.qualname(fd) if fd is not None else mi.name).replace(
                    "pytato.", "", 1)
                ok = _evidently_constantdict(m, mi, fd, kws[f], f)
                c.check(ok, "R01-CTOR-STATE", cname,
                        f"{short(qn)}.{f}={m.frag(kws[f], 40)}", m.loc(mi, call),
                        f"{short(qn)}(...) is given {f}=`{m.frag(kws[f], 50)}`, which is "
                        f"not evidently a constantdict: {short(qn)}.__post_init__ asserts "
                        "it, so the construction fails with AssertionError")
    if n < 28:
        raise AnalysisError(f"only {n} constructor-state obligations (floor 28)")


ORDER_MODULES = [LC, "pytato.codegen", "pytato.transform.lower_to_index_lambda",
                 "pytato.target.loopy"]


def r_order(c):
    m = c.model
    sites = scan(m, [x for x in ORDER_MODULES if x in m.modules],
                 external_order_types={"DictOfNamedArrays"})
    if len(sites) < 7:
        raise AnalysisError(f"only {len(sites)} unordered iteration sites in code "
                            "generation modules (floor 7)")
    rv = Reviewed(m)
    for s in sites:
        where = m.loc(m.module_of(s.node), s.node)
        inst = s.stmt_text[:120]
        if s.discharged:
            c.ok("R01-ORDER", s.func, inst, where, s.discharged)
        elif (why_ := rv.lookup(s)) is not None:
            c.exempt("R01-ORDER", s.func, inst, where, why_)
        else:
            c.violation("R01-ORDER", s.func, inst, where,
                        f"code generation iterates `{m.frag(s.iter_node, 60)}` ({s.why}) "
                        "in an order that depends on hash seeds or on the order outputs "
                        "were supplied", facts={"key": s.key})
    # outputs are computed in a keyed topological order, visited in sorted order
    fd = m.func("pytato.codegen.preprocess")
    calls = [x for x in m.walk_scope(fd) if isinstance(x, ast.Call)
             and ast.unparse(x.func).endswith("compute_topological_order")]
    c.check(len(calls) == 1 and any(k.arg == "key" for k in calls[0].keywords),
            "R01-ORDER", "codegen.preprocess", "keyed-topological-order-of-outputs",
            m.loc(m.module_of(fd), fd),
            "the order in which outputs are computed is not a keyed topological order")
    g = m.inlined(m.func(LC + ".generate_loopy"))     # a storing helper is seen through
    loops = [l for l in ast.walk(g) if isinstance(l, ast.For)
             and any("add_store" in ast.unparse(s) for s in l.body)]
    co = find(g, "$co = $pp.compute_order")
    c.check(len(loops) == 1 and len(co) == 1 and ast.unparse(loops[0].iter) == co[0]["$co"]
            and has(g, f"{co[0]['$pp']} = preprocess($$_, $$_)"), "R01-ORDER",
            "generate_loopy", "stores-follow-compute-order", m.loc(LC, g),
            "output stores are not emitted in the pre-computed compute order")
    # a hand-written kernel is called with arguments in the callee's own
    # declaration order (rule stated in the code: "must traverse in the order of
    # callee's args to generate the correct assignees order")
    lc = m.func(CGM + ".map_loopy_call")
    mk = find(lc, f"make_assignment(tuple($as), var({lc.args.args[1].arg}.entrypoint)(*$ps), "
                  "depends_on=$$d, id=$$i)")
    if len(mk) != 1:
        raise AnalysisError("anchor vanished: make_assignment(...) in map_loopy_call")
    apps = (mk[0]["$as"] + ".append", mk[0]["$ps"] + ".append")
    loops = [l for l in ast.walk(lc) if isinstance(l, ast.For)
             and any(isinstance(s_, ast.Call) and ast.unparse(s_.func) in apps
                     for s_ in ast.walk(l))]
    ck = find(lc, f"$k = {lc.args.args[1].arg}.translation_unit[{lc.args.args[1].arg}.entrypoint]")
    c.check(len(loops) == 1 and len(ck) == 1
            and ast.unparse(loops[0].iter) == f"{ck[0]['$k']}.args",
            "R01-ORDER", "CodeGenMapper.map_loopy_call", "call-arguments-in-callee-declaration-order",
            m.loc(LC, lc),
            "the assignees/parameters of the emitted call are not collected by iterating "
            "callee_kernel.args in declaration order: loopy's positional call convention "
            "then binds operands to the wrong callee arguments")
    cm = m.func(CGM + ".map_index_lambda")
    ep, sp = cm.args.args[1].arg, cm.args.args[2].arg
    c.check(has(cm, f"{{$n: self.rec({ep}.bindings[$n], {sp}) for $n in sorted({ep}.bindings)}}"),
            "R01-ORDER",
            "CodeGenMapper.map_index_lambda", "operands-generated-in-sorted-name-order",
            m.loc(LC, cm),
            "the operands of an index lambda are generated in the order they were "
            "inserted into bindings")


def r_alignment(c):
    """NumPy broadcasting aligns shapes at their TRAILING end.  Where the front end
    writes an operand's batch axes as a slice of a shared pool of index letters, the
    slice is a suffix of the pool (pool[k:]), never a prefix (pool[:k]): a prefix
    pairs the batch axes of operands of different rank from the wrong end"""
    m = c.model
    fd = m.func("pytato.array.matmul")
    where = m.loc("pytato.array", fd)
    fd = m.expand_locals(fd, only="aliases")     # `n1 = x1.ndim` is x1.ndim
    pools = find(fd, "$pool = $$names[:max($a.ndim - 2, $b.ndim - 2)]")
    if len(pools) != 1:
        raise AnalysisError("anchor vanished: pool of stacking indices in matmul")
    pool = pools[0]["$pool"]
    n = 0
    for st in ast.walk(fd):
        if not (isinstance(st, ast.Assign) and isinstance(st.value, ast.BinOp)
                and isinstance(st.value.op, ast.Add)):
            continue
        left = st.value.left
        if isinstance(left, ast.Subscript) and ast.unparse(left.value) == pool \
                and isinstance(left.slice, ast.Slice):
            n += 1
            sl = left.slice
            c.check(sl.upper is None and sl.lower is not None and sl.step is None,
                    "R01-TABLES", "array.matmul",
                    f"batch-axes-aligned-at-the-trailing-end:{m.frag(st.targets[0], 20)}",
                    m.loc("pytato.array", st),
                    f"`{m.frag(left, 50)}` is not a suffix `{pool}[k:]` of the pool of "
                    "stacking indices: operands of different rank are paired from the "
                    "leading end, (2,2,3,4) @ (2,4,2) multiplies the wrong matrices")
    if n < 2:
        raise AnalysisError(f"only {n} operand subscripts built from the pool (floor 2)")


def r_identity_shortcuts(c):
    """'nothing to do' shortcuts hand back their input unchanged only when EVERY
    component is unchanged: the test in front of `return <parameter>` is all(...),
    never any(...) (one pass-through axis does not make a substitution the identity)"""
    m = c.model
    n = 0
    for mi, fd in m.all_functions(modules=[LC, "pytato.codegen", "pytato.array", "pytato.utils",
                                           "pytato.transform"]):
        params = {a.arg for a in fd.args.posonlyargs + fd.args.args + fd.args.kwonlyargs}
        for i in ast.walk(fd):
            t = None
            if isinstance(i, ast.If) and i.body and isinstance(i.body[-1], ast.Return) \
                    and isinstance(i.body[-1].value, ast.Name) and i.body[-1].value.id in params:
                t = i.test
            elif isinstance(i, ast.Return) and isinstance(i.value, ast.IfExp) \
                    and isinstance(i.value.body, ast.Name) and i.value.body.id in params:
                t = i.value.test
            if not (isinstance(t, ast.Call) and isinstance(t.func, ast.Name)
                    and t.func.id in ("all", "any") and t.args
                    and isinstance(t.args[0], (ast.GeneratorExp, ast.ListComp))):
                continue
            n += 1
            qn = m.qualname(fd).replace("pytato.", "", 1)
            c.check(t.func.id == "all", "R01-TABLES", qn,
                    f"identity-shortcut-needs-all:{m.frag(t, 50)}", m.loc(mi, i),
                    f"`{m.frag(t, 70)}` hands the input back unchanged as soon as SOME component "
                    "is unchanged: the components that do change are silently dropped (an inlined "
                    "producer read through a one-axis slice or roll loses its index map)")
            filt = [f for g in t.args[0].generators for f in g.ifs]
            c.check(not filt, "R01-TABLES", qn,
                    f"identity-shortcut-tests-every-component:{m.frag(t, 50)}", m.loc(mi, i),
                    f"`{m.frag(t, 90)}`: the filter `if {m.frag(filt[0], 40) if filt else ''}` "
                    "exempts components from the test; a component that is filtered out is not "
                    "known to be unchanged, yet the input is handed back as it is (an index "
                    "that is an expression rather than a variable is dropped by the identity "
                    "test of a substitution)")
    # the shared helper of the copy mappers quantifies over all entries as well
    ei = m.func("pytato.array._entries_are_identical")
    n += 1
    c.check(any(isinstance(x, ast.Call) and isinstance(x.func, ast.Name) and x.func.id == "all"
                for x in ast.walk(ei)) and not any(
                    isinstance(x, ast.Call) and isinstance(x.func, ast.Name) and x.func.id == "any"
                    for x in ast.walk(ei)), "R01-TABLES", "array._entries_are_identical",
            "identity-shortcut-needs-all", m.loc("pytato.array", ei),
            "_entries_are_identical no longer requires every entry to be identical")
    if n < 2:
        raise AnalysisError(f"only {n} identity shortcuts found (floor 2)")


def r_bounds_consumed(c):
    """a reduction runs over [lower, upper): wherever the package takes the pair of
    bounds of a reduction variable apart -- the loop domain of the generated kernel,
    the mappers over scalar expressions, the raiser -- BOTH halves are used.  Every
    reduction the array API builds starts at 0, so dropping the lower bound (or
    reading the upper one twice) passes every test and is wrong for the first
    hand-written or shifted reduction"""
    m = c.model
    import re
    pat_iter = re.compile(r"(\.bounds\.(items|values)\(\)|^reductions\.(items|values)\(\))$")
    n = 0
    for mi, fd in m.all_functions():
        sites = []
        for x in ast.walk(fd):
            if isinstance(x, ast.For):
                sites.append((x.target, x.iter, x.body))
            elif isinstance(x, (ast.ListComp, ast.SetComp, ast.GeneratorExp, ast.DictComp)):
                body = [x.key, x.value] if isinstance(x, ast.DictComp) else [x.elt]
                for g in x.generators:
                    sites.append((g.target, g.iter, body + list(g.ifs)))
        for tgt, it, body in sites:
            its = ast.unparse(it)
            if its.startswith("sorted(") and its.endswith(")"):
                its = its[len("sorted("):-1]
            if not pat_iter.search(its):
                continue
            if its.startswith("reductions.") and fd.name != "domain_for_shape":
                continue
            pairs = [t for t in ast.walk(tgt) if isinstance(t, ast.Tuple) and len(t.elts) == 2
                     and all(isinstance(e, ast.Name) for e in t.elts)]
            # .items(): (name, (lo, hi)) -- the pair is the inner tuple; .values(): (lo, hi)
            pair = None
            if ".values()" in its and isinstance(tgt, ast.Tuple) and pairs:
                pair = pairs[0]
            elif ".items()" in its and isinstance(tgt, ast.Tuple) and len(tgt.elts) == 2 \
                    and isinstance(tgt.elts[1], ast.Tuple) and tgt.elts[1] in pairs:
                pair = tgt.elts[1]
            if pair is None:
                continue          # the pair is kept whole (passed on, hashed, ...)
            n += 1
            loaded = {y.id for b in body for y in ast.walk(b)
                      if isinstance(y, ast.Name) and isinstance(y.ctx, ast.Load)}
            qn = m.qualname(fd).replace("pytato.", "", 1)
            for half, e in zip(("lower", "upper"), pair.elts):
                c.check(e.id in loaded, "R01-TABLES", qn,
                        f"reduction-{half}-bound-used:{ast.unparse(it)[:40]}", m.loc(mi, tgt),
                        f"the {half} bound of a reduction variable is taken out of the pair "
                        f"(`{e.id}`) and never used: the reduction no longer runs over "
                        "[lower, upper)")
    if n < 5:
        raise AnalysisError(f"only {n} places take reduction bounds apart (floor 5)")


SPEC = Spec(
    prop="C01",
    rules=[r_dispatch, r_tables, r_ctor_state, r_order, r_alignment, r_identity_shortcuts,
           r_bounds_consumed],
    floors={"R01-DISPATCH": 28, "R01-TABLES": 18, "R01-CTOR-STATE": 36, "R01-ORDER": 12},
    explanation=(
        "Decides three structural clauses of C01, not the value clause. "
        "R01-DISPATCH: every kind of the supported fragment has a handler in "
        "CodeGenPreprocessor; high-level kinds resolve (through the MRO) to the "
        "lowering mixin, data wrappers become placeholders, and everything that "
        "survives preprocessing has a handler in CodeGenMapper. R01-TABLES: every "
        "concrete ReductionOperation maps to a reduction name loopy registers "
        "(read statically from loopy/library/reduction.py), pytato's scalar nodes "
        "have generators, every function name space pytato.cmath emits has a "
        "consuming branch whose prefix slice equals the prefix length. "
        "R01-CTOR-STATE: at every construction site of IndexLambda / Einsum / "
        "FunctionDefinition / Call / LoopyCall in the repository the mapping "
        "arguments are evidently constantdicts, as the node's own __post_init__ "
        "asserts. R01-ORDER: no undischarged iteration over a set-typed value or "
        "over a DictOfNamedArrays in supplied order in the code-generation "
        "modules; outputs are computed in a keyed topological order; operands are "
        "generated in sorted name order. "
        "R01-TABLES also: matmul writes each operand's batch axes as a SUFFIX of the pool of stacking indices (NumPy aligns shapes at the trailing end); wherever the pair of bounds of a reduction variable is taken apart (loop domain of the kernel, scalar-expression mappers), both halves are used; the all(..) of an identity shortcut has no filter (a filtered-out component is not known to be unchanged)."),
    not_decided=(
        "That any generated kernel computes NumPy's values, has the declared dtype, "
        "schedules or compiles: that needs executing generated code (and an OpenCL "
        "platform), which static analysis does not do."),
    trusted_base=["CPython ast", "loopy/library/reduction.py as oracle for reduction names"],
)
