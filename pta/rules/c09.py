"""C09 -- every distributed partition is well-formed and all ranks agree (code-shape conditions)."""
from __future__ import annotations

import ast

from pta import paths as P
from pta.pat import find, has
from pta.check import Spec
from pta.flow import Flow, paths_of
from pta.model import AnalysisError
from pta.rules.common import short

D = "pytato.distributed."
COLLECTIVES = {"bcast", "gather", "allreduce", "barrier", "allgather", "scatter",
               "reduce", "Bcast", "Gather", "Allreduce", "Barrier", "alltoall"}
FUNCS = [D + "partition.find_distributed_partition", D + "tags.number_distributed_tags",
         D + "verify.verify_distributed_partition"]


def coll_classifier(comm):
    def cl(n):
        if isinstance(n, ast.Call) and isinstance(n.func, ast.Attribute) \
                and n.func.attr in COLLECTIVES and ast.unparse(n.func.value) == comm:
            return n.func.attr
        return None
    return cl


def rank_branches(fd, comm):
    """If statements whose test compares <comm>.rank with a root"""
    out = []
    for n in ast.walk(fd):
        if isinstance(n, ast.If) and isinstance(n.test, ast.Compare) \
                and len(n.test.ops) == 1 and isinstance(n.test.ops[0], (ast.Eq, ast.NotEq)):
            for a, b in ((n.test.left, n.test.comparators[0]),
                         (n.test.comparators[0], n.test.left)):
                if ast.unparse(a) in (f"{comm}.rank", "my_rank", "local_rank") and (
                        isinstance(b, ast.Constant) or "root" in ast.unparse(b)):
                    out.append(n)
                    break
    return out


def r_collectives(c):
    m = c.model
    n_br = 0
    for qn in FUNCS:
        fd = m.func(qn)
        comm = fd.args.args[0].arg
        name = qn.replace("pytato.", "", 1)
        cl = coll_classifier(comm)
        # at least one collective in the function (it is documented as collective)
        total = [x for x in ast.walk(fd) if cl(x)]
        c.check(bool(total), "R09-COLLECTIVES", name, "is-collective",
                m.loc(m.module_of(fd), fd), "no MPI collective left in a collective routine")
        for iff in rank_branches(fd, comm):
            n_br += 1
            w = P.Walker(cl, assert_raises=False)
            a = w.block(iff.body)
            w2 = P.Walker(cl, assert_raises=False)
            b = w2.block(iff.orelse) if iff.orelse else {((), "fall")}
            sa = {P._strip(e) for (e, _x) in a}
            sb = {P._strip(e) for (e, _x) in b}
            where = m.loc(m.module_of(fd), iff)
            ok = len(sa) == 1 and sa == sb
            c.check(ok, "R09-COLLECTIVES", name,
                    f"branch-sequences-agree:{m.frag(iff.test, 40)}", where,
                    f"on the `{m.frag(iff.test, 40)}` branch the possible sequences of "
                    f"collectives are {sorted(sa)} but on the other branch {sorted(sb)} "
                    "(exception paths included): some rank waits in a collective the "
                    "others never enter",
                    facts={"root": sorted(map(list, sa)), "others": sorted(map(list, sb))})
            # the value every rank continues with is the broadcast one
            if any("bcast" in e for e in sa):
                root_sent = [x for s in iff.body for x in ast.walk(s) if cl(x) == "bcast"]
                oth_recv = [x for s in iff.orelse for x in ast.walk(s) if cl(x) == "bcast"]
                c.check(all(ast.unparse(x.args[0]) == "None" for x in oth_recv if x.args)
                        and all(x.args and ast.unparse(x.args[0]) != "None" for x in root_sent),
                        "R09-COLLECTIVES", name, "root-sends-others-receive", where,
                        "the non-root branch does not receive what the root broadcasts")
    if n_br < 2:
        raise AnalysisError(f"only {n_br} rank-dependent branches found (floor 2)")
    # find_distributed_partition: everybody continues with the broadcast batches
    fd = m.func(FUNCS[0])
    comm = fd.args.args[0].arg
    sent = find(fd, f"{comm}.bcast($batches)")
    cont = find(fd, f"""
$recv = {comm}.bcast(None)
if isinstance($recv, Exception):
    raise $recv
$batches = $recv
""")
    c.check(bool(cont) and any(e["$batches"] == cont[0]["$batches"] for e in sent),
            "R09-COLLECTIVES", "distributed.partition.find_distributed_partition",
            "all-ranks-use-root-schedule", m.loc(m.module_of(fd), fd),
            "non-root ranks do not continue with the schedule the root computed and "
            "broadcast (same variable on both branches)")
    # the reduction operator used for the dependency union is commutative and freed
    ops = find(fd, "$op = MPI.Op.Create($$f, commute=True)")
    c.check(bool(ops) and has(fd, f"{ops[0]['$op']}.Free()") if ops else False,
            "R09-COLLECTIVES", "distributed.partition.find_distributed_partition",
            "union-op-commutative-and-freed", m.loc(m.module_of(fd), fd),
            "the MPI reduction operator is not declared commutative / not freed")


def r_nocomm(c):
    m = c.model
    R = D + "partition._DistributedInputReplacer"
    ci = m.cls(R)
    for mm, kind in (("map_distributed_recv", D + "nodes.DistributedRecv"),
                     ("map_distributed_send_ref_holder", D + "nodes.DistributedSendRefHolder")):
        own = mm in ci.methods
        c.check(own, "R09-NOCOMM", short(R), f"overrides:{mm}", m.loc(ci.module, ci.node),
                f"{mm} is not overridden: CopyMapper would copy the communication node "
                "into the part")
        if not own:
            continue
        fd = ci.methods[mm]
        flow = Flow(m, R, max_depth=3)
        s = flow.handler(mm, kind)
        # must not return the node itself nor a rebuilt comm node
        self_ret = () in paths_of(s.ret, "expr")
        ctor = [e for e in s.ctors if e.kind in ("replace_if_different", "class", "copy")
                and (e.cls is None or "distributed.nodes" in (e.cls or ""))
                and () in paths_of(e.recv, "expr") | ({()} if e.cls else set())]
        c.check(not self_ret and not ctor, "R09-NOCOMM", f"{short(R)}.{mm}",
                "cannot-return-a-communication-node", m.loc(ci.module, fd),
                "the handler can return the communication node (or a copy of it): "
                "parts would contain communication nodes")
    mr = ci.methods["map_distributed_recv"]
    ep = mr.args.args[1].arg
    c.check(has(mr, f"$name = self.recvd_ary_to_name[{ep}]\nreturn self._get_placeholder_for($name, {ep})"),
            "R09-NOCOMM", f"{short(R)}.map_distributed_recv", "becomes-named-placeholder",
            m.loc(ci.module, mr),
            "a receive is not replaced by the placeholder of its assigned name")
    gp = ci.methods["_get_placeholder_for"]
    np_, ep = gp.args.args[1].arg, gp.args.args[2].arg
    c.check(has(gp, f"make_placeholder({np_}, {ep}.shape, {ep}.dtype, {ep}.tags, {ep}.axes)")
            and has(gp, f"self.partition_input_name_to_placeholder[{np_}] = $ph")
            and has(gp, f"self.partition_input_name_to_placeholder.get({np_})"),
            "R09-NOCOMM", f"{short(R)}._get_placeholder_for", "one-placeholder-per-name",
            m.loc(ci.module, gp),
            "part inputs are not represented by one placeholder per name mirroring the "
            "array's shape/dtype/tags/axes")
    # output arrays of the part are not turned into placeholders
    rec = ci.methods["rec"]
    c.check(has(rec, f"{rec.args.args[1].arg} not in self.output_arrays"), "R09-NOCOMM",
            f"{short(R)}.rec", "own-outputs-are-computed", m.loc(ci.module, rec),
            "a part's own output could be replaced by a placeholder for itself")


def _ancestors(n):
    p = getattr(n, "_parent", None)
    while p is not None:
        yield p
        p = getattr(p, "_parent", None)


def r_tags(c):
    m = c.model
    fd = m.func(FUNCS[1])
    where = m.loc(m.module_of(fd), fd)
    fd = m.inlined(fd)      # numbering / renumbering helpers are seen through
    src = ast.unparse(fd)
    # both ends are renumbered through the same mapping
    maps = set()
    for call in ast.walk(fd):
        if isinstance(call, ast.Call) and isinstance(call.func, ast.Attribute) \
                and call.func.attr == "copy":
            for k in call.keywords:
                if k.arg == "comm_tag" and isinstance(k.value, ast.Subscript):
                    maps.add((ast.unparse(call.func.value), ast.unparse(k.value.value),
                              ast.unparse(k.value.slice)))
    # one rewrite under name_to_recv_node=..., one under name_to_send_nodes=...
    ends = set()
    for kw, end in (("name_to_recv_node", "recv"), ("name_to_send_nodes", "send")):
        for call in ast.walk(fd):
            if isinstance(call, ast.Call):
                for k in call.keywords:
                    if k.arg == kw and has(k.value, "$x.copy(comm_tag=$map[$x.comm_tag])"):
                        ends.add(end)
    c.check(ends == {"recv", "send"} and len(maps) == 2
            and len({e[1] for e in maps}) == 1 and all(
        e[2] == f"{e[0]}.comm_tag" for e in maps), "R09-TAGS",
        "distributed.tags.number_distributed_tags", "one-mapping-for-both-ends", where,
        f"receives and sends are not both renumbered as map[own symbolic tag] through "
        f"one mapping ({sorted(maps)}): the two ends of a message get different integers")
    # first-seen numbering with a strictly increasing counter
    # (inside whatever loop walks the gathered tags; that the walk is ordered is C17's)
    fs = find(fd, """
if $t not in $map:
    $map[$t] = $next
    $next += 1
""")
    fs = [e_ for e_ in fs if any(isinstance(q, ast.For) for q in _ancestors(e_["@node"]))]
    if not fs:
        # the same by case (pta/symrun.py), however the test is written (`if t in map:
        # continue`): a tag already in the map changes nothing; a new one is stored
        # under the current counter and the counter advances by one
        import re
        from pta import symrun
        for loop in ast.walk(fd):
            if not (isinstance(loop, ast.For) and isinstance(loop.target, ast.Name)):
                continue
            try:
                tbl_ = symrun.table(loop.body, lambda t: None)
            except AnalysisError:
                continue
            if len(tbl_) != 2:
                continue
            row = {}
            for cs, ev in tbl_.items():
                cs = list(cs)
                mm = re.fullmatch(re.escape(loop.target.id) + r" in (\w+)", cs[0][0]) \
                    if len(cs) == 1 else None
                if mm:
                    row[cs[0][1]] = (mm.group(1), [e for e in ev if e[0] != "exit"])
            if set(row) != {True, False} or row[True][1]:
                continue
            mp, ev = row[False]
            if len(ev) == 2 and ev[0][0] == "store" and ev[0][1] == mp \
                    and ev[0][2] == loop.target.id and ev[1] == ("aug", ev[0][3], "Add", "1"):
                fs.append({"$t": loop.target.id, "$map": mp, "$next": ev[0][3],
                           "@node": loop})
    if not fs:
        # ... or in two passes: the distinct tags first, in order of first appearance
        # (dict.fromkeys keeps it; a set would not), then numbered consecutively
        for e_ in find(fd, """
for $t in $$seq:
    $map[$t] = $next
    $next += 1
"""):
            seq = e_["@node"].iter
            if isinstance(seq, ast.Name):
                asg = [a.value for a in ast.walk(fd) if isinstance(a, ast.Assign)
                       and any(isinstance(t_, ast.Name) and t_.id == seq.id for t_ in a.targets)]
                seq = asg[0] if len(asg) == 1 else seq
            if isinstance(seq, ast.Call) and ast.unparse(seq.func) == "dict.fromkeys" \
                    and len(seq.args) == 1:
                fs.append(e_)
    c.check(len(fs) == 1, "R09-TAGS", "distributed.tags.number_distributed_tags",
            "first-seen-strictly-increasing", where,
            "a new symbolic tag is not assigned the current counter followed by an "
            "increment (distinct messages could share an integer)")
    base = fd.args.args[2].arg
    comm = fd.args.args[0].arg
    e = fs[0] if fs else {"$map": "numbering_not_found__", "$next": "counter_not_found__"}
    if True:
        c.check(has(fd, f"{e['$next']} = {base}"), "R09-TAGS",
                "distributed.tags.number_distributed_tags", "starts-at-base_tag", where,
                "numbering does not start at base_tag")
        # the mapping used for renumbering is the one that was numbered / broadcast
        used = {x[1] for x in maps}
        c.check(used == {e["$map"]}, "R09-TAGS", "distributed.tags.number_distributed_tags",
                "renumbers-through-the-numbered-mapping", where,
                f"tags are rewritten through {sorted(used)} but numbered in {e['$map']}")
        g = find(fd, f"{comm}.gather($tags, root=$$r)")
        def ordered_seq(e):
            """a tuple/list display, a list comprehension, tuple(..)/list(..) of one, or
            a + of such: an ordered sequence (never a set)"""
            if isinstance(e, (ast.Tuple, ast.List)):
                return all(ordered_seq(x.value) if isinstance(x, ast.Starred) else True
                           for x in e.elts)
            if isinstance(e, ast.ListComp):
                return True
            if isinstance(e, ast.BinOp) and isinstance(e.op, ast.Add):
                return ordered_seq(e.left) and ordered_seq(e.right)
            if isinstance(e, ast.GeneratorExp):
                return True
            if isinstance(e, ast.Call) and ast.unparse(e.func) in (
                    "chain", "itertools.chain") and e.args:
                return all(ordered_seq(a) for a in e.args)
            if isinstance(e, ast.Call) and isinstance(e.func, ast.Name) \
                    and e.func.id in ("tuple", "list") and len(e.args) == 1:
                return ordered_seq(e.args[0]) or isinstance(e.args[0], ast.GeneratorExp)
            if isinstance(e, ast.Name):
                asg = [a.value for a in ast.walk(fd) if isinstance(a, (ast.Assign, ast.AnnAssign))
                       and a.value is not None and any(
                           isinstance(t, ast.Name) and t.id == e.id for t in (
                               a.targets if isinstance(a, ast.Assign) else [a.target]))]
                return bool(asg) and all(ordered_seq(v) for v in asg)
            return False
        c.check(len(g) == 1 and ordered_seq(ast.Name(id=g[0]["$tags"], ctx=ast.Load())),
                "R09-TAGS",
                "distributed.tags.number_distributed_tags", "gathers-ordered-local-tags", where,
                "the local tags gathered on the root are not an ordered tuple/list")
        c.check(has(fd, f"{comm}.bcast(({e['$map']}, {e['$next']}), root=$$r)")
                and has(fd, f"{e['$map']}, {e['$next']} = {comm}.bcast(None, root=$$r)"),
                "R09-TAGS", "distributed.tags.number_distributed_tags",
                "all-ranks-use-root-numbering", where,
                "ranks do not all continue with the root's mapping and next tag")


def r_names(c):
    m = c.model
    fd = m.func(D + "partition._make_distributed_partition")
    where = m.loc(m.module_of(fd), fd)
    name = "distributed.partition._make_distributed_partition"
    loops = find(fd, "for $pid, $part_out in enumerate($$per_part):\n    $$body")
    outs = find(fd, """
for $name, $val in $part_out.items():
    assert $name not in $all_out
    $all_out[$name] = _verify_is_array($repl.rec($val))
""")
    c.check(len(outs) == 1, "R09-NAMES", name, "outputs-recursed-and-each-name-once", where,
            "a part's outputs are not each mapped through the input replacer and added "
            "once to the partition's outputs")
    if len(outs) != 1:
        return
    e = outs[0]
    # what the part is built from, on the normal form: values held in locals, or built
    # by a loop instead of a comprehension, are what they stand for
    parts = [x for x in ast.walk(m.normal(fd)) if isinstance(x, ast.Call)
             and ast.unparse(x.func) == "DistributedGraphPart"]
    if len(parts) != 1:
        raise AnalysisError("anchor vanished: DistributedGraphPart(...) construction")
    kws = {k.arg: k.value for k in parts[0].keywords}
    from pta.pat import match, compile_pat

    def kw_is(k, pattern):
        if k not in kws:
            return False
        env = dict(e)
        env.pop("@node", None)
        return match(compile_pat(pattern)[1], kws[k], env)
    c.check(kw_is("output_names", "frozenset($part_out.keys())"), "R09-NAMES", name,
            "output-names-and-outputs-from-one-mapping", where,
            "a part's output_names and the entries added to name_to_output do not come "
            "from the same mapping of that part")
    c.check(kw_is("needed_pids", "frozenset({$p - 1} if $p else {})")
            or kw_is("needed_pids", "frozenset({$p - 1}) if $p else frozenset()"),
            "R09-NAMES", name,
            "parts-form-a-chain", where,
            "a part no longer depends on exactly its predecessor (acyclic part order)")
    c.check(kw_is("user_input_names", "frozenset($repl.user_input_names)")
            and kw_is("partition_input_names",
                      "frozenset($repl.partition_input_name_to_placeholder.keys())"),
            "R09-NAMES", name, "input-names-from-the-replacer", where,
            "the names a part reads are not the ones its input replacer recorded")
    c.check(has(fd, """
$sn = $$tbl[$sid]
$nm = $sent_names[$sn.data]
$sends.setdefault($nm, []).append($repl2.map_distributed_send($sn))
"""), "R09-NAMES", name, "sends-keyed-by-sent-name", where,
            "send nodes are not keyed by the name of the array they send")
    c.check(kw_is("name_to_recv_node",
                  "constantdict({$rn[$ids[$r]]: $ids[$r] for $r in $$coll})"), "R09-NAMES",
            name, "recvs-keyed-by-received-name", where,
            "receive nodes are not keyed by the name assigned to the received array")


def r_forwarded(c):
    """an array that is received and sent on unchanged: one generated name would be
    both a receive name and a part output (which the verifier asserts never happens)"""
    m = c.model
    f = m.func(D + "partition.find_distributed_partition")
    name = "distributed.partition.find_distributed_partition"
    # (private helpers inlined; `pid = part_of[a]; outs[pid][n] = a` and
    # `outs[part_of[a]][n] = a` are the same loop)
    loops = []
    for nf in (f, m.inlined(f)):     # as written first (the namer stays a call)
        loops = find(nf, """
for $a in $sent:
    $n = $$namer
    $s2n[$a] = $n
    $outs[$s2p[$a]][$n] = $a
""") + find(nf, """
for $a in $sent:
    $pid = $s2p[$a]
    $n = $$namer
    $s2n[$a] = $n
    $outs[$pid][$n] = $a
""")
        if loops:
            break
    # of the loops of that shape, the one over the arrays that sends send
    loops = [l for l in loops if has(
        f, f"{l['$sent']} = FrozenOrderedSet(($n.data for $n in "
           "$g.local_send_id_to_send_node.values()))")]
    if len(loops) != 1:
        raise AnalysisError("anchor vanished: naming loop over the sent arrays")
    e = loops[0]
    sent, a = e["$sent"], e["$a"]
    namer = [st for st in e["@node"].body if isinstance(st, (ast.Assign, ast.AnnAssign))
             and ast.unparse(st.targets[0] if isinstance(st, ast.Assign) else st.target)
             == e["$n"]][0].value
    recvd = find(f, "$r2n = {$x: $gen($x) for $x in $recvd}")
    if len(recvd) != 1:
        raise AnalysisError("anchor vanished: naming of the received arrays")
    gen, rv = recvd[0]["$gen"], recvd[0]["$recvd"]
    # the clash is possible iff a received array can reach the memoising namer
    # that also named the receives; accepted ways out: the iterated collection
    # excludes received arrays, the loop skips / rejects them, or they get a
    # fresh name
    uses_shared = any(isinstance(x, ast.Call) and ast.unparse(x.func) == gen
                      for x in ast.walk(namer))
    guarded = (isinstance(namer, ast.IfExp) and (
        (ast.unparse(namer.test) == f"{a} in {rv}" and not any(
            isinstance(x, ast.Call) and ast.unparse(x.func) == gen for x in ast.walk(namer.body)))
        or (ast.unparse(namer.test) == f"{a} not in {rv}" and not any(
            isinstance(x, ast.Call) and ast.unparse(x.func) == gen
            for x in ast.walk(namer.orelse)))))
    excluded = has(f, f"{sent} = $$x - {rv}") or has(f, f"{sent} = {sent} - {rv}") \
        or any(isinstance(i, ast.If) and has(i.test, f"{a} in {rv}") for i in e["@node"].body)
    c.check((not uses_shared) or guarded or excluded, "R09-NAMES", name,
            "sent-and-received-names-disjoint", m.loc(m.module_of(f), e["@node"]),
            f"sent arrays and received arrays are named by the same memoising generator "
            f"({gen}) and nothing keeps a received array out of `{sent}`: a rank that "
            "forwards a received array unchanged gets a part whose output name equals one "
            "of its receive names, which verify_distributed_partition rejects "
            "(AssertionError) although the computation is correct")


def r_placement(c):
    """where stored arrays are computed, and how the verifier resolves part inputs"""
    m = c.model
    f = m.func(D + "partition.find_distributed_partition")
    where = m.loc(m.module_of(f), f)
    name = "distributed.partition.find_distributed_partition"
    # (1) a stored array is computed no later than the EARLIEST part with a send
    #     that depends on it: a minimum over all (send, dependency) pairs
    acc = find(f, """
$t = dict.fromkeys($arrs, $top)
for $sid, $snode in $g.local_send_id_to_send_node.items():
    for $a in $dep($snode.data):
        $t[$a] = min($t[$a], $c2p[$sid])
""")
    comp = find(f, "$t = {$a: min(($c2p[$sid] for $sid, $snode in "
                   "$g.local_send_id_to_send_node.items() if $a in $dep($snode.data)), "
                   "default=$top) for $a in $arrs}")
    got = acc or comp
    if not got:
        # the send's part held in a local (`p = c2p[sid]` ... min(t[a], p))
        got = find(m.expand_locals(m.inlined(f), only="subscripts"), """
$t = dict.fromkeys($arrs, $top)
for $sid, $snode in $g.local_send_id_to_send_node.items():
    for $a in $dep($snode.data):
        $t[$a] = min($t[$a], $c2p[$sid])
""")
    c.check(len(got) == 1, "R09-PLACEMENT", name, "first-dependent-send-is-a-minimum", where,
            "the part bound of a stored array is not the minimum, over all sends whose data "
            "depends on it, of the send's part (starting from the number of parts): with "
            "'first one visited' an array needed by an early send is computed in a later "
            "part and the part graph becomes cyclic")
    if got:
        e = got[0]
        c.check(has(f, f"{e['$top']} = len($parts)") and has(
            f, f"$to = {{$a: min({e['$t']}[$a], {e['$top']} - 1) for $a in {e['$arrs']}}}"),
                "R09-PLACEMENT", name, "placed-at-that-bound-or-last-part", where,
                "stored arrays are not placed at min(bound, last part)")
    # (2) a received array belongs to the part of its receive
    c.check(has(f, "$r2p = {$r: $c2p[_recv_to_comm_id($rank, $r)] for $r in $recvd}"),
            "R09-PLACEMENT", name, "received-array-in-the-part-of-its-receive", where,
            "a received array is not assigned to the part that contains its receive")
    # (3) the verifier resolves a part input against the outputs of ALL parts, then
    #     against the receives of ALL parts (data received in an earlier round may be
    #     read by any later part of the rank)
    v = m.func(D + "verify.verify_distributed_partition")
    vw = m.loc(m.module_of(v), v)
    vname = "distributed.verify.verify_distributed_partition"
    outs = find(v, """
for $p in $all.values():
    for $n in $p.output_names:
        assert $n not in $tbl
        $tbl[$n] = $p.pid
""")
    recvs = find(v, """
for $p in $all.values():
    for $n in $p.name_to_recv_node:
        assert $n not in $t1
        assert $n not in $tbl
        $tbl[$n] = $p.pid
""")
    ok = len(outs) == 1 and len(recvs) == 1
    if ok:
        ok = has(v, f"""
$d = {outs[0]['$tbl']}.get($in)
if $d is None:
    $d = {recvs[0]['$tbl']}.get($in)
if $d is None:
    raise AssertionError($$msg)
""")
    c.check(ok, "R09-PLACEMENT", vname, "part-inputs-resolved-against-all-parts", vw,
            "a part input is not looked up first among the outputs of all parts and then "
            "among the receives of all parts: a well-formed partition in which a later part "
            "re-reads data received earlier is rejected (or an undefined input accepted)")


def r_deps(c):
    """the partitioner finds a stored array among the dependencies of the data that
    uses it: the dependency mappers must include the node itself (shared with C20)"""
    from pta.rules.c20 import r_deps_self
    before = len(c.obs)
    r_deps_self(c)
    for o in c.obs[before:]:
        o.rule = "R09-PLACEMENT"


def r_name_table(c):
    """generated names and user-given output names are different name spaces: the
    table of generated array names starts empty (the repository says so itself:
    "Don't be tempted to put outputs in array_names")"""
    m = c.model
    f = m.func(D + "partition.find_distributed_partition")
    gens = find(f, """
def $gen($a):
    $n = $tbl.get($a)
    if $n is not None:
        return $n
    else:
        $n = $fresh()
        $tbl[$a] = $n
        return $n
""")
    if len(gens) != 1:
        raise AnalysisError("anchor vanished: memoising array-name generator")
    tbl = gens[0]["$tbl"]
    inits = [a for a in ast.walk(f) if isinstance(a, (ast.Assign, ast.AnnAssign))
             and ast.unparse(a.targets[0] if isinstance(a, ast.Assign) else a.target) == tbl]
    c.check(len(inits) == 1 and inits[0].value is not None
            and ast.unparse(inits[0].value) in ("{}", "dict()"), "R09-NAMES",
            "distributed.partition.find_distributed_partition",
            "generated-name-table-starts-empty",
            m.loc(m.module_of(f), inits[0] if inits else f),
            f"the table of generated array names `{tbl}` is pre-filled "
            f"(`{m.frag(inits[0].value, 50) if inits and inits[0].value is not None else None}`): "
            "a received or stored array that is also an overall output then takes the "
            "output's name, and a part gets an output that is a placeholder of itself")


def r_hash_cache(c):
    """communication identifiers and parts are pickled between ranks (allreduce,
    bcast, gather): a cached hash travels with them and is stale under another
    rank's hash seed, so lookups of identifiers that came from another rank miss"""
    from pta.rules.common import check_no_pickled_hash_cache
    check_no_pickled_hash_cache(
        c, "R09-NOCOMM", [D + "partition", D + "nodes", D + "tags", D + "verify"],
        "an identifier received from another rank (other PYTHONHASHSEED) is not found in "
        "dict/set lookups: a valid program is rejected with a false Missing*Error")
    c.ok("R09-NOCOMM", "distributed.*", "classes-with-__hash__-scanned",
         "pytato/distributed", nontrivial=False)


SPEC = Spec(
    prop="C09",
    rules=[r_collectives, r_nocomm, r_tags, r_names, r_forwarded, r_placement, r_deps, r_name_table, r_hash_cache],
    floors={"R09-COLLECTIVES": 7, "R09-NOCOMM": 4, "R09-TAGS": 4, "R09-NAMES": 5,
            "R09-PLACEMENT": 4},
    explanation=(
        "Decides code-shape conditions without which the invariants cannot hold, "
        "not the invariants on concrete partitions. R09-COLLECTIVES "
        "(branch-sequence agreement, statement-path walker with exception edges): "
        "in find_distributed_partition, number_distributed_tags and "
        "verify_distributed_partition every rank-dependent branch performs the "
        "same sequence of MPI collectives on every path as the other branch, the "
        "root sends and the others receive, and all ranks continue with the "
        "broadcast value. R09-NOCOMM: the input replacer overrides both "
        "communication kinds and cannot return a communication node; receives "
        "become one placeholder per name. R09-TAGS: both ends are renumbered "
        "through one first-seen, strictly increasing mapping built from an ordered "
        "collection and broadcast from the root. R09-NAMES: output names and "
        "outputs of a part come from one mapping, each name once, parts form a "
        "chain, inputs come from the replacer. R09-PLACEMENT: the part bound of a "
        "stored array is the minimum over all sends depending on it, received "
        "arrays sit in the part of their receive; the verifier resolves a part "
        "input against the outputs, then the receives, of all parts; the dependency "
        "mappers the partitioner places arrays with include the node itself "
        "(shared with R20-DEPS). R09-NAMES also: sent and received arrays cannot "
        "get the same generated name (a forwarded receive gets a fresh one); the "
        "table of generated names starts empty."),
    not_decided=(
        "The partition invariants on concrete partitions for all communication "
        "patterns (statements about run-time data structures), and acceptance by "
        "verify_distributed_partition."),
)
