"""C09 -- every distributed partition is well-formed and all ranks agree (code-shape conditions)."""
from __future__ import annotations

import ast

from pta import paths as P
from pta.check import Spec
from pta.flow import Flow, paths_of
from pta.model import AnalysisError
from pta.rules.common import short

D = "pytato.distributed."
COLLECTIVES = {"bcast", "gather", "allreduce", "barrier", "allgather", "scatter",
               "reduce", "Bcast", "Gather", "Allreduce", "Barrier", "alltoall"}
FUNCS = [D + "partition.find_distributed_partition", D + "tags.number_distributed_tags",
         D + "verify.verify_distributed_partition"]


def coll_classifier(comm):
    def cl(n):
        if isinstance(n, ast.Call) and isinstance(n.func, ast.Attribute) \
                and n.func.attr in COLLECTIVES and ast.unparse(n.func.value) == comm:
            return n.func.attr
        return None
    return cl


def rank_branches(fd, comm):
    """If statements whose test compares <comm>.rank with a root"""
    out = []
    for n in ast.walk(fd):
        if isinstance(n, ast.If) and isinstance(n.test, ast.Compare) \
                and ast.unparse(n.test.left) in (f"{comm}.rank", "my_rank", "local_rank") \
                and isinstance(n.test.ops[0], (ast.Eq, ast.NotEq)) \
                and (isinstance(n.test.comparators[0], ast.Constant)
                     or "root" in ast.unparse(n.test.comparators[0])):
            out.append(n)
    return out


def r_collectives(c):
    m = c.model
    n_br = 0
    for qn in FUNCS:
        fd = m.func(qn)
        comm = fd.args.args[0].arg
        name = qn.replace("pytato.", "", 1)
        cl = coll_classifier(comm)
        # at least one collective in the function (it is documented as collective)
        total = [x for x in ast.walk(fd) if cl(x)]
        c.check(bool(total), "R09-COLLECTIVES", name, "is-collective",
                m.loc(m.module_of(fd), fd), "no MPI collective left in a collective routine")
        for iff in rank_branches(fd, comm):
            n_br += 1
            w = P.Walker(cl, assert_raises=False)
            a = w.block(iff.body)
            w2 = P.Walker(cl, assert_raises=False)
            b = w2.block(iff.orelse) if iff.orelse else {((), "fall")}
            sa = {P._strip(e) for (e, _x) in a}
            sb = {P._strip(e) for (e, _x) in b}
            where = m.loc(m.module_of(fd), iff)
            ok = len(sa) == 1 and sa == sb
            c.check(ok, "R09-COLLECTIVES", name,
                    f"branch-sequences-agree:{m.frag(iff.test, 40)}", where,
                    f"on the `{m.frag(iff.test, 40)}` branch the possible sequences of "
                    f"collectives are {sorted(sa)} but on the other branch {sorted(sb)} "
                    "(exception paths included): some rank waits in a collective the "
                    "others never enter",
                    facts={"root": sorted(map(list, sa)), "others": sorted(map(list, sb))})
            # the value every rank continues with is the broadcast one
            if any("bcast" in e for e in sa):
                root_sent = [x for s in iff.body for x in ast.walk(s) if cl(x) == "bcast"]
                oth_recv = [x for s in iff.orelse for x in ast.walk(s) if cl(x) == "bcast"]
                c.check(all(ast.unparse(x.args[0]) == "None" for x in oth_recv if x.args)
                        and all(x.args and ast.unparse(x.args[0]) != "None" for x in root_sent),
                        "R09-COLLECTIVES", name, "root-sends-others-receive", where,
                        "the non-root branch does not receive what the root broadcasts")
    if n_br < 2:
        raise AnalysisError(f"only {n_br} rank-dependent branches found (floor 2)")
    # find_distributed_partition: everybody continues with the broadcast batches
    fd = m.func(FUNCS[0])
    src = ast.unparse(fd)
    c.check("comm_batches = comm_batches_or_exc" in src
            and "mpi_communicator.bcast(comm_batches)" in src, "R09-COLLECTIVES",
            "distributed.partition.find_distributed_partition",
            "all-ranks-use-root-schedule", m.loc(m.module_of(fd), fd),
            "non-root ranks do not continue with the schedule computed by the root")
    # the reduction operator used for the dependency union is commutative and freed
    c.check("commute=True" in src and "set_dict_union_mpi_op.Free()" in src,
            "R09-COLLECTIVES", "distributed.partition.find_distributed_partition",
            "union-op-commutative-and-freed", m.loc(m.module_of(fd), fd),
            "the MPI reduction operator is not declared commutative / not freed")


def r_nocomm(c):
    m = c.model
    R = D + "partition._DistributedInputReplacer"
    ci = m.cls(R)
    for mm, kind in (("map_distributed_recv", D + "nodes.DistributedRecv"),
                     ("map_distributed_send_ref_holder", D + "nodes.DistributedSendRefHolder")):
        own = mm in ci.methods
        c.check(own, "R09-NOCOMM", short(R), f"overrides:{mm}", m.loc(ci.module, ci.node),
                f"{mm} is not overridden: CopyMapper would copy the communication node "
                "into the part")
        if not own:
            continue
        fd = ci.methods[mm]
        flow = Flow(m, R, max_depth=3)
        s = flow.handler(mm, kind)
        # must not return the node itself nor a rebuilt comm node
        self_ret = () in paths_of(s.ret, "expr")
        ctor = [e for e in s.ctors if e.kind in ("replace_if_different", "class", "copy")
                and (e.cls is None or "distributed.nodes" in (e.cls or ""))
                and () in paths_of(e.recv, "expr") | ({()} if e.cls else set())]
        c.check(not self_ret and not ctor, "R09-NOCOMM", f"{short(R)}.{mm}",
                "cannot-return-a-communication-node", m.loc(ci.module, fd),
                "the handler can return the communication node (or a copy of it): "
                "parts would contain communication nodes")
    src = ast.unparse(ci.methods["map_distributed_recv"])
    c.check("self._get_placeholder_for(name, expr)" in src and "self.recvd_ary_to_name[expr]" in src,
            "R09-NOCOMM", f"{short(R)}.map_distributed_recv", "becomes-named-placeholder",
            m.loc(ci.module, ci.methods["map_distributed_recv"]),
            "a receive is not replaced by the placeholder of its assigned name")
    gp = ci.methods["_get_placeholder_for"]
    gs = ast.unparse(gp)
    c.check("make_placeholder(name, expr.shape, expr.dtype, expr.tags, expr.axes)" in gs
            and "self.partition_input_name_to_placeholder[name] = placeholder" in gs,
            "R09-NOCOMM", f"{short(R)}._get_placeholder_for", "one-placeholder-per-name",
            m.loc(ci.module, gp),
            "part inputs are not represented by one placeholder per name mirroring the "
            "array's shape/dtype/tags/axes")
    # output arrays of the part are not turned into placeholders
    rec = ci.methods["rec"]
    c.check("expr not in self.output_arrays" in ast.unparse(rec), "R09-NOCOMM",
            f"{short(R)}.rec", "own-outputs-are-computed", m.loc(ci.module, rec),
            "a part's own output could be replaced by a placeholder for itself")


def r_tags(c):
    m = c.model
    fd = m.func(FUNCS[1])
    where = m.loc(m.module_of(fd), fd)
    src = ast.unparse(fd)
    # both ends are renumbered through the same mapping
    maps = set()
    for call in ast.walk(fd):
        if isinstance(call, ast.Call) and isinstance(call.func, ast.Attribute) \
                and call.func.attr == "copy":
            for k in call.keywords:
                if k.arg == "comm_tag" and isinstance(k.value, ast.Subscript):
                    maps.add((ast.unparse(call.func.value), ast.unparse(k.value.value),
                              ast.unparse(k.value.slice)))
    ends = {e[0] for e in maps}
    c.check(ends == {"recv", "send"} and len({e[1] for e in maps}) == 1 and all(
        e[2] == f"{e[0]}.comm_tag" for e in maps), "R09-TAGS",
        "distributed.tags.number_distributed_tags", "one-mapping-for-both-ends", where,
        f"receives and sends are not both renumbered as map[own symbolic tag] through "
        f"one mapping ({sorted(maps)}): the two ends of a message get different integers")
    # first-seen numbering with a strictly increasing counter
    loop = [l for l in ast.walk(fd) if isinstance(l, ast.For) and "flatten(all_tags)" in ast.unparse(l.iter)]
    ok = False
    if len(loop) == 1:
        body = loop[0].body
        if len(body) == 1 and isinstance(body[0], ast.If) and "not in sym_tag_to_int_tag" in ast.unparse(body[0].test):
            b = [ast.unparse(s) for s in body[0].body]
            ok = b == ["sym_tag_to_int_tag[sym_tag] = next_tag", "next_tag += 1"]
    c.check(ok, "R09-TAGS", "distributed.tags.number_distributed_tags",
            "first-seen-strictly-increasing", where,
            "a new symbolic tag is not assigned the current counter followed by an "
            "increment (distinct messages could share an integer)")
    c.check("next_tag = base_tag" in src, "R09-TAGS", "distributed.tags.number_distributed_tags",
            "starts-at-base_tag", where, "numbering does not start at base_tag")
    # the collection numbered is an ordered one on every rank (C17 checks no set)
    tg = [s for s in ast.walk(fd) if isinstance(s, ast.Assign) and ast.unparse(s.targets[0]) == "tags"]
    c.check(len(tg) == 1 and ast.unparse(tg[0].value).startswith("tuple(["), "R09-TAGS",
            "distributed.tags.number_distributed_tags", "ordered-tag-collection", where,
            "the local tags are not collected into a tuple/list")
    c.check("mpi_communicator.gather(tags, root=root_rank)" in src, "R09-TAGS",
            "distributed.tags.number_distributed_tags", "gathers-all-ranks-tags", where,
            "the tags of all ranks are not gathered on the root")
    c.check("mpi_communicator.bcast((sym_tag_to_int_tag, next_tag), root=root_rank)" in src
            and "sym_tag_to_int_tag, next_tag = mpi_communicator.bcast(None, root=root_rank)" in src,
            "R09-TAGS", "distributed.tags.number_distributed_tags",
            "all-ranks-use-root-numbering", where,
            "ranks do not all continue with the root's mapping and next tag")


def r_names(c):
    m = c.model
    fd = m.func(D + "partition._make_distributed_partition")
    where = m.loc(m.module_of(fd), fd)
    src = ast.unparse(fd)
    c.check("for name, val in name_to_part_output.items()" in src
            and "name_to_output[name] = _verify_is_array(comm_replacer.rec(val))" in src
            and "output_names=frozenset(name_to_part_output.keys())" in src,
            "R09-NAMES", "distributed.partition._make_distributed_partition",
            "output-names-and-outputs-from-one-mapping", where,
            "a part's output_names and the entries added to name_to_output do not come "
            "from the same mapping of that part")
    c.check("assert name not in name_to_output" in src, "R09-NAMES",
            "distributed.partition._make_distributed_partition", "each-name-produced-once",
            where, "an output name could be produced by two parts")
    c.check("needed_pids=frozenset({part_id - 1} if part_id else {})" in src, "R09-NAMES",
            "distributed.partition._make_distributed_partition", "parts-form-a-chain", where,
            "a part no longer depends on exactly its predecessor (acyclic part order)")
    c.check("user_input_names=frozenset(comm_replacer.user_input_names)" in src
            and "partition_input_names=frozenset(comm_replacer.partition_input_name_to_placeholder.keys())" in src,
            "R09-NAMES", "distributed.partition._make_distributed_partition",
            "input-names-from-the-replacer", where,
            "the names a part reads are not the ones its input replacer recorded")
    c.check("name_to_send_nodes.setdefault(name, []).append(comm_replacer.map_distributed_send(send_node))"
            in src and "name = sent_ary_to_name[send_node.data]" in src, "R09-NAMES",
            "distributed.partition._make_distributed_partition", "sends-keyed-by-sent-name",
            where, "send nodes are not keyed by the name of the array they send")
    c.check("recvd_ary_to_name[local_recv_id_to_recv_node[recv_id]]: local_recv_id_to_recv_node[recv_id]"
            in src, "R09-NAMES", "distributed.partition._make_distributed_partition",
            "recvs-keyed-by-received-name", where,
            "receive nodes are not keyed by the name assigned to the received array")


SPEC = Spec(
    prop="C09",
    rules=[r_collectives, r_nocomm, r_tags, r_names],
    floors={"R09-COLLECTIVES": 8, "R09-NOCOMM": 7, "R09-TAGS": 6, "R09-NAMES": 6},
    explanation=(
        "Decides code-shape conditions without which the invariants cannot hold, "
        "not the invariants on concrete partitions. R09-COLLECTIVES "
        "(branch-sequence agreement, statement-path walker with exception edges): "
        "in find_distributed_partition, number_distributed_tags and "
        "verify_distributed_partition every rank-dependent branch performs the "
        "same sequence of MPI collectives on every path as the other branch, the "
        "root sends and the others receive, and all ranks continue with the "
        "broadcast value. R09-NOCOMM: the input replacer overrides both "
        "communication kinds and cannot return a communication node; receives "
        "become one placeholder per name. R09-TAGS: both ends are renumbered "
        "through one first-seen, strictly increasing mapping built from an ordered "
        "collection and broadcast from the root. R09-NAMES: output names and "
        "outputs of a part come from one mapping, each name once, parts form a "
        "chain, inputs come from the replacer."),
    not_decided=(
        "The partition invariants on concrete partitions for all communication "
        "patterns (statements about run-time data structures), and acceptance by "
        "verify_distributed_partition."),
)
