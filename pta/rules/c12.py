"""C12 -- outlining a function and inlining its calls."""
from __future__ import annotations

import ast
import re

from pta.check import Spec
from pta.pat import find, has
from pta.flow import Flow, _raises_only, paths_of
from pta.model import AnalysisError
from pta.rules.common import CACHED, CWALK, MAPPER, WALK, short

FN = "pytato.function"


# --------------------------------------------------------------- name origins
def _template(node, env):
    """abstract a string-valued expression to a template: literal text with
    holes {#}=position, {KW}=raw keyword."""
    if isinstance(node, ast.Constant) and isinstance(node.value, str):
        return node.value
    if isinstance(node, ast.JoinedStr):
        out = ""
        for v in node.values:
            if isinstance(v, ast.Constant):
                out += v.value
            else:
                out += _template(v.value, env)
        return out
    if isinstance(node, ast.Name) and node.id in env:
        return env[node.id]
    if isinstance(node, ast.Attribute) and node.attr == "name":
        base = node.value
        # pl.name where pl ranges over a collection of placeholders
        if isinstance(base, ast.Name) and ("nameof:" + base.id) in env:
            return env["nameof:" + base.id]
        if isinstance(base, ast.Subscript) and isinstance(base.value, ast.Name) \
                and ("nameof-elem:" + base.value.id) in env:
            return env["nameof-elem:" + base.value.id]
    return "<?" + ast.unparse(node)[:30] + ">"


def _placeholder_name(call):
    for k in call.keywords:
        if k.arg == "name":
            return k.value
    return None


ORDER: dict = {}


def trace_call_facts(m):
    ORDER.clear()
    fd = m.inlined(m.func(FN + ".trace_call"))    # a placeholder-making helper is seen through
    varargs = fd.args.vararg.arg if fd.args.vararg else None
    kwargs = fd.args.kwarg.arg if fd.args.kwarg else None
    if not (varargs and kwargs):
        raise AnalysisError("trace_call no longer takes *args/**kwargs")
    coll = {}      # collection var -> (template of element names, template of keys)
    for st in ast.walk(fd):
        if not (isinstance(st, ast.Assign) and isinstance(st.targets[0], ast.Name)):
            continue
        v = st.value
        comp = None
        if isinstance(v, ast.Call) and isinstance(v.func, ast.Name) \
                and v.func.id in ("tuple", "list") and v.args \
                and isinstance(v.args[0], (ast.GeneratorExp, ast.ListComp)):
            comp = v.args[0]
        elif isinstance(v, (ast.DictComp, ast.ListComp)):
            comp = v
        if comp is None:
            continue
        elt = comp.value if isinstance(comp, ast.DictComp) else comp.elt
        if not (isinstance(elt, ast.Call) and ast.unparse(elt.func) == "Placeholder"):
            continue
        g = comp.generators[0]
        env = {}
        it = ast.unparse(g.iter)
        if it == f"enumerate({varargs})" and isinstance(g.target, ast.Tuple):
            env[g.target.elts[0].id] = "{#}"
            order = "order-of:" + varargs
        elif it == f"{kwargs}.items()" and isinstance(g.target, ast.Tuple):
            env[g.target.elts[0].id] = "{KW}"
            order = "order-of:" + kwargs
        elif it in (f"sorted({kwargs}.items())", f"sorted({kwargs})") \
                and isinstance(g.target, (ast.Tuple, ast.Name)):
            env[(g.target.elts[0] if isinstance(g.target, ast.Tuple) else g.target).id] = "{KW}"
            order = "sorted:" + kwargs
        else:
            raise AnalysisError(f"trace_call: unmodelled placeholder loop over {it}")
        ORDER[st.targets[0].id] = order
        name_t = _template(_placeholder_name(elt), env)
        key_t = _template(comp.key, env) if isinstance(comp, ast.DictComp) else None
        coll[st.targets[0].id] = (name_t, key_t, st)
    if len(coll) != 2:
        raise AnalysisError(f"trace_call: expected 2 placeholder collections, got {sorted(coll)}")
    return fd, coll, varargs, kwargs


def _origin_set(node, coll, kwargs):
    """templates of the strings contained in a set/dict-key expression"""
    out = set()
    if isinstance(node, ast.BinOp) and isinstance(node.op, ast.BitOr):
        return _origin_set(node.left, coll, kwargs) | _origin_set(node.right, coll, kwargs)
    if isinstance(node, ast.Call) and isinstance(node.func, ast.Name) \
            and node.func.id in ("frozenset", "set") and node.args:
        a = node.args[0]
        if isinstance(a, ast.Name) and a.id in coll:
            nt, kt, _ = coll[a.id]
            out.add(kt if kt is not None else "<elements of " + a.id + ">")
            return out
        if isinstance(a, ast.Name) and a.id == kwargs:
            return {"{KW}"}
        if isinstance(a, (ast.GeneratorExp, ast.ListComp, ast.SetComp)):
            return _comp_origin(a, a.elt, coll, kwargs)
    if isinstance(node, ast.DictComp):
        return _comp_origin(node, node.key, coll, kwargs)
    return {"<?" + ast.unparse(node)[:40] + ">"}


def _comp_origin(comp, elt, coll, kwargs):
    g = comp.generators[0]
    env = {}
    it = g.iter
    its = ast.unparse(it)
    tgt = g.target
    # for pl in <coll> / <coll>.values() / zip(<coll>, args)
    def bind_elem(name, c_):
        env["nameof:" + name] = coll[c_][0]
    if isinstance(it, ast.Name) and it.id in coll and isinstance(tgt, ast.Name):
        if coll[it.id][1] is None:
            bind_elem(tgt.id, it.id)
        else:
            env[tgt.id] = coll[it.id][1]        # iterating a dict gives its keys
    elif isinstance(it, ast.Call) and isinstance(it.func, ast.Attribute) \
            and it.func.attr == "values" and ast.unparse(it.func.value) in coll \
            and isinstance(tgt, ast.Name):
        bind_elem(tgt.id, ast.unparse(it.func.value))
    elif isinstance(it, ast.Call) and isinstance(it.func, ast.Name) and it.func.id == "zip" \
            and isinstance(tgt, ast.Tuple):
        for a, t in zip(it.args, tgt.elts):
            if isinstance(a, ast.Name) and a.id in coll and isinstance(t, ast.Name):
                bind_elem(t.id, a.id)
    elif its == f"{kwargs}.items()" and isinstance(tgt, ast.Tuple):
        env[tgt.elts[0].id] = "{KW}"
    elif its == kwargs and isinstance(tgt, ast.Name):
        env[tgt.id] = "{KW}"
    for c_ in coll:
        if coll[c_][1] is not None:
            # <coll>[kw].name where kw is the raw keyword
            env["nameof-elem:" + c_] = coll[c_][0]
    return {_template(elt, env)}


def r_names(c):
    m = c.model
    fd, coll, varargs, kwargs = trace_call_facts(m)
    where = m.loc(m.module_of(fd), fd)
    N = {nt for (nt, _kt, _st) in coll.values()}
    # parameters of the FunctionDefinition
    fdef = [x for x in ast.walk(fd) if isinstance(x, ast.Call)
            and ast.unparse(x.func) == "FunctionDefinition"]
    if len(fdef) != 1:
        raise AnalysisError("trace_call: FunctionDefinition(...) construction not found")
    init = m.init_order(FN + ".FunctionDefinition")
    kws = {k.arg: k.value for k in fdef[0].keywords}
    for i, a in enumerate(fdef[0].args):
        kws[init[i]] = a
    P = _origin_set(kws["parameters"], coll, kwargs)
    # keys the definition is called with
    # the variable the definition is assigned to
    fvar = None
    par = getattr(fdef[0], "_parent", None)
    if isinstance(par, ast.Assign) and isinstance(par.targets[0], ast.Name):
        fvar = par.targets[0].id
    elif isinstance(par, ast.AnnAssign) and isinstance(par.target, ast.Name):
        fvar = par.target.id
    calls = [x for x in ast.walk(fd) if isinstance(x, ast.Call)
             and isinstance(x.func, ast.Name) and x.func.id == fvar]
    if len(calls) != 1:
        raise AnalysisError("trace_call: final call of the function definition not found")
    B = set()
    for k in calls[0].keywords:
        if k.arg is None:
            B |= _origin_set(k.value, coll, kwargs)
        else:
            B.add(k.arg)
    for t in sorted(N | P | B):
        inst = f"name-template:{t}"
        ok = t in N and t in P and t in B
        c.check(ok, "R12-NAMES", "trace_call", inst, where,
                f"names of the form {t!r}: placeholders created={t in N}, declared as "
                f"parameters={t in P}, used as binding keys={t in B}. "
                f"(placeholders {sorted(N)}, parameters {sorted(P)}, bindings "
                f"{sorted(B)}): the call is rejected or binds the wrong placeholder",
                facts={"N": sorted(N), "P": sorted(P), "B": sorted(B)})
    # each placeholder is bound to the argument it was created from: a zip of a
    # placeholder collection with the arguments must iterate both in one order
    for k in calls[0].keywords:
        if k.arg is not None or not isinstance(k.value, ast.DictComp):
            continue
        g = k.value.generators[0]
        it = g.iter
        if isinstance(it, ast.Call) and isinstance(it.func, ast.Name) and it.func.id == "zip":
            srcs = []
            for a in it.args:
                t = ast.unparse(a)
                base = t.split(".")[0]
                if base in ORDER:
                    srcs.append(ORDER[base])
                elif base in (varargs, kwargs):
                    srcs.append("order-of:" + base)
                else:
                    srcs.append("?" + t)
            c.check(len(set(srcs)) == 1, "R12-NAMES", "trace_call",
                    f"pairing:{m.frag(it, 50)}", m.loc(m.module_of(fd), it),
                    f"placeholders and arguments are paired positionally by `{m.frag(it, 60)}` "
                    f"although they are iterated in different orders {srcs}: an argument "
                    "is bound to the placeholder of another argument")
        else:
            # paired through the key of one item: fine by construction
            c.ok("R12-NAMES", "trace_call", f"pairing:{m.frag(it, 50)}",
                 m.loc(m.module_of(fd), it), "paired through one item of the mapping")
    # positional and keyword names cannot coincide
    arr = m.module(FN)
    rx = arr.assigns.get("RE_ARGNAME")
    pos_t = [nt for (nt, kt, _s) in coll.values() if kt is None][0]
    kw_t = [nt for (nt, kt, _s) in coll.values() if kt is not None][0]
    ok = False
    if rx is not None and isinstance(rx, ast.Call) and rx.args:
        pat = rx.args[0].value
        mm = re.fullmatch(r"\^(.*)\(\\d\+\)\$", pat)
        if mm:
            ok = kw_t.replace("{KW}", mm.group(1) + "{#}") == pos_t
    guard = any(isinstance(f, ast.For) and ast.unparse(f.iter) == kwargs and any(
        isinstance(i, ast.If) and "RE_ARGNAME.match" in ast.unparse(i.test)
        and any(isinstance(s, ast.Raise) for s in i.body) for i in f.body)
        for f in ast.walk(fd))
    c.check(ok and guard, "R12-NAMES", "trace_call", "reserved-keyword-names-rejected",
            where,
            "keywords whose placeholder name would coincide with a positional "
            f"placeholder ({pos_t!r} vs {kw_t!r} with RE_ARGNAME) are not rejected")
    # the traced function receives the placeholders under the caller's keywords
    tr = [x for x in ast.walk(fd) if isinstance(x, ast.Call) and isinstance(x.func, ast.Name)
          and x.func.id == fd.args.args[0].arg]
    c.check(len(tr) == 1 and [ast.unparse(a) for a in tr[0].args] == ["*" + [
        k for k, v in coll.items() if v[1] is None][0]] and any(
            k.arg is None and ast.unparse(k.value) in coll for k in tr[0].keywords),
        "R12-NAMES", "trace_call", "traces-with-all-placeholders", where,
        "the function is not traced with exactly the positional and keyword "
        "placeholders")
    # each placeholder mirrors shape/dtype/axes/tags of its argument
    for cname, (nt, kt, st) in coll.items():
        pc = [x for x in ast.walk(st) if isinstance(x, ast.Call)
              and ast.unparse(x.func) == "Placeholder"][0]
        k2 = {k.arg: ast.unparse(k.value) for k in pc.keywords}
        # the comprehension variable bound to the argument (second of the pair)
        comp_ = pc._parent
        while not isinstance(comp_, (ast.GeneratorExp, ast.ListComp, ast.DictComp)):
            comp_ = comp_._parent
        tg_ = comp_.generators[0].target
        argv = tg_.elts[1].id if isinstance(tg_, ast.Tuple) and len(tg_.elts) == 2 \
            and isinstance(tg_.elts[1], ast.Name) else "?"
        for f in ("shape", "dtype", "axes", "tags"):
            c.check(k2.get(f) == f"{argv}.{f}", "R12-NAMES", "trace_call",
                    f"{'positional' if kt is None else 'keyword'}:placeholder.{f}", m.loc(m.module_of(fd), pc),
                    f"the parameter placeholder's {f} is `{k2.get(f)}`, not the "
                    "argument's")


def r_call_check(c):
    m = c.model
    # a checking helper split off __call__ and hoisted locals are seen through
    call = m.expand_locals(m.inlined(m.func(FN + ".FunctionDefinition.__call__")))
    ok = any(isinstance(i, ast.If) and isinstance(i.test, ast.Compare)
             and {ast.unparse(i.test.left), ast.unparse(i.test.comparators[0])} ==
             {"self.parameters", f"frozenset({call.args.kwarg.arg})"}
             and isinstance(i.test.ops[0], ast.NotEq)
             and any(isinstance(s, ast.Raise) for s in i.body) for i in ast.walk(call))
    c.check(ok, "R12-CALL-CHECK", "FunctionDefinition.__call__",
            "parameters==keywords-or-raise", m.loc(m.module_of(call), call),
            "a call with other keywords than the declared parameters is no longer "
            "rejected before the Call node is built")
    # the check precedes the construction of the Call
    order = [n for n in ast.walk(call) if (isinstance(n, ast.If) and "self.parameters"
                                          in ast.unparse(n.test))
             or (isinstance(n, ast.Call) and ast.unparse(n.func) == "Call")]
    c.check(len(order) >= 2 and isinstance(order[0], ast.If)
            and order[0].lineno < order[-1].lineno, "R12-CALL-CHECK",
            "FunctionDefinition.__call__", "check-before-construction",
            m.loc(m.module_of(call), call), "the argument check does not precede Call(...)")
    # dtype and shape of every argument are checked against the placeholder
    kwp = call.args.kwarg.arg if call.args.kwarg else "kwargs"
    chk = find(call, f"""
for $argname, $exp in self._placeholders.items():
    if $exp.dtype != {kwp}[$argname].dtype:
        raise ValueError($$m1)
    if not are_shapes_equal($exp.shape, {kwp}[$argname].shape):
        raise ValueError($$m2)
""")
    c.check(len(chk) == 1, "R12-CALL-CHECK", "FunctionDefinition.__call__",
            "argument-dtype-and-shape-checked", m.loc(m.module_of(call), call),
            "dtype and shape of every argument are no longer compared with those of the "
            "parameter placeholder of the same name (raising)")
    pi = m.cls(FN + ".Call").methods.get("__post_init__")
    ok = pi is not None and any(
        isinstance(a, ast.Assert) and isinstance(a.test, ast.Compare)
        and {ast.unparse(a.test.left), ast.unparse(a.test.comparators[0])} ==
        {"frozenset(self.bindings)", "self.function.parameters"} for a in ast.walk(pi))
    c.check(ok, "R12-CALL-CHECK", "Call.__post_init__", "bindings==parameters",
            m.loc(FN, pi) if pi is not None else "",
            "Call no longer asserts that its bindings are exactly the function's "
            "parameters (sibling of FunctionDefinition.__call__'s check)")
    # bindings are passed on unchanged
    c.check(has(call, f"Call(self, bindings=constantdict({kwp}), tags=$$t)"), "R12-CALL-CHECK",
            "FunctionDefinition.__call__", "binds-the-given-arguments",
            m.loc(m.module_of(call), call),
            "the Call is not built from self and the given keyword arguments")


def r_namespace(c):
    """callee bodies are traversed with a fresh array cache"""
    m = c.model
    n = 0
    for qn in m.subclasses(MAPPER):
        ci = m.classes[qn]
        if "map_function_definition" not in ci.methods:
            continue
        fd = ci.methods["map_function_definition"]
        if _raises_only(fd):
            continue
        flow = Flow(m, qn, max_depth=4)
        s = flow.handler("map_function_definition", m.FUNCDEF)
        n += 1
        bad = []
        good = 0
        for e in s.rec:
            ps = paths_of(e.value, "expr")
            if any(p[:1] == ("returns",) for p in ps):
                if e.receiver in ("self", "super", "Mapper"):
                    bad.append(e)
                else:
                    good += 1
        where = m.loc(ci.module, fd)
        cached = CACHED in m.mro(qn) or CWALK in m.mro(qn) or any(
            "visited" in a or "_cache" in a for a in
            [x.attr for x in ast.walk(ci.node) if isinstance(x, ast.Attribute)])
        if bad and cached:
            c.violation(
                "R12-NAMESPACE", f"{short(qn)}.map_function_definition",
                "body-traversed-with-own-cache", m.loc(ci.module, bad[0].node),
                "the function body (a separate name space) is traversed with the "
                "caller's mapper and cache: a placeholder of the body that equals a "
                "node of the caller is a cache collision / unsound hit "
                f"(`{m.frag(bad[0].node, 50)}`)")
        else:
            c.ok("R12-NAMESPACE", f"{short(qn)}.map_function_definition",
                 "body-traversed-with-fresh-mapper" if good else "body-not-traversed",
                 where, nontrivial=bool(good))
    if n < 5:
        raise AnalysisError(f"only {n} map_function_definition handlers found")
    # a mapper whose function handler clones itself must be clonable
    for qn in m.subclasses(MAPPER, strict=True):
        ci = m.classes[qn]
        r = m.resolve_method(qn, "map_function_definition")
        if r is None or "clone_for_callee" not in ast.unparse(r[1]):
            continue
        cl = m.resolve_method(qn, "clone_for_callee")
        init = m.resolve_method(qn, "__init__")
        if cl is None or init is None or _raises_only(cl[1]):
            continue
        ncr = m.resolve_method(qn, "map_named_call_result")
        if ncr is not None and _raises_only(ncr[1]):
            c.exempt("R12-NAMESPACE", f"{short(qn)}.clone_for_callee",
                     "clone-supplies-required-init-args", m.loc(ci.module, ci.node),
                     "the mapper declares functions unsupported: its "
                     "map_named_call_result raises, so function bodies are never "
                     "reached", nontrivial=False)
            continue
        a = init[1].args
        pos = a.posonlyargs + a.args
        required = [x.arg for x in pos[1:len(pos) - len(a.defaults)]]
        required += [x.arg for x, d in zip(a.kwonlyargs, a.kw_defaults) if d is None]
        given = set()
        npos = 0
        for call in ast.walk(cl[1]):
            if isinstance(call, ast.Call) and ast.unparse(call.func) == "type(self)":
                given |= {k.arg for k in call.keywords if k.arg}
                npos = max(npos, len(call.args))
        given |= {x.arg for x in pos[1:1 + npos]}
        missing = [r_ for r_ in required if r_ not in given]
        c.check(not missing, "R12-NAMESPACE", f"{short(qn)}.clone_for_callee",
                "clone-supplies-required-init-args", m.loc(ci.module, ci.node),
                f"{short(qn)}.__init__ requires {missing} but the clone_for_callee it "
                f"inherits from {short(cl[0])} does not pass them: mapping a function "
                "definition raises TypeError")


def _ret_templates_trace(m):
    # a classifying helper that returns (return type, returns) is seen through
    fd = m.split_tuples(m.inlined(m.func(FN + ".trace_call")))
    out = {}
    from pta.pat import find as _find
    mk = _find(fd, "$f = FunctionDefinition($$names, $rt, constantdict($rets), tags=$$t)")
    if len(mk) != 1:
        raise AnalysisError("anchor vanished: FunctionDefinition(...) in trace_call")
    rtv, retsv = mk[0]["$rt"], mk[0]["$rets"]
    for iff in ast.walk(fd):
        if not isinstance(iff, ast.If):
            continue
        rt = None
        key = None
        for st in iff.body:
            if isinstance(st, ast.Assign) and ast.unparse(st.targets[0]) == rtv:
                rt = ast.unparse(st.value).split(".")[-1]
            if isinstance(st, ast.Assign) and ast.unparse(st.targets[0]) == retsv:
                v = st.value
                if isinstance(v, ast.Dict) and len(v.keys) == 1:
                    key = _template(v.keys[0], {})
                elif isinstance(v, ast.DictComp):
                    g = v.generators[0]
                    env = {}
                    if ast.unparse(g.iter).startswith("enumerate(") and isinstance(g.target, ast.Tuple):
                        env[g.target.elts[0].id] = "{#}"
                    key = _template(v.key, env)
                elif isinstance(v, ast.Name):
                    key = "<own keys>"
        if rt and key:
            out[rt] = key
    return out


def _ret_templates_call(m):
    fd = m.func(FN + ".FunctionDefinition.__call__")
    out = {}
    from pta.pat import find as _find
    cs = _find(fd, "$cs = Call(self, bindings=$$b, tags=$$t)") + _find(fd, "$cs = Call(self, bindings=$$b)")
    if len(cs) != 1:
        raise AnalysisError("anchor vanished: Call(self, ...) in FunctionDefinition.__call__")
    csv = cs[0]["$cs"]
    for iff in ast.walk(fd):
        if not (isinstance(iff, ast.If) and isinstance(iff.test, ast.Compare)
                and ast.unparse(iff.test.left) == "self.return_type"):
            continue
        rt = ast.unparse(iff.test.comparators[0]).split(".")[-1]
        for r in iff.body:
            if not isinstance(r, ast.Return):
                continue
            for sub in ast.walk(r.value):
                if isinstance(sub, ast.Subscript) and ast.unparse(sub.value) == csv:
                    env = {}
                    par = r.value
                    for comp in ast.walk(par):
                        if isinstance(comp, (ast.GeneratorExp, ast.DictComp, ast.ListComp)):
                            g = comp.generators[0]
                            if ast.unparse(g.iter).startswith("range(len(self.returns"):
                                env[g.target.id] = "{#}"
                            elif ast.unparse(g.iter) == "self.returns":
                                env[g.target.id] = "<own keys>"
                    t = _template(sub.slice, env)
                    out[rt] = "<own keys>" if t == "<own keys>" else t
    return out


def r_return(c):
    m = c.model
    a, b = _ret_templates_trace(m), _ret_templates_call(m)
    members = [t.id for st in m.cls(FN + ".ReturnType").node.body
               if isinstance(st, ast.Assign) for t in st.targets]
    fd = m.func(FN + ".trace_call")
    for mem in members:
        c.check(mem in a and mem in b and a[mem] == b[mem], "R12-RETURN",
                "trace_call / FunctionDefinition.__call__", f"ReturnType.{mem}",
                m.loc(m.module_of(fd), fd),
                f"return convention {mem}: trace_call stores results under "
                f"{a.get(mem)!r} but __call__ reads them under {b.get(mem)!r}")
    # Call.__getitem__ / NamedCallResult read function.returns[name]
    gi = m.func(FN + ".Call.__getitem__")
    np_ = gi.args.args[1].arg
    c.check(has(gi, f"""NamedCallResult(self, {np_}, axes=self.function.returns[{np_}].axes,
                tags=self.function.returns[{np_}].tags,
                non_equality_tags=self.function.returns[{np_}].non_equality_tags)"""),
            "R12-RETURN", "Call.__getitem__", "result-mirrors-named-return", m.loc(FN, gi),
            "a call result is not built for (call, name) with the metadata of the "
            "function's return of that name")
    for prop in ("shape", "dtype"):
        pf = m.cls(FN + ".NamedCallResult").methods[prop]
        c.check(has(pf, f"return self._container.function.returns[self.name].{prop}"),
                "R12-RETURN", f"NamedCallResult.{prop}", "reads-named-return", m.loc(FN, pf),
                f"the {prop} of a call result is not the {prop} of the function's return "
                "of the same name")


def r_inline(c):
    m = c.model
    T = "pytato.transform.calls."
    mc = m.func(T + "Inliner.map_call")
    ep = mc.args.args[1].arg
    where = m.loc(m.module_of(mc), mc)
    from pta.pat import returns_are
    inl = [1] if returns_are(m, mc, {
        ((f"{ep}.tags_of_type(InlineCallTag)", True),):
            f"DictOfNamedArrays({{$n: _verify_is_array(self.rec(PlaceholderSubstitutor("
            f"{ep}.bindings)($r))) for $n, $r in {ep}.function.returns.items()}}, "
            f"tags={ep}.tags)",
        ((f"{ep}.tags_of_type(InlineCallTag)", False),): f"super().map_call({ep})",
    }) else []
    c.check(len(inl) == 1, "R12-INLINE", "Inliner.map_call",
            "tagged:substitute-own-bindings-keyed-by-return-names;untagged:copied", where,
            "a tagged call is not replaced by {return name: recursed, substituted return} "
            "with the substitution built from the call's own bindings (keeping the call's "
            "tags), or an untagged call is not simply copied")
    ps = m.func(T + "PlaceholderSubstitutor.map_placeholder")
    c.check(has(ps, f"return self.substitutions[{ps.args.args[1].arg}.name]")
            and not any(isinstance(x, ast.Call) and "rec" in ast.unparse(x.func)
                        for x in ast.walk(ps)), "R12-INLINE",
            "PlaceholderSubstitutor.map_placeholder", "substitutes-by-name-without-recursing",
            m.loc(m.module_of(ps), ps),
            "a parameter placeholder is not replaced by exactly the binding of its own "
            "name (recursing into the binding would substitute caller placeholders that "
            "are named like parameters)")
    pf = m.func(T + "PlaceholderSubstitutor.map_function_definition")
    c.check(has(pf, f"return {pf.args.args[1].arg}") and not any(
        isinstance(x, ast.Call) for x in ast.walk(pf)), "R12-INLINE",
            "PlaceholderSubstitutor.map_function_definition", "does-not-enter-nested-functions",
            m.loc(m.module_of(pf), pf),
            "the substitution descends into nested function definitions (their "
            "parameters are a different name space)")
    sub_init = m.func(T + "PlaceholderSubstitutor.__init__")
    sup = [x for x in ast.walk(sub_init) if isinstance(x, ast.Call)
           and ast.unparse(x.func) == "super().__init__"]
    c.check(len(sup) == 1 and not sup[0].args and not any(
        k.arg in ("_cache", "_function_cache") or k.arg is None for k in sup[0].keywords),
            "R12-INLINE", "PlaceholderSubstitutor.__init__",
            "fresh-cache-per-call-site", m.loc(m.module_of(sub_init), sub_init),
            "the substitutor of a call site does not start with its own empty cache: the "
            "substituted body of one call site is reused for another call of the same "
            "definition with other arguments")
    nr = m.func(T + "Inliner.map_named_call_result")
    ep2 = nr.args.args[1].arg
    rc = f"self.rec({ep2}._container)"
    c.check(returns_are(m, nr, {
        ((f"isinstance({rc}, Call)", True),): f"{rc}[{ep2}.name]",
        ((f"isinstance({rc}, Call)", False),): f"{rc}[{ep2}.name].expr",
    }), "R12-INLINE", "Inliner.map_named_call_result", "selects-result-by-name",
            m.loc(m.module_of(nr), nr), "the inlined result is not selected by the "
            "call result's own name")
    im = m.func(T + "InlineMarker.map_call")
    c.check(has(im, f"return super().map_call({im.args.args[1].arg}).tagged(InlineCallTag())"),
            "R12-INLINE", "InlineMarker.map_call", "only-adds-the-tag", m.loc(m.module_of(im), im),
            "marking a call for inlining does more than tag the copied call")
    ic = m.func(T + "inline_calls")
    c.check(has(ic, f"return deduplicate(Inliner()({ic.args.args[0].arg}))"), "R12-INLINE",
            "inline_calls", "deduplicates-after-inlining", m.loc(m.module_of(ic), ic),
            "the inlined graph is not de-duplicated")


def r_substitutor_duplicates(c):
    """a mapper that REPLACES placeholders by arrays from elsewhere can return an
    array equal to (but not identical with) the placeholder it was given -- a caller
    placeholder named like the parameter placeholder.  The 'mapper-created
    duplicate' check of TransformMapper treats that as an error, so such a mapper
    has to switch the check off"""
    m = c.model
    TM = "pytato.transform.TransformMapper"
    n = 0
    for q in m.subclasses(TM, strict=True):
        ci = m.classes[q]
        mp = ci.methods.get("map_placeholder")
        if mp is None:
            continue
        ep = mp.args.args[1].arg
        rets = [r.value for r in ast.walk(mp) if isinstance(r, ast.Return) and r.value is not None]
        foreign = [r for r in rets if isinstance(r, ast.Subscript)
                   and ast.unparse(r.value).startswith("self.")
                   and any(isinstance(x, ast.Attribute) and isinstance(x.value, ast.Name)
                           and x.value.id == ep for x in ast.walk(r.slice))]
        if not foreign:
            continue
        n += 1
        init = ci.methods.get("__init__")
        ok = init is not None and any(
            isinstance(x, ast.Call) and ast.unparse(x.func) == "super().__init__"
            and any(k.arg == "err_on_created_duplicate" and ast.unparse(k.value) == "False"
                    for k in x.keywords) for x in ast.walk(init))
        c.check(ok, "R12-INLINE", f"{short(q)}.__init__", "replacement-is-not-a-created-duplicate",
                m.loc(ci.module, init if init is not None else ci.node),
                f"{short(q)}.map_placeholder returns `{m.frag(foreign[0], 40)}` (an array from "
                "elsewhere) but the mapper keeps the created-duplicate check on: inlining a "
                "call whose argument is a placeholder equal to the parameter placeholder "
                "(same name, shape, dtype) raises ValueError instead of giving a call-free "
                "graph")
    if n < 1:
        raise AnalysisError("anchor vanished: placeholder-substituting mapper")


SPEC = Spec(
    prop="C12",
    rules=[r_names, r_call_check, r_namespace, r_return, r_inline, r_substitutor_duplicates],
    floors={"R12-NAMES": 9, "R12-CALL-CHECK": 3, "R12-NAMESPACE": 10, "R12-RETURN": 4,
            "R12-INLINE": 5},
    explanation=(
        "R12-NAMES: trace_call is evaluated abstractly with name-origin templates "
        "({#} = position, {KW} = raw keyword): the names of the placeholders "
        "created, the parameter set handed to FunctionDefinition and the keys the "
        "definition is finally called with must be the same set of templates; "
        "reserved keyword names that would coincide with positional placeholder "
        "names are rejected; placeholders mirror shape/dtype/axes/tags. "
        "R12-CALL-CHECK: __call__ and Call.__post_init__ check the same "
        "parameters==bindings relation, dtype and shape are validated, before "
        "construction. R12-NAMESPACE: every map_function_definition of a mapper "
        "that keeps a cache recurses into the body through a cloned/fresh mapper "
        "(receiver of the recursion event), and every mapper that clones itself "
        "for function bodies supplies its required constructor arguments. "
        "R12-RETURN: the three return conventions use the same key templates on "
        "the producing and consuming side. R12-INLINE: the inliner substitutes the "
        "call's own bindings by name, keys results by return names, does not "
        "descend into nested definitions, and marking only tags. "
        "R12-INLINE also: a mapper whose map_placeholder returns arrays from elsewhere (PlaceholderSubstitutor) runs with the created-duplicate check off; it starts with caches of its own."),
    not_decided=(
        "Value equality of call results and direct application, or of inlined and "
        "outlined graphs, for all function bodies and inputs."),
)
