"""C05 -- transformations preserve every output and never mutate their input."""
from __future__ import annotations

import ast

from pta.check import Spec
from pta.flow import NAMED, Flow, child_paths, fmt_paths, paths_of
from pta.model import AnalysisError, Model
from pta.pat import find, has
from pta.rules.common import (
    COPY, COPYX, MAPPER, MPMS, concrete_kinds, handler_name, short,
)
from pta.rules.c13 import strip_markers

NOMUT_MODULES = [
    "pytato.transform", "pytato.transform.dead_code_elimination",
    "pytato.transform.materialize", "pytato.transform.metadata",
    "pytato.transform.calls", "pytato.transform.einsum_distributive_law",
    "pytato.transform.remove_broadcasts_einsum",
    "pytato.transform.lower_to_index_lambda", "pytato.transform.parameter_study",
    "pytato.codegen", "pytato.analysis", "pytato.equality",
]


# ------------------------------------------------------------------- R05-NOMUT
def _own_state_params(m, mi, fd):
    """parameters of the private function ``fd`` that receive, at every call site of
    its module, the caller's own state: `self.<attr>`, or a local the caller bound
    to a freshly created container"""
    sites = []
    for g in ast.walk(mi.tree):
        if not isinstance(g, (ast.FunctionDef, ast.AsyncFunctionDef)) or g is fd:
            continue
        for call in ast.walk(g):
            if isinstance(call, ast.Call) and (
                    (isinstance(call.func, ast.Name) and call.func.id == fd.name)
                    or (isinstance(call.func, ast.Attribute) and call.func.attr == fd.name
                        and isinstance(call.func.value, ast.Name)
                        and call.func.value.id in ("self", "cls"))):
                bind = m._bind_args(call, fd)
                if bind is None:
                    return set()
                sites.append((g, bind))
    if not sites:
        return set()

    def own(g, e):
        if isinstance(e, ast.Attribute) and isinstance(e.value, ast.Name) \
                and e.value.id == "self":
            return True
        if isinstance(e, ast.Name):
            asg = [a.value for a in ast.walk(g) if isinstance(a, (ast.Assign, ast.AnnAssign))
                   and a.value is not None and any(
                       isinstance(t, ast.Name) and t.id == e.id for t in (
                           a.targets if isinstance(a, ast.Assign) else [a.target]))]
            def fresh(v):
                if isinstance(v, (ast.Dict, ast.List, ast.Set, ast.ListComp, ast.DictComp,
                                  ast.SetComp)):
                    return True
                if isinstance(v, ast.Subscript) and isinstance(v.slice, ast.Slice):
                    # a slice of a fresh list (or of the local itself) is a fresh list
                    return fresh(v.value) or (isinstance(v.value, ast.Name)
                                              and v.value.id == e.id)
                if isinstance(v, ast.BinOp) and isinstance(v.op, ast.Add):
                    return fresh(v.left) or fresh(v.right)
                return isinstance(v, ast.Call) and isinstance(v.func, ast.Name) \
                    and v.func.id in ("dict", "list", "set", "defaultdict", "OrderedSet",
                                      "sorted")
            return bool(asg) and all(fresh(v) for v in asg)
        return False
    params = set(sites[0][1])
    return {q for q in params if all(q in b and own(g, b[q]) for g, b in sites)}


def nomut_scan(m: Model, modules, c, rule="R05-NOMUT", canary=False):
    n_funcs = 0
    hits = []
    for mi, fd in m.all_functions(modules=[x for x in modules if x in m.modules]):
        cls = m.enclosing_class(fd)
        owner = None
        if cls is not None:
            owner = next((q for q, ci in m.classes.items() if ci.node is cls), None)
        if m.enclosing_function(fd) is not None:
            continue   # nested defs are analysed through their parent
        params = [a.arg for a in fd.args.posonlyargs + fd.args.args]
        if owner and params and params[0] in ("self", "cls"):
            params = params[1:]
        if fd.args.vararg:
            params.append(fd.args.vararg.arg)
        if not params:
            continue
        n_funcs += 1
        flow = Flow(m, owner if owner and MAPPER in m.mro(owner) else None,
                    max_depth=4, alias_only=True)
        npos = len(fd.args.posonlyargs + fd.args.args) - (
            1 if owner and len(params) < len(fd.args.posonlyargs + fd.args.args)
            + (1 if fd.args.vararg else 0) else 0)
        roots = tuple(f"${p}" for p in params[:npos])
        try:
            s = flow.function(fd, None, roots=roots, owner=owner or "@" + mi.name,
                              selfcls=owner)
        except RecursionError:
            raise AnalysisError(f"flow analysis did not terminate on {m.qualname(fd)}")
        qn = m.qualname(fd).replace("pytato.", "", 1)
        muts = []
        # the hash object handed to a key updater is an accumulator by contract
        # (pytools: update_for_<type>(key_hash, key) / update_persistent_hash(
        # key_hash, key_builder)): feeding it is not a mutation of an input
        accum = set()
        if fd.name.startswith("update_for_") or fd.name == "update_persistent_hash":
            accum = {f"${params[0]}"} if params else set()
        # a private helper that is handed its caller's OWN table (every call site
        # passes `self.<attr>` or a container the caller created itself) fills that
        # table on the caller's behalf: the table is no input of the transformation
        if fd.name.startswith("_") and not fd.name.startswith("__"):
            accum |= {f"${q}" for q in _own_state_params(m, mi, fd)}
        for e in s.muts:
            real = frozenset(x for x in e.value if not x[0].startswith("~")
                             and x[0] != "__mapper__" and x[0] not in accum)
            if real:
                e.value = real
                muts.append(e)
        if not muts and not canary:
            c.ok(rule, qn, "no-mutation-through-parameters", m.loc(mi, fd),
                 nontrivial=False)
        for e in muts:
            tgt = fmt_paths({(r.lstrip("$"),) + p for (r, p, _f) in e.value})
            hits.append((qn, e, tgt))
            if not canary:
                c.violation(
                    rule, qn, f"{e.how}:{m.frag(e.node, 70)}",
                    m.loc(m.module_of(e.node), e.node),
                    f"{e.how} on a value reachable from parameter(s) {tgt}: a "
                    "transformation/analysis must not write to the graph or the "
                    "data it was given", facts={"derived_from": tgt})
    return n_funcs, hits


def r_nomut(c):
    m = c.model
    n, _ = nomut_scan(m, NOMUT_MODULES, c)
    c.units["functions_effect_analysed"] = n
    if n < 210:
        raise AnalysisError(f"only {n} functions effect-analysed (floor 210)")
    # canary: the fixture must be flagged on every run
    from pathlib import Path
    fx = Path(__file__).resolve().parent.parent / "fixtures" / "nomut"
    fm = Model(fx, package="fixpkg")
    _n, hits = nomut_scan(fm, list(fm.modules), c, canary=True)
    want = {"store-attr", "call:append", "store-subscript", "augassign", "setattr"}
    got = {e.how for (_q, e, _t) in hits}
    if not want <= got:
        raise AnalysisError(f"R05-NOMUT canary silent: expected {sorted(want)}, "
                            f"flagged {sorted(got)}")
    c.ok("R05-NOMUT", "canary fixtures/nomut", "flagged:" + ",".join(sorted(got)),
         "pta/fixtures/nomut", nontrivial=False)


# ----------------------------------------------------------------- R05-REBUILD
def _is_rootpath(val, path, rec=None):
    return any(p == path and (rec is None or f == rec) for (r, p, f) in val
               if r == "expr")


def r_rebuild(c):
    m = c.model
    kinds = concrete_kinds(m)
    for mapper in (COPY, COPYX):
        flow = Flow(m, mapper, max_depth=8)
        for k in kinds:
            mm = handler_name(m, mapper, k)
            if mm is None:
                continue
            s = flow.handler(mm, k)
            if s.raises_only:
                continue
            hname = f"{short(mapper)}.{mm}"
            ch = child_paths(m, k)
            n_ctor = 0
            for ev in s.ctors:
                where = m.loc(m.module_of(ev.node), ev.node)
                recv = strip_markers(paths_of(ev.recv, "expr"))
                if ev.kind in ("replace_if_different", "replace"):
                    if not recv:
                        continue
                    base = sorted(recv, key=len)[0]
                    n_ctor += 1
                    for kw, val in ev.kwargs.items():
                        if kw is None:
                            continue
                        fld = "_data" if (kw == "data" and short(k) ==
                                          "DictOfNamedArrays") else kw
                        want = base + (fld,)
                        vp = {p for p in strip_markers(paths_of(val, "expr"))
                              if p != (NAMED,)}      # keys of a named container
                        inst = f"{short(k)}.{'.'.join(want)}"
                        good = bool(vp) and all(p[:len(want)] == want for p in vp)
                        c.check(good, "R05-REBUILD", hname, inst, where,
                                f"keyword {kw}= of the rebuilt {short(k)} is derived "
                                f"from {fmt_paths(vp)}, expected only "
                                f"{'.'.join(want)}: fields are swapped or mixed",
                                facts={"value_paths": fmt_paths(vp)})
                        if want in ch:
                            went = any(f for (r, p, f) in val if r == "expr")
                            c.check(went, "R05-REBUILD", hname, inst + ":recursed",
                                    where,
                                    f"{kw}= is rebuilt from the original child without "
                                    "going through self.rec")
                        elif not any(q[:len(want)] == want for q in ch):
                            c.violation(
                                "R05-REBUILD", hname, inst + ":non-child-replaced",
                                where,
                                f"identity copy replaces the non-child field {kw}")
                elif ev.kind in ("class", "type(self)", "copy") and (
                        ev.cls is None or ev.cls in m.kinds(False)):
                    if ev.kind == "class" and ev.cls not in m.kinds(False):
                        continue
                    if ev.kind in ("copy", "type(self)") and () not in recv:
                        continue
                    c.violation(
                        "R05-IDENTITY", hname, f"{short(k)}:{m.frag(ev.node, 50)}",
                        where,
                        "identity copy constructs a node directly instead of "
                        "replace_if_different: the argument is never returned as is "
                        "and duplicates are created")
            # R05-IDENTITY: what is returned is the node (possibly rebuilt) or a
            # memoised lookup on the recursed container
            for (rn, val) in s.rets:
                where = m.loc(m.module_of(rn), rn)
                vp = paths_of(val, "expr")
                ok = () in vp or any(
                    f and "_container" in p for (r, p, f) in val if r == "expr")
                c.check(ok, "R05-IDENTITY", hname, f"{short(k)}:return", where,
                        f"returns a value derived from {fmt_paths(vp)} rather than "
                        "the node itself / its replace_if_different")


def r_rebuild_guard(c):
    """embedded dataclass rebuilt under an identity test: every replaced
    component takes part in the test"""
    m = c.model
    n = 0
    for mi, fd in m.all_functions():
        for iff in ast.walk(fd):
            if not isinstance(iff, ast.If):
                continue
            reps = [x for s in iff.body for x in ast.walk(s)
                    if isinstance(x, ast.Call) and ast.unparse(x.func) in (
                        "dataclasses.replace", "replace") and x.keywords and x.args]
            if not reps or "is not" not in ast.unparse(iff.test):
                continue
            tested = set()
            for cmp_ in ast.walk(iff.test):
                if isinstance(cmp_, ast.Compare) and isinstance(cmp_.ops[0], ast.IsNot):
                    for side in (cmp_.left, cmp_.comparators[0]):
                        if isinstance(side, ast.Attribute):
                            tested.add(ast.unparse(side))
            for rep in reps:
                base = ast.unparse(rep.args[0])
                n += 1
                for kw in rep.keywords:
                    c.check(f"{base}.{kw.arg}" in tested, "R05-REBUILD-GUARD",
                            m.qualname(fd).replace("pytato.", "", 1),
                            f"{base}.{kw.arg}", m.loc(mi, rep),
                            f"{base} is rebuilt with a new {kw.arg} only if one of "
                            f"{sorted(tested)} changed: a change to {kw.arg} alone is "
                            "silently dropped")
    if n < 2:
        raise AnalysisError(f"only {n} guarded embedded rebuilds found (floor 2)")


def r_keys(c):
    """mappings are rebuilt under their own keys"""
    m = c.model
    n = 0
    for mapper in [COPY, COPYX, MPMS] + m.subclasses(COPY, strict=True) \
            + m.subclasses(COPYX, strict=True):
        ci = m.classes[mapper]
        for mn, fd in ci.methods.items():
            for dc in ast.walk(fd):
                if not isinstance(dc, ast.DictComp) or len(dc.generators) != 1:
                    continue
                g = dc.generators[0]
                it = g.iter
                while isinstance(it, ast.Call) and isinstance(it.func, ast.Name) \
                        and it.func.id in ("sorted", "list", "tuple", "enumerate"):
                    if it.func.id == "enumerate":
                        break
                    it = it.args[0]
                if isinstance(it, ast.Call) and isinstance(it.func, ast.Name) \
                        and it.func.id == "zip" and len(it.args) >= 2 and any(
                            ast.unparse(a).startswith(("expr", "rec_")) for a in it.args):
                    # keys paired with values BY POSITION: only right if both
                    # sequences were produced in the same order, which a mapping's
                    # creation order and a sorted traversal are not
                    srcs = [ast.unparse(a) for a in it.args]
                    same = len({s_.split(".")[0] + "." + s_.split(".")[1].split("(")[0]
                                for s_ in srcs if "." in s_}) == 1 and all("." in s_ for s_ in srcs)
                    n += 1
                    c.check(same, "R05-KEYS", f"{short(mapper)}.{mn}",
                            f"zip:{m.frag(it, 40)}", m.loc(ci.module, dc),
                            f"a mapping is rebuilt by zipping `{srcs[0]}` with `{srcs[1]}`: "
                            "keys and values are paired by position although the two "
                            "sequences are ordered differently (creation order vs. sorted "
                            "traversal), so operands end up under each other's names")
                    continue
                if not (isinstance(it, ast.Call) and isinstance(it.func, ast.Attribute)
                        and it.func.attr == "items"
                        and isinstance(g.target, ast.Tuple)
                        and len(g.target.elts) == 2
                        and isinstance(g.target.elts[0], ast.Name)):
                    continue
                src = ast.unparse(it.func.value)
                if not (src.startswith("expr") or src.startswith("rec_")):
                    continue
                n += 1
                keyname = g.target.elts[0].id
                c.check(isinstance(dc.key, ast.Name) and dc.key.id == keyname,
                        "R05-KEYS", f"{short(mapper)}.{mn}", f"{src}:{m.frag(dc.key, 30)}",
                        m.loc(ci.module, dc),
                        f"mapping {src} is rebuilt under key `{m.frag(dc.key, 40)}` "
                        f"instead of its own key `{keyname}`: output / binding names "
                        "change")
    if n < 10:
        raise AnalysisError(f"only {n} mapping rebuilds found (floor 10)")


# ----------------------------------------------------------------- R05-TAGONLY
TAG_APIS = ("with_tagged_reduction", "copy", "_with_new_tags", "with_tagged_axis")


def r_tagonly(c):
    m = c.model
    n = 0
    for k in m.kinds(False) + ["pytato.array.CSRMatrix", "pytato.distributed.nodes.DistributedSend"]:
        if k not in m.classes:
            continue
        ci = m.classes[k]
        for mn in TAG_APIS:
            if mn not in ci.methods:
                continue
            fd = ci.methods[mn]
            local = {}
            for st in ast.walk(fd):
                if isinstance(st, ast.Assign):
                    for t in st.targets:
                        if isinstance(t, ast.Name):
                            local.setdefault(t.id, []).append(st.value)
            def derived_from_self(v, f):
                srcs = [ast.unparse(v)]
                seen = set()
                work = [v]
                while work:
                    x = work.pop()
                    for nm in ast.walk(x):
                        if isinstance(nm, ast.Name) and nm.id in local and nm.id not in seen:
                            seen.add(nm.id)
                            for d in local[nm.id]:
                                srcs.append(ast.unparse(d))
                                work.append(d)
                # for a mapping/sequence field the whole old value has to take part
                # (dict(self.f), {**self.f}, (*self.f[:i], x, *self.f[i+1:]) ...), not
                # just one element self.f[k]
                whole = False
                nodes = [v] + [d for nm_ in seen for d in local[nm_]]
                for root in nodes:
                    for a in ast.walk(root):
                        if isinstance(a, ast.Attribute) and ast.unparse(a) == f"self.{f}":
                            par = getattr(a, "_parent", None)
                            if not (isinstance(par, ast.Subscript) and par.value is a
                                    and not isinstance(par.slice, ast.Slice)):
                                whole = True
                ann = ast.unparse(m.fields(k)[f][0]) if f in m.fields(k) else ""
                container = any(t in ann for t in ("Mapping", "tuple[", "dict", "AxesT"))
                ok_ = any(f"self.{f}" in s_ for s_ in srcs) and (whole or not container)
                return ok_, srcs[0]
            # partial rebuilds: self.copy(f=v) / dataclasses.replace(self, f=v)
            for call in ast.walk(fd):
                if not isinstance(call, ast.Call):
                    continue
                fsrc = ast.unparse(call.func)
                partial = (fsrc == "self.copy") or (
                    fsrc in ("dataclasses.replace", "replace") and call.args
                    and ast.unparse(call.args[0]) == "self")
                if not partial or mn == "copy":
                    continue
                n += 1
                for kw in call.keywords:
                    if kw.arg is None or kw.arg not in m.fields(k):
                        continue
                    okd, src0 = derived_from_self(kw.value, kw.arg)
                    # a bare parameter (tags=tags) is the new value itself: fine for
                    # the field the API is about
                    is_param = isinstance(kw.value, ast.Name) and kw.value.id in [
                        a.arg for a in fd.args.args]
                    c.check(okd or is_param, "R05-TAGONLY", f"{short(k)}.{mn}",
                            f"{short(k)}.{kw.arg}:partial-rebuild", m.loc(ci.module, call),
                            f"{kw.arg}= of the rebuilt node is `{src0[:60]}`, which is not "
                            f"derived from self.{kw.arg}: the other entries of that field "
                            "are dropped by the tag API")
            for call in ast.walk(fd):
                if not (isinstance(call, ast.Call) and isinstance(call.func, ast.Call)
                        and ast.unparse(call.func) == "type(self)"):
                    continue
                n += 1
                kws = {kw.arg: kw.value for kw in call.keywords if kw.arg}
                init = m.init_order(k)
                for i, a in enumerate(call.args):
                    if i < len(init):
                        kws[init[i]] = a
                for f in m.fields(k):
                    inst = f"{short(k)}.{f}"
                    where = m.loc(ci.module, call)
                    if f not in kws:
                        c.violation(
                            "R05-TAGONLY", f"{short(k)}.{mn}", inst, where,
                            f"the rebuilt {short(k)} is not given {f}: it silently "
                            "falls back to the default (or fails), so the tag API "
                            "changes more than tags")
                        continue
                    v = kws[f]
                    srcs = [ast.unparse(v)]
                    seen = set()
                    work = [v]
                    while work:
                        x = work.pop()
                        for nm in ast.walk(x):
                            if isinstance(nm, ast.Name) and nm.id in local \
                                    and nm.id not in seen:
                                seen.add(nm.id)
                                for d in local[nm.id]:
                                    srcs.append(ast.unparse(d))
                                    work.append(d)
                    ok = any(f"self.{f}" in s_ for s_ in srcs)
                    c.check(ok, "R05-TAGONLY", f"{short(k)}.{mn}", inst, where,
                            f"{f}= of the rebuilt node is `{srcs[0][:60]}`, not derived "
                            f"from self.{f}")
    if n < 2:
        raise AnalysisError(f"only {n} tag-API rebuilds found (floor 2)")
    # tag-adding transformations create nodes only through tag APIs /
    # child-preserving replace_if_different
    tagonly = [MPMS, "pytato.transform.metadata.AxisTagAttacher",
               "pytato.transform.calls.InlineMarker"]
    kinds = set(m.kinds(False))
    for cls in tagonly:
        ci = m.cls(cls)
        for mn, fd in ci.methods.items():
            for call in ast.walk(fd):
                if not isinstance(call, ast.Call):
                    continue
                f = call.func
                bad = None
                if isinstance(f, (ast.Name, ast.Attribute)):
                    qn = m.resolve_name(ci.module.name, ast.unparse(f)) \
                        if isinstance(f, ast.Name) else None
                    if qn in kinds:
                        bad = f"constructs {short(qn)} directly"
                    if isinstance(f, ast.Attribute) and f.attr == "copy" \
                            and ast.unparse(f.value).startswith(("expr", "result")):
                        bad = "uses .copy(...) (arbitrary field change)"
                if isinstance(f, ast.Call) and ast.unparse(f).startswith("type("):
                    bad = "constructs type(...)(...) directly"
                if bad:
                    c.violation("R05-TAGONLY", f"{short(cls)}.{mn}",
                                m.frag(call, 50), m.loc(ci.module, call),
                                f"tag-only transformation {bad}")
            c.ok("R05-TAGONLY", f"{short(cls)}.{mn}", "creates-nodes-only-via-tag-apis",
                 m.loc(ci.module, fd), nontrivial=False)
    fd = m.func("pytato.transform.materialize._materialize_if_mpms")
    tg = [x for x in ast.walk(fd) if isinstance(x, ast.Call)
          and isinstance(x.func, ast.Attribute) and x.func.attr == "tagged"]
    c.check(len(tg) == 1 and ast.unparse(tg[0].func.value) == fd.args.args[0].arg
            and has(tg[0], "ImplStored()"), "R05-TAGONLY",
            "_materialize_if_mpms", "materialises-by-tagging-expr",
            m.loc(m.module_of(fd), fd),
            "materialisation no longer consists of tagging the node itself with "
            "ImplStored")


def r_ident_keyed(c):
    """identity shortcut of replace_if_different compares mappings by key"""
    m = c.model
    fds = [("_entries_are_identical", m.func("pytato.array._entries_are_identical"))]
    from pta.rules.c04 import _augment_templates
    for tree, _g, _n in _augment_templates(m):
        for f in ast.walk(tree):
            if isinstance(f, ast.FunctionDef) and "identical" in f.name:
                fds.append(("generated " + f.name, f))
    if len(fds) < 2:
        raise AnalysisError("anchor vanished: generated entries-identical helper")
    aug = m.func("pytato.array._augment_array_dataclass")
    for name, fd in fds:
        where = m.loc("pytato.array", fd if name[0] == "_" else aug)
        br = None
        for n in ast.walk(fd):
            if isinstance(n, ast.If) and "Mapping" in ast.unparse(n.test):
                br = n
        if br is None:
            c.violation("R05-IDENT-KEYED", name, "mapping-branch", where,
                        "no separate treatment of mappings in the identity check")
            continue
        body_src = " ".join(ast.unparse(s) for s in br.body)
        positional = any(isinstance(x, ast.Call) and isinstance(x.func, ast.Name)
                         and x.func.id == "zip" and "values()" in ast.unparse(x)
                         for s in br.body for x in ast.walk(s))
        pa, pb = fd.args.args[0].arg, fd.args.args[1].arg
        blk = ast.Module(body=br.body, type_ignores=[])
        keyed = any(has(blk, f"{x}.keys() == {y}.keys() and "
                             f"all(({y}[$k] is $v for $k, $v in {x}.items()))")
                    or has(blk, f"{x}.keys() == {y}.keys() and "
                                f"all(($v is {y}[$k] for $k, $v in {x}.items()))")
                    or has(blk, f"{x}.keys() == {y}.keys() and "
                                f"all(({x}[$k] is {y}[$k] for $k in {x}))")
                    for x, y in ((pa, pb), (pb, pa)))
        c.check(keyed and not positional,
                "R05-IDENT-KEYED", name, "mapping-branch", where,
                "mapping values are compared positionally (zip of .values()): a "
                "rebuilt mapping with another insertion order is never recognised as "
                "identical, so identity copies create new nodes")
    # rebuilt sequences are compared element-wise by identity
    for name, fd in fds:
        pa, pb = fd.args.args[0].arg, fd.args.args[1].arg
        c.check(any(has(fd, f"len({pa}) == len({pb}) and "
                            f"all(({l} is {r} for $x, $y in zip({pa}, {pb}, strict=True)))")
                    for l, r in (("$x", "$y"), ("$y", "$x"))), "R05-IDENT-KEYED", name,
                "sequence-branch", m.loc("pytato.array", fd if name[0] == "_" else aug),
                "sequence entries are no longer compared by identity and length")


def r_dedup_key(c):
    """DataWrapperDeduplicator: key identifies an ndarray *view*"""
    m = c.model
    fd = m.func("pytato.transform.DataWrapperDeduplicator._get_data_dedup_cache_key")
    where = m.loc(m.module_of(fd), fd)
    fd = m.normal(fd)       # key components held in locals are propagated
    tuples = [r.value for r in ast.walk(fd) if isinstance(r, ast.Return)
              and isinstance(r.value, ast.Tuple)]
    if len(tuples) < 2:
        raise AnalysisError("anchor vanished: dedup cache key tuples")
    need_np = {"__array_interface__": "data pointer", "shape": "shape",
               "strides": "strides", "dtype": "dtype"}
    for t in tuples:
        src = [ast.unparse(e) for e in t.elts]
        is_np = any("__array_interface__" in s for s in src)
        need = need_np if is_np else {"ptr": "pointer", "offset": "offset",
                                      "shape": "shape", "strides": "strides",
                                      "dtype": "dtype"}
        for token, what in need.items():
            c.check(any(token in s for s in src), "R05-DEDUP-KEY",
                    "DataWrapperDeduplicator._get_data_dedup_cache_key",
                    f"{'ndarray' if is_np else 'clarray'}:{what}", m.loc(m.module_of(t), t),
                    f"the de-duplication key omits the {what}: two different views of "
                    "one buffer would be merged into one data wrapper")
    # map_data_wrapper returns the first wrapper seen for the key, never writes data
    fd = m.func("pytato.transform.DataWrapperDeduplicator.map_data_wrapper")
    ep = fd.args.args[1].arg
    c.check(has(fd, f"""
$k = self._get_data_dedup_cache_key({ep}.data)
try:
    return self.data_wrapper_cache[$k]
except KeyError:
    self.data_wrapper_cache[$k] = {ep}
    return {ep}
""") or has(m.expand_locals(fd), f"return self.data_wrapper_cache.setdefault("
                               f"self._get_data_dedup_cache_key({ep}.data), {ep})"),
            "R05-DEDUP-KEY",
            "DataWrapperDeduplicator.map_data_wrapper", "first-seen-wrapper-wins",
            m.loc(m.module_of(fd), fd),
            "the de-duplicator no longer maps equal-key wrappers to the first one seen")


def _is_filtered(n):
    if isinstance(n, (ast.GeneratorExp, ast.ListComp)):
        return any(g.ifs for g in n.generators)
    if isinstance(n, ast.Call) and isinstance(n.func, ast.Name):
        if n.func.id == "filter":
            return True
        if n.func.id in ("tuple", "list") and n.args:
            return _is_filtered(n.args[0])
    return False


def r_position(c):
    """positions of a node's sequence field are counted in the field itself: an
    enumerate() over a filtered view numbers the survivors 0,1,2.., which are not
    the positions the rebuilt node (or a later lookup by position) uses"""
    m = c.model
    mods = [x for x in m.modules if x.startswith("pytato.transform")
            or x in ("pytato.codegen", "pytato.distributed.partition")]
    n = 0
    for mi, fd in m.all_functions(modules=mods):
        if m.enclosing_function(fd) is not None:
            continue
        params = [a.arg for a in fd.args.args[1:2]]
        if not params:
            continue
        ep = params[0]
        for call in ast.walk(fd):
            if not (isinstance(call, ast.Call) and isinstance(call.func, ast.Name)
                    and call.func.id == "enumerate" and call.args):
                continue
            arg = call.args[0]
            # over (something derived from) a field of the node at hand?
            if not any(isinstance(x, ast.Attribute) and isinstance(x.value, ast.Name)
                       and x.value.id == ep for x in ast.walk(arg)):
                continue
            n += 1
            qn = m.qualname(fd).replace("pytato.", "", 1)
            c.check(not _is_filtered(arg), "R05-POSITION", qn,
                    f"enumerate-over-the-whole-field:{m.frag(arg, 40)}", m.loc(mi, call),
                    f"`enumerate({m.frag(arg, 50)})` numbers only the entries that pass the "
                    "filter: these numbers are positions among the survivors, not positions "
                    f"in {ep}'s field, so results keyed by them are written back into the "
                    "wrong slots when the node is rebuilt")
    if n < 2:
        raise AnalysisError(f"only {n} enumerate() sites over node fields found (floor 2)")


def r_state(c):
    """a transformation is a function of the graph it is given: nothing it builds a
    result from may be shared with earlier calls (a module-level dict handed out as
    "the empty bindings" is filled by the first lowering that writes into it)"""
    from pta.rules.common import check_no_shared_state
    mods = [x for x in c.model.modules if x.startswith("pytato.transform")
            or x in ("pytato.utils", "pytato.codegen", "pytato.array", "pytato.scalar_expr")]
    check_no_shared_state(
        c, "R05-STATE", mods,
        "the result of a transformation depends on which graphs were transformed "
        "earlier in the process", floor_funcs=300)


# ----------------------------------------------------------------- R05-CROSSED
def _field_sources(fd, e, depth=0, seen=None):
    """last attribute names of the attribute chains an expression is computed from,
    following locals bound once (rec_a = self.rec(expr.m.a); K(a=rec_a.expr) -> {a})"""
    seen = seen or set()
    out = set()

    def chain_root(a):
        while isinstance(a, ast.Attribute):
            a = a.value
        return a
    stack = [e]
    while stack:
        n = stack.pop()
        if isinstance(n, ast.Attribute):
            root = chain_root(n)
            if isinstance(root, ast.Name) and root.id in _local_defs(fd) and depth < 4:
                # an attribute of a local (acc.expr): what the local was computed from
                if root.id not in seen:
                    for v in _local_defs(fd)[root.id]:
                        out |= _field_sources(fd, v, depth + 1, seen | {root.id})
            elif isinstance(root, ast.Name):
                out.add(n.attr)
            else:
                stack.append(root)
            continue
        if isinstance(n, ast.Name):
            d = _local_defs(fd).get(n.id)
            if d and depth < 4 and n.id not in seen:
                for v in d:
                    out |= _field_sources(fd, v, depth + 1, seen | {n.id})
            continue
        if isinstance(n, ast.Call):
            # the receiver of a method call is not a source (self.rec(..)), arguments are
            stack.extend(n.args)
            stack.extend(k.value for k in n.keywords)
            if not isinstance(n.func, (ast.Name, ast.Attribute)):
                stack.append(n.func)
            continue
        stack.extend(ast.iter_child_nodes(n))
    return out


_LD_CACHE: dict = {}


def _local_defs(fd):
    d = _LD_CACHE.get(id(fd))
    if d is None:
        d = {}
        params = {a.arg for a in fd.args.posonlyargs + fd.args.args + fd.args.kwonlyargs}
        for a in ast.walk(fd):
            if isinstance(a, (ast.Assign, ast.AnnAssign)) and a.value is not None:
                for t in (a.targets if isinstance(a, ast.Assign) else [a.target]):
                    if isinstance(t, ast.Name) and t.id not in params:
                        d.setdefault(t.id, []).append(a.value)
        _LD_CACHE[id(fd)] = d
    return d


def crossed_scan(m):
    """[(function, call, f, g)]: a call with keywords f and g where f's value is
    computed from field g only and g's value from field f only"""
    hits, n_calls = [], 0
    for mi, fd in m.all_functions():
        if m.enclosing_function(fd) is not None:
            continue
        for call in ast.walk(fd):
            if not isinstance(call, ast.Call):
                continue
            kws = [k for k in call.keywords if k.arg is not None]
            if len(kws) < 2:
                continue
            n_calls += 1
            names = {k.arg for k in kws}
            src = {}
            for k in kws:
                s_ = _field_sources(fd, k.value)
                src[k.arg] = s_ & names      # only sources that are sibling keywords count
            for k in kws:
                f = k.arg
                if len(src[f]) == 1:
                    g = next(iter(src[f]))
                    if g != f and src.get(g) == {f} and f < g:
                        hits.append((mi, fd, call, f, g))
    return n_calls, hits


def r_crossed(c):
    """a node (or any record) rebuilt field by field receives every field from its
    own counterpart: `K(a=<from .b>, b=<from .a>)` -- two parts of one node handed to
    each other's keyword -- type-checks whenever the two have the same type (the
    index arrays of a sparse matrix, the two operands of a binary node) and changes
    the value of the transformed graph"""
    m = c.model
    n_calls, hits = crossed_scan(m)
    c.units["keyword_calls_scanned"] = n_calls
    if n_calls < 200:
        raise AnalysisError(f"only {n_calls} calls with keywords scanned (floor 200)")
    flagged = set()
    for mi, fd, call, f, g in hits:
        qn = m.qualname(fd).replace("pytato.", "", 1)
        flagged.add(id(call))
        c.violation("R05-CROSSED", qn, f"{m.frag(call.func, 40)}:{f}<->{g}",
                    m.loc(mi, call),
                    f"keyword `{f}` is computed from field `{g}` and keyword `{g}` from field "
                    f"`{f}`: the two parts are handed to each other's place, the rebuilt "
                    "node is not the node that was given")
    c.ok("R05-CROSSED", "pytato", f"{n_calls} keyword calls, no crossed pair"
         if not hits else f"{n_calls} keyword calls", "pytato/", nontrivial=False)
    # canary: the fixture's swapped call must be flagged, the straight one not
    from pathlib import Path
    fm = Model(Path(__file__).resolve().parent.parent / "fixtures" / "crossed", package="fixpkg")
    _n, fh = crossed_scan(fm)
    got = sorted(fd.name for (_mi, fd, _c, _f, _g) in fh)
    if got != ["map_swapped"]:
        raise AnalysisError(f"R05-CROSSED canary: expected ['map_swapped'], flagged {got}")
    c.ok("R05-CROSSED", "canary fixtures/crossed", "flagged:map_swapped",
         "pta/fixtures/crossed", nontrivial=False)


def r_no_hash_keys(c):
    """(shared rule, pta/rules/common.py) no table of the transformation modules is
    keyed by hash(object)"""
    from pta.rules.common import check_no_hash_keyed_tables
    n = check_no_hash_keyed_tables(c, "R05-KEYS", NOMUT_MODULES)
    c.ok("R05-KEYS", "transformation modules", f"{n} functions: no table keyed by hash()",
         "pytato/", nontrivial=False)
    if n < 200:
        raise AnalysisError(f"only {n} functions scanned for hash-keyed tables (floor 200)")


SPEC = Spec(
    prop="C05",
    rules=[r_nomut, r_rebuild, r_rebuild_guard, r_keys, r_tagonly, r_ident_keyed,
           r_dedup_key, r_position, r_state, r_crossed,
           r_no_hash_keys],
    floors={"R05-NOMUT": 300, "R05-REBUILD": 60, "R05-IDENTITY": 31,
            "R05-REBUILD-GUARD": 5, "R05-KEYS": 10, "R05-TAGONLY": 40,
            "R05-IDENT-KEYED": 2, "R05-DEDUP-KEY": 7, "R05-POSITION": 3, "R05-STATE": 8},
    explanation=(
        "R05-NOMUT: effect analysis (access-path flow) of every function and method "
        "of the transformation/analysis modules: no attribute/subscript store, "
        "augmented assignment, delete, setattr or mutating method call on a value "
        "reachable from a parameter (wrapped .data included); own attributes and "
        "locally created containers are the only sinks; a canary fixture must be "
        "flagged on every run. R05-REBUILD: in every CopyMapper / "
        "CopyMapperWithExtraArgs handler each keyword f= of replace_if_different / "
        "dataclasses.replace derives from expr.f only, went through self.rec for "
        "child fields, and only child fields are replaced. R05-IDENTITY: copy "
        "handlers return the node / its replace_if_different and never construct "
        "nodes directly. R05-REBUILD-GUARD: an embedded dataclass rebuilt under an "
        "identity test tests every replaced component. R05-KEYS: mappings are "
        "rebuilt under their own iteration key. R05-TAGONLY: hand-written rebuilds "
        "behind tag APIs pass every field from self, tag-only transformations "
        "create nodes only through tag APIs. R05-IDENT-KEYED: the identity shortcut "
        "compares mappings by key. R05-DEDUP-KEY: the data-wrapper de-duplication "
        "key identifies a view (pointer, shape, strides, dtype). R05-POSITION: "
        "enumerate() over a node's sequence field runs over the whole field, never "
        "over a filtered view (positions among survivors are not positions in the "
        "field). R05-KEYS also: a mapping is never rebuilt by zipping its key sequence "
        "with a separately ordered value sequence. R05-STATE: the transformation "
        "modules keep no state that outlives a call and hand out no module-level "
        "container (canary fixture). R05-CROSSED: in no call of the package are two "
        "keywords computed from each other's field (K(a=<from .b>, b=<from .a>), "
        "following locals; canary fixture). R05-KEYS also: no table is keyed by "
        "hash(object) (distinct objects can share a hash)."),
    not_decided=(
        "Value preservation for all inputs; idempotence of deduplicate / dead-code "
        "elimination / MPMS; positional correctness inside a rebuilt tuple "
        "(e.g. which index array goes to which position)."),
)
