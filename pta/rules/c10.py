"""C10 -- mismatched or cyclic communication is diagnosed (code-shape conditions)."""
from __future__ import annotations

import ast

from pta import paths as P
from pta.pat import find, has
from pta.check import Spec
from pta.model import AnalysisError
from pta.rules.common import short

D = "pytato.distributed."
ENTRY = [D + "partition.find_distributed_partition", D + "verify.verify_distributed_partition"]
DIAGS = ["DuplicateSendError", "DuplicateRecvError", "MissingSendError", "MissingRecvError",
         "CycleError", "PartitionInducedCycleError"]


def call_graph(m, roots, depth=6):
    """functions reachable from roots (name-based resolution inside the
    distributed package, mapper classes instantiated included)"""
    seen = {}
    work = [(r, 0) for r in roots]
    while work:
        qn, d = work.pop()
        if qn in seen or d > depth:
            continue
        try:
            fd = m.func(qn)
        except AnalysisError:
            continue
        seen[qn] = fd
        mi = m.module_of(fd)
        for call in ast.walk(fd):
            if not isinstance(call, ast.Call):
                continue
            f = call.func
            nm = ast.unparse(f)
            tgt = None
            if isinstance(f, ast.Name):
                tgt = m.resolve_name(mi.name, f.id)
            elif isinstance(f, ast.Attribute) and isinstance(f.value, ast.Name) \
                    and f.value.id == "self":
                cls = m.enclosing_class(fd)
                if cls is not None:
                    cq = next((q for q, ci in m.classes.items() if ci.node is cls), None)
                    r = m.resolve_method(cq, f.attr) if cq else None
                    if r:
                        tgt = f"{r[0]}.{f.attr}"
            if tgt in m.classes:
                # instantiating a mapper: all its handlers become reachable
                for c2 in m.mro(tgt):
                    if c2.startswith(D):
                        for mn in m.classes[c2].methods:
                            work.append((f"{c2}.{mn}", d + 1))
            elif tgt:
                work.append((tgt, d + 1))
    return seen


def r_raise_reach(c):
    m = c.model
    cg = call_graph(m, ENTRY)
    c.units["call_graph_functions"] = len(cg)
    if len(cg) < 15:
        raise AnalysisError(f"call graph from the entry points has only {len(cg)} functions")
    raised = {}
    for qn, fd in cg.items():
        for r in ast.walk(fd):
            if isinstance(r, ast.Raise) and r.exc is not None:
                t = ast.unparse(r.exc.func) if isinstance(r.exc, ast.Call) else ast.unparse(r.exc)
                raised.setdefault(t.split(".")[-1], []).append((qn, r))
    for d in DIAGS:
        sites = raised.get(d, [])
        c.check(bool(sites), "R10-RAISE-REACH", "partition/verify call graph", f"raises:{d}",
                m.loc(m.module_of(sites[0][1]), sites[0][1]) if sites else "",
                f"no raise site for {d} is reachable from find_distributed_partition / "
                "verify_distributed_partition: the condition it reports goes "
                "undiagnosed",
                ok_detail=f"{len(sites)} site(s): " + ", ".join(
                    s[0].replace("pytato.distributed.", "") for s in sites[:3]))
    # self-communication
    for fn, what in (("_send_to_comm_id", "Self-sends"), ("_recv_to_comm_id", "Self-receives")):
        qn = D + "partition." + fn
        fd = m.func(qn)
        ok = qn in cg and any(
            isinstance(i, ast.If) and isinstance(i.test, ast.Compare)
            and isinstance(i.test.ops[0], ast.Eq)
            and fd.args.args[0].arg in (ast.unparse(i.test.left),
                                        ast.unparse(i.test.comparators[0]))
            and any(isinstance(s, ast.Raise) for s in i.body) for i in ast.walk(fd))
        # the test precedes the construction of the identifier
        def cl(n):
            if isinstance(n, ast.Raise):
                return "RAISE"
            if isinstance(n, ast.Call) and ast.unparse(n.func) == "CommunicationOpIdentifier":
                return "MAKE"
            if isinstance(n, ast.Compare) and fd.args.args[0].arg in ast.unparse(n):
                return "TEST"
            return None
        ps = P.walk(fd, cl)
        bad = P.precedes(ps, "TEST", "MAKE")
        c.check(ok and not bad, "R10-SELF", f"distributed.partition.{fn}",
                "rejects-own-rank-before-building-id", m.loc(m.module_of(fd), fd),
                f"{what} are not rejected before the communication identifier is built")
    # none of the diagnostics is swallowed on the way up
    n_h = 0
    for qn, fd in cg.items():
        for h in ast.walk(fd):
            if not isinstance(h, ast.ExceptHandler):
                continue
            t = ast.unparse(h.type) if h.type is not None else "<bare>"
            catches = t in ("<bare>", "Exception", "BaseException") or any(
                d in t for d in DIAGS + ["NotImplementedError", "ValueError"])
            if not catches:
                continue
            n_h += 1
            reraises = any(isinstance(s, ast.Raise) for s in ast.walk(h))
            c.check(reraises, "R10-RAISE-REACH", qn.replace("pytato.", "", 1),
                    f"except {t}:re-raises", m.loc(m.module_of(fd), h),
                    f"a handler for {t} on the partitioning path does not re-raise: a "
                    "diagnostic can be swallowed")
    if n_h < 2:
        raise AnalysisError(f"only {n_h} relevant exception handlers found (floor 2)")


def _self_tbl(n):
    return isinstance(n, ast.Attribute) and isinstance(n.value, ast.Name) and n.value.id == "self"


def _raising_membership_tests(fd):
    """(key text, table text, If) for every `if K in T: ... raise` in fd"""
    out = []

    def own(n):
        """nodes of fd itself, not of the functions nested in it (those are members of
        the scope in their own right)"""
        for ch in ast.iter_child_nodes(n):
            if isinstance(ch, (ast.FunctionDef, ast.AsyncFunctionDef, ast.Lambda)):
                continue
            yield ch
            yield from own(ch)
    for i in own(fd):
        if isinstance(i, ast.If) and isinstance(i.test, ast.Compare) and len(i.test.ops) == 1 \
                and isinstance(i.test.ops[0], ast.In) \
                and any(isinstance(s, ast.Raise) for s in i.body):
            out.append((ast.unparse(i.test.left), ast.unparse(i.test.comparators[0]), i))
    return out


def r_check_before_insert(c):
    m = c.model
    G = D + "partition._LocalSendRecvDepGatherer"
    specs = [(G + ".map_distributed_send_ref_holder", 1, "DuplicateSendError"),
             (G + ".map_distributed_recv", 1, "DuplicateRecvError"),
             (D + "verify.verify_distributed_partition", 2, "Duplicate")]
    for qn, need, err in specs:
        fd = m.func(qn)
        where = m.loc(m.module_of(fd), fd)
        name = qn.replace("pytato.", "", 1)
        # (the function and the private helpers it was split into; each test is then
        # followed through the function it lives in)
        tests = [(k, t, i, f_) for f_ in m.scope(fd)
                 for (k, t, i) in _raising_membership_tests(f_)
                 if any(err in ast.unparse(s) for s in i.body)]
        c.check(len(tests) >= need, "R10-CHECK-BEFORE-INSERT", name,
                f"has-{need}-raising-duplicate-test(s)", where,
                f"fewer than {need} `if key in table: raise {err}...` tests: a duplicate "
                "send/receive identifier is no longer diagnosed")
        for key, tbl, iff, owner in tests:
            def cl(n, tbl=tbl, key=key):
                if isinstance(n, ast.Compare) and len(n.ops) == 1 and isinstance(n.ops[0], ast.In) \
                        and ast.unparse(n.left) == key and ast.unparse(n.comparators[0]) == tbl:
                    return "TEST"
                if isinstance(n, ast.Subscript) and isinstance(n.ctx, ast.Store) \
                        and ast.unparse(n.value) == tbl and ast.unparse(n.slice) == key:
                    return "INSERT"
                if isinstance(n, ast.Call) and ast.unparse(n.func) == f"{tbl}.add" \
                        and n.args and ast.unparse(n.args[0]) == key:
                    return "INSERT"
                if isinstance(n, ast.Call) and isinstance(n.func, ast.Attribute) \
                        and isinstance(n.func.value, ast.Name) and n.func.value.id == "self" \
                        and n.func.attr.startswith("rec"):
                    return "REC"
                return None
            ps = P.walk(owner, cl)
            has_ins = any("INSERT" in e for e, _x in ps)
            bad = []
            for e, _x in ps:
                seen_test = False
                for lab in e:
                    if lab == "TEST":
                        seen_test = True
                    elif lab == "INSERT":
                        if not seen_test:
                            bad.append(e)
                            break
                        seen_test = False
            c.check(has_ins and not bad, "R10-CHECK-BEFORE-INSERT", name,
                    f"{tbl}[{key}]", m.loc(m.module_of(fd), iff),
                    f"the table {tbl} tested for duplicates is not filled under the same "
                    "key right after the test on every path: a duplicate would silently "
                    "overwrite the first entry or the test never sees earlier entries")
            # the test-then-insert window is not re-entrant: a recursion into
            # children between the test and the insertion can reach the same
            # handler with an equal key, pass the (still negative) test and
            # insert; the outer insertion then overwrites it silently
            window = []
            for e, _x in ps:
                open_ = False
                for lab in e:
                    if lab == "TEST":
                        open_ = True
                    elif lab == "INSERT":
                        open_ = False
                    elif lab == "REC" and open_:
                        window.append(e)
                        break
            c.check(not window, "R10-CHECK-BEFORE-INSERT", name,
                    f"{tbl}[{key}]:no-recursion-between-test-and-insert",
                    m.loc(m.module_of(fd), iff),
                    f"between the duplicate test on {tbl} and the insertion under the "
                    "same key the handler recurses into its children: a node with an "
                    "equal identifier nested below passes the test, is inserted and "
                    "then silently overwritten (no Duplicate*Error)")
    # missing send / missing receive
    v = m.func(D + "verify.verify_distributed_partition")
    ms = find(v, """
try:
    $pid = $senders[$id]
except KeyError as $e:
    raise MissingSendError($$msg) from $e
""") + find(v, """
try:
    return $senders[$id]
except KeyError as $e:
    raise MissingSendError($$msg) from $e
""")
    c.check(len(ms) == 1, "R10-CHECK-BEFORE-INSERT",
            "distributed.verify.verify_distributed_partition", "recv-without-send-raises",
            m.loc(m.module_of(v), v), "a receive without a matching send is not diagnosed")
    mr = find(v, """
for $s in $senders:
    if $s not in $recvs:
        raise MissingRecvError($$msg)
""")
    c.check(len(mr) == 1 and (not ms or mr[0]["$senders"] == ms[0]["$senders"]),
            "R10-CHECK-BEFORE-INSERT",
            "distributed.verify.verify_distributed_partition", "send-without-recv-raises",
            m.loc(m.module_of(v), v), "a send without a matching receive is not diagnosed")
    f = m.func(D + "partition.find_distributed_partition")
    a = find(f, "if $r not in $g.local_recv_id_to_recv_node:\n    raise MissingRecvError($$m)")
    b = find(f, "if $s not in $g.local_send_id_to_send_node:\n    raise MissingSendError($$m)")
    c.check(len(a) == 1 and len(b) == 1, "R10-CHECK-BEFORE-INSERT",
            "distributed.partition.find_distributed_partition", "scheduled-ids-exist-locally",
            m.loc(m.module_of(f), f),
            "a communication id scheduled for this rank without a local node is not "
            "diagnosed")


def r_who_may_construct(c):
    """comm identifiers for local nodes are built only by the rejecting helpers"""
    m = c.model
    mi = m.module(D + "partition")
    allowed = {"_send_to_comm_id", "_recv_to_comm_id"}
    n = 0
    for _mi, fd in m.all_functions(modules=[D + "partition"]):
        for call in ast.walk(fd):
            if isinstance(call, ast.Call) and ast.unparse(call.func) == "CommunicationOpIdentifier":
                n += 1
                owner = m.enclosing_function(call)
                c.check(owner is not None and owner.name in allowed, "R10-SELF",
                        m.qualname(fd).replace("pytato.", "", 1),
                        f"constructs-CommunicationOpIdentifier:{m.frag(call, 30)}",
                        m.loc(mi, call),
                        "a communication identifier is built outside _send_to_comm_id / "
                        "_recv_to_comm_id, bypassing the self-communication check")
    if n < 2:
        raise AnalysisError("anchor vanished: CommunicationOpIdentifier constructions")


def r_cycle(c):
    m = c.model
    fd = m.func(D + "partition._calculate_dependency_levels")
    where = m.loc(m.module_of(fd), fd)
    inner = [x for x in ast.walk(fd) if isinstance(x, ast.FunctionDef) and x is not fd][0]
    tid = inner.args.args[0].arg
    cyc = find(inner, f"if {tid} in $seen:\n    raise CycleError($$msg)")
    c.check(len(cyc) == 1, "R10-CYCLE", "distributed.partition._calculate_dependency_levels",
            "revisit-raises-CycleError", where,
            "revisiting a node whose level is unknown does not raise CycleError")
    seen = cyc[0]["$seen"] if cyc else "seen"
    # the table of finished nodes is the one the search stores the node's level in;
    # a finished node is returned from it (`if t in L: return L[t]`, or through
    # `L.get(t)` and a test for None)
    stores = {ast.unparse(a.targets[0].value) for a in ast.walk(inner)
              if isinstance(a, ast.Assign) and isinstance(a.targets[0], ast.Subscript)
              and ast.unparse(a.targets[0].slice) == tid}
    levels = stores.pop() if len(stores) == 1 else "?"

    def reads_levels(n):
        return (isinstance(n, ast.Compare) and ast.unparse(n) == f"{tid} in {levels}") \
            or (isinstance(n, ast.Call) and ast.unparse(n.func) == f"{levels}.get"
                and n.args and ast.unparse(n.args[0]) == tid) \
            or (isinstance(n, ast.Subscript) and isinstance(n.ctx, ast.Load)
                and ast.unparse(n.value) == levels and ast.unparse(n.slice) == tid)
    from_levels = {t.id for a in ast.walk(inner) if isinstance(a, ast.Assign)
                   and reads_levels(a.value) for t in a.targets if isinstance(t, ast.Name)}
    done = [r for i in ast.walk(inner) if isinstance(i, ast.If)
            and (any(reads_levels(x) for x in ast.walk(i.test))
                 or any(isinstance(x, ast.Name) and x.id in from_levels
                        for x in ast.walk(i.test)))
            for r in i.body if isinstance(r, ast.Return) and r.value is not None
            and (reads_levels(r.value) or (isinstance(r.value, ast.Name)
                                           and r.value.id in from_levels))]

    def cl(n):
        if reads_levels(n):
            return "DONE?"
        if isinstance(n, ast.Compare) and ast.unparse(n) == f"{tid} in {seen}":
            return "SEEN?"
        if isinstance(n, ast.Call) and ast.unparse(n.func) == f"{seen}.add":
            return "MARK"
        if isinstance(n, ast.Call) and ast.unparse(n.func) == inner.name:
            return "RECURSE"
        return None
    ps = P.walk(inner, cl)
    bad = P.precedes(ps, "MARK", "RECURSE") + P.precedes(ps, "SEEN?", "MARK") \
        + P.precedes(ps, "DONE?", "SEEN?")
    c.check(bool(done) and not bad and any("RECURSE" in e for e, _x in ps), "R10-CYCLE",
            "distributed.partition._calculate_dependency_levels",
            "done-test-seen-test-mark-recurse", where,
            "the depth-first search does not (1) return finished nodes, (2) test and (3) "
            "mark a node before (4) recursing into its dependencies: a cycle recurses "
            "forever or goes unnoticed")
    f = m.func(D + "partition.find_distributed_partition")
    comm = f.args.args[0].arg
    # exception of the root is broadcast before it is re-raised (R09 checks sequences)
    ok = has(f, f"""
try:
    $b = _schedule_task_batches($$x)
except Exception as $e:
    {comm}.bcast($e)
    raise
else:
    {comm}.bcast($b)
""")
    c.check(ok, "R10-CYCLE", "distributed.partition.find_distributed_partition",
            "root-broadcasts-exception-then-reraises", m.loc(m.module_of(f), f),
            "the root does not broadcast the scheduling exception before re-raising it "
            "(and the schedule otherwise): the other ranks hang in bcast or continue "
            "without a schedule")
    c.check(has(f, f"$r = {comm}.bcast(None)\nif isinstance($r, Exception):\n    raise $r"),
            "R10-CYCLE", "distributed.partition.find_distributed_partition",
            "others-raise-what-they-receive", m.loc(m.module_of(f), f),
            "non-root ranks do not raise the broadcast exception")
    v = m.func(D + "verify.verify_distributed_partition")
    c.check(has(v, """
try:
    compute_topological_order($g)
except CycleError as $e:
    raise PartitionInducedCycleError from $e
"""), "R10-CYCLE", "distributed.verify.verify_distributed_partition",
            "cycle-among-parts-diagnosed", m.loc(m.module_of(v), v),
            "a cycle among the parts of all ranks is not converted into "
            "PartitionInducedCycleError")


def _accumulating_helpers(fd):
    """{helper name: table} for nested functions that add into a dict of sets:
    `T.setdefault(k, set()).add(v)` / `T[k].add(v)`"""
    out = {}
    for h in ast.walk(fd):
        if isinstance(h, ast.FunctionDef) and h is not fd:
            for e in find(h, "$t.setdefault($k, set()).add($v)") + find(h, "$t[$k].add($v)"):
                out[h.name] = e["$t"]
    return out


def r_no_reinit(c):
    """edges accumulated into the part graph are never thrown away: an entry of
    an accumulator table is not (re)assigned after something was added to it"""
    m = c.model
    fd = m.func(D + "verify.verify_distributed_partition")
    helpers = _accumulating_helpers(fd)
    # the accumulator tables: what nested helpers add into, and the graph that is
    # handed to the cycle search
    tables = set(helpers.values()) | {
        x.args[0].id for x in ast.walk(fd) if isinstance(x, ast.Call)
        and ast.unparse(x.func).split(".")[-1] == "compute_topological_order"
        and x.args and isinstance(x.args[0], ast.Name)}
    if not tables:
        raise AnalysisError("anchor vanished: part graph (accumulating helper / argument of "
                            "compute_topological_order) in verify_distributed_partition")
    for tbl in sorted(tables):
        # a set that was stored as an entry of the table is that entry
        aliases = {a.value.id for a in ast.walk(fd) if isinstance(a, ast.Assign)
                   and isinstance(a.targets[0], ast.Subscript)
                   and ast.unparse(a.targets[0].value) == tbl
                   and isinstance(a.value, ast.Name)}

        def cl(n, tbl=tbl, aliases=aliases):
            if isinstance(n, ast.Call) and isinstance(n.func, ast.Name) \
                    and helpers.get(n.func.id) == tbl:
                return "ACC"
            if isinstance(n, ast.Call) and isinstance(n.func, ast.Attribute) \
                    and n.func.attr in ("add", "update") \
                    and isinstance(n.func.value, ast.Name) and n.func.value.id in aliases:
                return "ACC"
            if isinstance(n, ast.Call) and isinstance(n.func, ast.Attribute) \
                    and n.func.attr in ("add", "update") \
                    and isinstance(n.func.value, ast.Subscript) \
                    and ast.unparse(n.func.value.value) == tbl:
                return "ACC"
            if isinstance(n, ast.Subscript) and isinstance(n.ctx, ast.Store) \
                    and ast.unparse(n.value) == tbl:
                return "INIT"
            return None
        # per iteration of the loop(s) that contain an initialisation
        loops = [l for l in ast.walk(fd) if isinstance(l, ast.For) and any(
            isinstance(x, ast.Subscript) and isinstance(x.ctx, ast.Store)
            and ast.unparse(x.value) == tbl for x in ast.walk(l))]
        n_init = 0
        for l in loops:
            if any(l is not o and any(l is x for x in ast.walk(o)) for o in loops):
                continue        # analysed as part of the outer loop
            body = ast.FunctionDef(name="_iteration", args=fd.args, body=l.body,
                                   decorator_list=[], returns=None, lineno=l.lineno,
                                   col_offset=0)
            ps = P.walk(body, cl)
            n_init += 1
            bad = [e for e, _x in ps if "INIT" in e and "ACC" in e
                   and e.index("ACC") < len(e) - 1 - e[::-1].index("INIT")]
            c.check(not bad, "R10-CYCLE", "distributed.verify.verify_distributed_partition",
                    f"{tbl}:no-assignment-after-accumulation", m.loc(m.module_of(fd), l),
                    f"within one iteration an entry of {tbl} is assigned after edges were "
                    "added to it: the edges added before (receive -> sending part) are "
                    "lost and cycles through them are never found")
        if not n_init:
            c.ok("R10-CYCLE", "distributed.verify.verify_distributed_partition",
                 f"{tbl}:no-assignment-after-accumulation", m.loc(m.module_of(fd), fd),
                 "entries are only created by the accumulating helper", nontrivial=False)
    # the allreduce operator that merges the ranks' dependency tables keeps both sides
    u = m.normal(m.func(D + "partition._set_dict_union_mpi"))
    a, b = u.args.args[0].arg, u.args.args[1].arg
    ok = False
    for e in find(u, f"for $k, $v in {b}.items():\n    $r[$k] = $$rhs"):
        rhs = e["@node"].body[0].value
        if has(u, f"{e['$r']} = dict({a})") and isinstance(rhs, ast.BinOp) \
                and isinstance(rhs.op, ast.BitOr):
            sides = {ast.unparse(rhs.left), ast.unparse(rhs.right)}
            ok = sides == {e["$v"], f"{e['$r']}.get({e['$k']}, FrozenOrderedSet())"}
    c.check(ok, "R10-CYCLE", "distributed.partition._set_dict_union_mpi", "key-wise-union",
            m.loc(m.module_of(u), u),
            "the reduction operator is not result[k] = result.get(k, empty) | values for "
            "every entry of the second table: dependencies known to one rank only are "
            "dropped and a cross-rank cycle goes unnoticed")


def r_global_guards(c):
    """whether a rank walks the globally agreed schedule does not depend on
    what that rank has locally: the comparison `schedule vs. local nodes` is
    the diagnostic, a local omission must not be able to switch it off"""
    m = c.model
    f = m.inlined(m.func(D + "partition.find_distributed_partition"))
    comm = f.args.args[0].arg
    glob = set()
    for a in ast.walk(f):
        if isinstance(a, ast.Assign) and isinstance(a.value, ast.Call) \
                and ast.unparse(a.value.func) in (f"{comm}.bcast", f"{comm}.allreduce",
                                                   "_schedule_task_batches"):
            glob |= {t.id for t in a.targets if isinstance(t, ast.Name)}
    changed = True
    while changed:
        changed = False
        for a in ast.walk(f):
            if isinstance(a, ast.Assign) and isinstance(a.value, ast.Name) \
                    and a.value.id in glob:
                for t in a.targets:
                    if isinstance(t, ast.Name) and t.id not in glob:
                        glob.add(t.id)
                        changed = True
    # statement loops and comprehension generators alike
    loops = [l for l in ast.walk(f) if isinstance(l, (ast.For, ast.comprehension))
             and isinstance(l.iter, ast.Name) and l.iter.id in glob]
    if not loops:
        raise AnalysisError("anchor vanished: loop over the broadcast schedule")
    for l in loops:
        p = l._parent
        ch = l
        tests = []
        while p is not f:
            if isinstance(p, ast.If) and ch in p.body:
                tests.append(p.test)
            ch, p = p, p._parent
        local = sorted({n.id for t in tests for n in ast.walk(t) if isinstance(n, ast.Name)
                        and n.id not in glob and n.id != "__debug__"})
        c.check(not local, "R10-RAISE-REACH",
                "distributed.partition.find_distributed_partition",
                f"schedule-loop-guarded-by-global-values-only:for {m.frag(l.target, 20)} in "
                f"{l.iter.id}", m.loc(m.module_of(f), l),
                f"the loop over the broadcast schedule `{l.iter.id}` is skipped depending on "
                f"rank-local data ({local}): a rank that lost its only send/receive builds no "
                "parts, so the missing-send/missing-receive comparison has nothing to check")


def r_state(c):
    """partitioning the same (correct) program twice gives the same verdict"""
    from pta.rules.common import check_no_shared_state
    check_no_shared_state(
        c, "R10-STATE", [D + "partition", D + "verify", D + "tags", D + "nodes"],
        "a second partitioning in the same process sees the identifiers of the first "
        "(a correct program is then rejected, e.g. with a spurious CycleError)")


def r_no_pending_receive_dropped(c):
    """turning the broadcast schedule into local parts: the receives of one batch are
    held back for the NEXT part.  At the end of an iteration the holder is overwritten,
    so an iteration that opens no part must be one in which the holder is known to be
    empty -- otherwise the held receives are lost, and a correct program is rejected
    on this rank (KeyError / missing receive) while its peers wait.  Decided on the
    case table of one iteration (pta/symrun.py)."""
    m = c.model
    import re
    from pta import symrun
    f0 = m.func("pytato.distributed.partition.find_distributed_partition")
    f = m.inlined(f0)
    where = m.loc(m.module_of(f0), f0)
    name = "distributed.partition.find_distributed_partition"
    found = 0
    for loop in ast.walk(f):
        if not (isinstance(loop, ast.For) and isinstance(loop.iter, ast.Name)
                and isinstance(loop.target, ast.Name) and len(loop.body) >= 2):
            continue
        # the holder: a name re-assigned at the end of the body from the batch alone,
        # and read by an append of a part in the body
        last = loop.body[-1]
        if not (isinstance(last, (ast.Assign, ast.AnnAssign))):
            continue
        tgt = last.targets[0] if isinstance(last, ast.Assign) else last.target
        if not isinstance(tgt, ast.Name):
            continue
        holder = tgt.id
        # (recognised by shape, not by names: the holder is read by an append in the
        # body and refilled from the loop variable)
        reads = any(isinstance(x, ast.Call) and isinstance(x.func, ast.Attribute)
                    and x.func.attr == "append" and any(
                        isinstance(y, ast.Name) and y.id == holder for y in ast.walk(x))
                    for st in loop.body[:-1] for x in ast.walk(st))
        refilled = any(isinstance(y, ast.Name) and y.id == loop.target.id
                       for y in ast.walk(last.value))
        if not (reads and refilled):
            continue
        if any(isinstance(x, ast.Name) and x.id == holder for x in ast.walk(last.value)):
            raise AnalysisError("R10-RAISE-REACH: the holder of pending receives is updated "
                                "from its own value; cannot decide by cases")
        try:
            tbl_ = symrun.table(loop.body[:-1], lambda t: None)
        except AnalysisError:
            raise AnalysisError("R10-RAISE-REACH: case explosion in the batches-to-parts loop")
        found += 1
        for cs, ev in tbl_.items():
            cs = dict(cs)
            appends = [e for e in ev if e[0] == "call" and e[1].endswith(".append")
                       and any(re.search(r"\b" + re.escape(holder) + r"\b", a)
                               for a in e[2])]
            if appends:
                continue
            c.check(cs.get(holder) is False, "R10-RAISE-REACH", name,
                    f"no-part-opened-only-if-no-receive-pending:{sorted(cs.items())}", where,
                    f"in the case {sorted(cs.items())} an iteration over the schedule opens no "
                    f"part although `{holder}` (the receives held back from the previous "
                    "batch) is not known to be empty; it is overwritten at the end of the "
                    "iteration: those receives belong to no part, a correct program is "
                    "rejected on this rank while its peers wait")
    # (a hazard rule: where no loop holds receives back in a variable that it
    # overwrites -- the parts built by zipping the batches' receives and sends, say --
    # there is nothing that could be dropped this way)
    c.ok("R10-RAISE-REACH", name, f"holder-loops-examined:{found}", where, nontrivial=False)


def r_every_receive_is_an_edge(c):
    """the verifier's part graph has an edge 'receiving part needs sending part' for
    EVERY receive whose send was found -- whether or not the part reads the received
    name itself: waiting for a message blocks the part either way, and a cross-rank
    wait cycle through a receive that only a later part reads is a deadlock all the
    same.  Case table of one iteration of the loop over a part's receives: every case
    that does not raise adds the edge."""
    m = c.model
    from pta import symrun
    f0 = m.func("pytato.distributed.verify.verify_distributed_partition")
    where = m.loc(m.module_of(f0), f0)
    found = 0
    # the loop, by role: the innermost loop around the lookup whose failure is
    # reported as MissingSendError
    loops = []
    for t in ast.walk(f0):
        if isinstance(t, ast.Try) and any(
                isinstance(r, ast.Raise) and r.exc is not None
                and "MissingSendError" in ast.unparse(r.exc)
                for h in t.handlers for r in ast.walk(h)):
            par = getattr(t, "_parent", None)
            while par is not None and not isinstance(par, (ast.For, ast.FunctionDef)):
                par = getattr(par, "_parent", None)
            if isinstance(par, ast.FunctionDef) and par is not f0:
                # the lookup sits in a local helper: the loops that call the helper
                for call in ast.walk(f0):
                    if isinstance(call, ast.Call) and isinstance(call.func, ast.Name) \
                            and call.func.id == par.name:
                        q = getattr(call, "_parent", None)
                        while q is not None and not isinstance(q, ast.For):
                            q = getattr(q, "_parent", None)
                        if q is not None and q not in loops:
                            loops.append(q)
            elif isinstance(par, ast.For) and par not in loops:
                loops.append(par)
    for loop in loops:
        found += 1
        try:
            tbl_ = symrun.table(loop.body, lambda t: None)
        except AnalysisError:
            raise AnalysisError("R10-CYCLE: case explosion in the loop over a part's receives")
        for cs, ev in tbl_.items():
            if any(e == ("exit", "raise") for e in ev):
                continue
            edge = any(e[0] == "call" and "needed_pid" in e[1] for e in ev)
            c.check(edge, "R10-CYCLE", "distributed.verify.verify_distributed_partition",
                    f"receive-adds-edge-to-sending-part:{sorted(cs)}", where,
                    f"in the case {sorted(cs)} a receive whose send was found adds no edge "
                    "from the receiving part to the sending part: a wait cycle across ranks "
                    "through that receive is not reported (PartitionInducedCycleError) and a "
                    "deadlocking partition is accepted")
    if not found:
        raise AnalysisError("anchor vanished: loop around the lookup whose failure raises "
                            "MissingSendError")

SPEC = Spec(
    prop="C10",
    rules=[r_raise_reach, r_check_before_insert, r_who_may_construct, r_cycle, r_no_reinit,
           r_global_guards, r_state, r_no_pending_receive_dropped,
           r_every_receive_is_an_edge],
    floors={"R10-RAISE-REACH": 6, "R10-CHECK-BEFORE-INSERT": 9, "R10-SELF": 2,
            "R10-CYCLE": 4, "R10-STATE": 2},
    explanation=(
        "Decides code-shape conditions, not 'every malformed pattern is caught'. "
        "R10-RAISE-REACH: each diagnostic the property names has a raise site "
        "reachable in the call graph from find_distributed_partition / "
        "verify_distributed_partition, and no handler on that path swallows it. "
        "R10-CHECK-BEFORE-INSERT (dominance on every path): every insertion into a "
        "send/receive identifier table is preceded by a raising membership test on "
        "the same key; missing sends/receives raise. R10-SELF: communication "
        "identifiers are built only by the helpers that reject the local rank "
        "first. R10-CYCLE: the dependency-level search tests, marks, then recurses "
        "and raises on a revisit; the root broadcasts the exception before "
        "re-raising and the others raise what they receive; part cycles are "
        "converted to PartitionInducedCycleError; no entry of the part-graph "
        "accumulator is assigned after edges were added to it in the same "
        "iteration; the allreduce operator merging the ranks' dependency tables is "
        "a key-wise union. The test-then-insert window of a duplicate test contains "
        "no recursion into children (R10-CHECK-BEFORE-INSERT); the loop over the "
        "broadcast schedule is guarded by globally agreed values only "
        "(R10-RAISE-REACH); on the case table of one iteration of that loop, no part is "
        "opened only in cases that say the receives held back from the previous batch "
        "are empty (R10-RAISE-REACH); every non-raising case of the verifier's loop over "
        "a part's receives adds the edge to the sending part (R10-CYCLE). R10-STATE: the partitioner and the verifier keep no "
        "state that outlives a call (mutable default arguments, mutated class- or "
        "module-level containers), so that partitioning a correct program a second "
        "time gives the same verdict (canary fixture)."),
    not_decided=(
        "That every malformed communication pattern is caught and no well-formed one "
        "is rejected (a for-all over fault positions and topologies)."),
)
