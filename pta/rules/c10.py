"""C10 -- mismatched or cyclic communication is diagnosed (code-shape conditions)."""
from __future__ import annotations

import ast

from pta import paths as P
from pta.check import Spec
from pta.model import AnalysisError
from pta.rules.common import short

D = "pytato.distributed."
ENTRY = [D + "partition.find_distributed_partition", D + "verify.verify_distributed_partition"]
DIAGS = ["DuplicateSendError", "DuplicateRecvError", "MissingSendError", "MissingRecvError",
         "CycleError", "PartitionInducedCycleError"]


def call_graph(m, roots, depth=6):
    """functions reachable from roots (name-based resolution inside the
    distributed package, mapper classes instantiated included)"""
    seen = {}
    work = [(r, 0) for r in roots]
    while work:
        qn, d = work.pop()
        if qn in seen or d > depth:
            continue
        try:
            fd = m.func(qn)
        except AnalysisError:
            continue
        seen[qn] = fd
        mi = m.module_of(fd)
        for call in ast.walk(fd):
            if not isinstance(call, ast.Call):
                continue
            f = call.func
            nm = ast.unparse(f)
            tgt = None
            if isinstance(f, ast.Name):
                tgt = m.resolve_name(mi.name, f.id)
            elif isinstance(f, ast.Attribute) and isinstance(f.value, ast.Name) \
                    and f.value.id == "self":
                cls = m.enclosing_class(fd)
                if cls is not None:
                    cq = next((q for q, ci in m.classes.items() if ci.node is cls), None)
                    r = m.resolve_method(cq, f.attr) if cq else None
                    if r:
                        tgt = f"{r[0]}.{f.attr}"
            if tgt in m.classes:
                # instantiating a mapper: all its handlers become reachable
                for c2 in m.mro(tgt):
                    if c2.startswith(D):
                        for mn in m.classes[c2].methods:
                            work.append((f"{c2}.{mn}", d + 1))
            elif tgt:
                work.append((tgt, d + 1))
    return seen


def r_raise_reach(c):
    m = c.model
    cg = call_graph(m, ENTRY)
    c.units["call_graph_functions"] = len(cg)
    if len(cg) < 15:
        raise AnalysisError(f"call graph from the entry points has only {len(cg)} functions")
    raised = {}
    for qn, fd in cg.items():
        for r in ast.walk(fd):
            if isinstance(r, ast.Raise) and r.exc is not None:
                t = ast.unparse(r.exc.func) if isinstance(r.exc, ast.Call) else ast.unparse(r.exc)
                raised.setdefault(t.split(".")[-1], []).append((qn, r))
    for d in DIAGS:
        sites = raised.get(d, [])
        c.check(bool(sites), "R10-RAISE-REACH", "partition/verify call graph", f"raises:{d}",
                m.loc(m.module_of(sites[0][1]), sites[0][1]) if sites else "",
                f"no raise site for {d} is reachable from find_distributed_partition / "
                "verify_distributed_partition: the condition it reports goes "
                "undiagnosed",
                ok_detail=f"{len(sites)} site(s): " + ", ".join(
                    s[0].replace("pytato.distributed.", "") for s in sites[:3]))
    # self-communication
    for fn, what in (("_send_to_comm_id", "Self-sends"), ("_recv_to_comm_id", "Self-receives")):
        qn = D + "partition." + fn
        fd = m.func(qn)
        ok = qn in cg and any(
            isinstance(i, ast.If) and "local_rank ==" in ast.unparse(i.test)
            and any(isinstance(s, ast.Raise) for s in i.body) for i in ast.walk(fd))
        # the test precedes the construction of the identifier
        def cl(n):
            if isinstance(n, ast.Raise):
                return "RAISE"
            if isinstance(n, ast.Call) and ast.unparse(n.func) == "CommunicationOpIdentifier":
                return "MAKE"
            if isinstance(n, ast.Compare) and "local_rank" in ast.unparse(n):
                return "TEST"
            return None
        ps = P.walk(fd, cl)
        bad = P.precedes(ps, "TEST", "MAKE")
        c.check(ok and not bad, "R10-SELF", f"distributed.partition.{fn}",
                "rejects-own-rank-before-building-id", m.loc(m.module_of(fd), fd),
                f"{what} are not rejected before the communication identifier is built")
    # none of the diagnostics is swallowed on the way up
    n_h = 0
    for qn, fd in cg.items():
        for h in ast.walk(fd):
            if not isinstance(h, ast.ExceptHandler):
                continue
            t = ast.unparse(h.type) if h.type is not None else "<bare>"
            catches = t in ("<bare>", "Exception", "BaseException") or any(
                d in t for d in DIAGS + ["NotImplementedError", "ValueError"])
            if not catches:
                continue
            n_h += 1
            reraises = any(isinstance(s, ast.Raise) for s in ast.walk(h))
            c.check(reraises, "R10-RAISE-REACH", qn.replace("pytato.", "", 1),
                    f"except {t}:re-raises", m.loc(m.module_of(fd), h),
                    f"a handler for {t} on the partitioning path does not re-raise: a "
                    "diagnostic can be swallowed")
    if n_h < 2:
        raise AnalysisError(f"only {n_h} relevant exception handlers found (floor 2)")


def _self_tbl(n):
    return isinstance(n, ast.Attribute) and isinstance(n.value, ast.Name) and n.value.id == "self"


def r_check_before_insert(c):
    m = c.model
    G = D + "partition._LocalSendRecvDepGatherer"
    specs = [(G + ".map_distributed_send_ref_holder", "self.local_send_id_to_send_node", "send_id"),
             (G + ".map_distributed_recv", "self.local_recv_id_to_recv_node", "recv_id"),
             (D + "verify.verify_distributed_partition", "comm_id_to_sending_pid", "comm_id"),
             (D + "verify.verify_distributed_partition", "all_recvs", "comm_id")]
    for qn, tbl, key in specs:
        fd = m.func(qn)

        def cl(n, tbl=tbl, key=key):
            if isinstance(n, ast.Compare) and len(n.ops) == 1 and isinstance(n.ops[0], ast.In) \
                    and ast.unparse(n.left) == key and ast.unparse(n.comparators[0]) == tbl:
                return "TEST"
            if isinstance(n, ast.Subscript) and isinstance(n.ctx, ast.Store) \
                    and ast.unparse(n.value) == tbl and ast.unparse(n.slice) == key:
                return "INSERT"
            if isinstance(n, ast.Call) and ast.unparse(n.func) == f"{tbl}.add" \
                    and n.args and ast.unparse(n.args[0]) == key:
                return "INSERT"
            return None
        ps = P.walk(fd, cl)
        where = m.loc(m.module_of(fd), fd)
        has = any("INSERT" in e for e, _x in ps)
        # within one loop iteration: each INSERT directly preceded by a TEST since
        # the previous INSERT
        bad = []
        for e, _x in ps:
            seen_test = False
            for lab in e:
                if lab == "TEST":
                    seen_test = True
                elif lab == "INSERT":
                    if not seen_test:
                        bad.append(e)
                        break
                    seen_test = False
        c.check(has and not bad, "R10-CHECK-BEFORE-INSERT", qn.replace("pytato.", "", 1),
                f"{tbl}[{key}]", where,
                f"an insertion into {tbl} is not preceded by a membership test on the "
                "same key: a duplicate would silently overwrite the first entry")
        # the membership test raises
        ok = any(isinstance(i, ast.If) and cl(i.test) == "TEST"
                 and any(isinstance(s, ast.Raise) for s in i.body) for i in ast.walk(fd))
        c.check(ok, "R10-CHECK-BEFORE-INSERT", qn.replace("pytato.", "", 1),
                f"{tbl}[{key}]:duplicate-raises", where,
                f"finding {key} already in {tbl} does not raise")
    # missing send / missing receive
    v = m.func(D + "verify.verify_distributed_partition")
    vs = ast.unparse(v)
    c.check("except KeyError as err:" in vs and "raise MissingSendError" in vs
            and "comm_id_to_sending_pid[comm_id]" in vs, "R10-CHECK-BEFORE-INSERT",
            "distributed.verify.verify_distributed_partition", "recv-without-send-raises",
            m.loc(m.module_of(v), v), "a receive without a matching send is not diagnosed")
    c.check("for s in comm_id_to_sending_pid:" in vs and "if s not in all_recvs:" in vs
            and "raise MissingRecvError" in vs, "R10-CHECK-BEFORE-INSERT",
            "distributed.verify.verify_distributed_partition", "send-without-recv-raises",
            m.loc(m.module_of(v), v), "a send without a matching receive is not diagnosed")
    f = m.func(D + "partition.find_distributed_partition")
    fs = ast.unparse(f)
    c.check("if recv_id not in lsrdg.local_recv_id_to_recv_node:" in fs
            and "raise MissingRecvError" in fs
            and "if send_id not in lsrdg.local_send_id_to_send_node:" in fs
            and "raise MissingSendError" in fs, "R10-CHECK-BEFORE-INSERT",
            "distributed.partition.find_distributed_partition", "scheduled-ids-exist-locally",
            m.loc(m.module_of(f), f),
            "a communication id scheduled for this rank without a local node is not "
            "diagnosed")


def r_who_may_construct(c):
    """comm identifiers for local nodes are built only by the rejecting helpers"""
    m = c.model
    mi = m.module(D + "partition")
    allowed = {"_send_to_comm_id", "_recv_to_comm_id"}
    n = 0
    for _mi, fd in m.all_functions(modules=[D + "partition"]):
        for call in ast.walk(fd):
            if isinstance(call, ast.Call) and ast.unparse(call.func) == "CommunicationOpIdentifier":
                n += 1
                owner = m.enclosing_function(call)
                c.check(owner is not None and owner.name in allowed, "R10-SELF",
                        m.qualname(fd).replace("pytato.", "", 1),
                        f"constructs-CommunicationOpIdentifier:{m.frag(call, 30)}",
                        m.loc(mi, call),
                        "a communication identifier is built outside _send_to_comm_id / "
                        "_recv_to_comm_id, bypassing the self-communication check")
    if n < 2:
        raise AnalysisError("anchor vanished: CommunicationOpIdentifier constructions")


def r_cycle(c):
    m = c.model
    fd = m.func(D + "partition._calculate_dependency_levels")
    src = ast.unparse(fd)
    where = m.loc(m.module_of(fd), fd)
    inner = [x for x in ast.walk(fd) if isinstance(x, ast.FunctionDef) and x is not fd][0]

    def cl(n):
        if isinstance(n, ast.Compare) and ast.unparse(n) == "task_id in task_to_dep_level":
            return "DONE?"
        if isinstance(n, ast.Compare) and ast.unparse(n) == "task_id in seen":
            return "SEEN?"
        if isinstance(n, ast.Call) and ast.unparse(n.func) == "seen.add":
            return "MARK"
        if isinstance(n, ast.Call) and ast.unparse(n.func) == inner.name:
            return "RECURSE"
        return None
    ps = P.walk(inner, cl)
    bad = P.precedes(ps, "MARK", "RECURSE") + P.precedes(ps, "SEEN?", "MARK")
    c.check(not bad and any("RECURSE" in e for e, _x in ps), "R10-CYCLE",
            "distributed.partition._calculate_dependency_levels",
            "seen-test-then-mark-then-recurse", where,
            "the depth-first search does not test and mark a node before recursing into "
            "its dependencies: a cycle recurses forever or goes unnoticed")
    c.check("if task_id in seen:" in src and "raise CycleError" in src, "R10-CYCLE",
            "distributed.partition._calculate_dependency_levels", "revisit-raises-CycleError",
            where, "revisiting a node whose level is unknown does not raise CycleError")
    f = m.func(D + "partition.find_distributed_partition")
    # exception of the root is broadcast before it is re-raised (R09 checks sequences)
    ok = False
    for h in ast.walk(f):
        if isinstance(h, ast.ExceptHandler) and h.type is not None and ast.unparse(h.type) == "Exception":
            b = [ast.unparse(s) for s in h.body]
            ok = len(b) == 2 and b[0].startswith("mpi_communicator.bcast(") and b[1] == "raise"
    c.check(ok, "R10-CYCLE", "distributed.partition.find_distributed_partition",
            "root-broadcasts-exception-then-reraises", m.loc(m.module_of(f), f),
            "the root does not broadcast the scheduling exception before re-raising it: "
            "the other ranks hang in bcast or continue without a schedule")
    c.check("if isinstance(comm_batches_or_exc, Exception):" in ast.unparse(f)
            and "raise comm_batches_or_exc" in ast.unparse(f), "R10-CYCLE",
            "distributed.partition.find_distributed_partition", "others-raise-what-they-receive",
            m.loc(m.module_of(f), f), "non-root ranks do not raise the broadcast exception")
    v = m.func(D + "verify.verify_distributed_partition")
    vs = ast.unparse(v)
    c.check("compute_topological_order(pid_to_needed_pids)" in vs and "except CycleError as err:" in vs
            and "raise PartitionInducedCycleError from err" in vs, "R10-CYCLE",
            "distributed.verify.verify_distributed_partition", "cycle-among-parts-diagnosed",
            m.loc(m.module_of(v), v),
            "a cycle among the parts of all ranks is not converted into "
            "PartitionInducedCycleError")


SPEC = Spec(
    prop="C10",
    rules=[r_raise_reach, r_check_before_insert, r_who_may_construct, r_cycle],
    floors={"R10-RAISE-REACH": 8, "R10-CHECK-BEFORE-INSERT": 11, "R10-SELF": 4, "R10-CYCLE": 5},
    explanation=(
        "Decides code-shape conditions, not 'every malformed pattern is caught'. "
        "R10-RAISE-REACH: each diagnostic the property names has a raise site "
        "reachable in the call graph from find_distributed_partition / "
        "verify_distributed_partition, and no handler on that path swallows it. "
        "R10-CHECK-BEFORE-INSERT (dominance on every path): every insertion into a "
        "send/receive identifier table is preceded by a raising membership test on "
        "the same key; missing sends/receives raise. R10-SELF: communication "
        "identifiers are built only by the helpers that reject the local rank "
        "first. R10-CYCLE: the dependency-level search tests, marks, then recurses "
        "and raises on a revisit; the root broadcasts the exception before "
        "re-raising and the others raise what they receive; part cycles are "
        "converted to PartitionInducedCycleError."),
    not_decided=(
        "That every malformed communication pattern is caught and no well-formed one "
        "is rejected (a for-all over fault positions and topologies)."),
)
