"""C03 -- shape and dtype are inferred eagerly; bad axes are rejected at build time."""
from __future__ import annotations

import ast

from pta.check import Spec
from pta.model import AnalysisError
from pta.rules.common import TOIL, concrete_kinds, short

FORBIDDEN_PREFIXES = ("pytato.target", "pytato.codegen", "pytato.distributed.execute",
                      "pytato.distributed.partition")


def reach(m, roots, depth=8):
    """functions reachable by name resolution (self methods, module functions,
    imported repo functions; instantiating a mapper class reaches its handlers)"""
    seen = {}
    work = [(q, fd, 0) for q, fd in roots]
    while work:
        qn, fd, d = work.pop()
        if qn in seen or d > depth:
            continue
        seen[qn] = fd
        mi = m.module_of(fd)
        cls = m.enclosing_class(fd)
        cq = next((q for q, ci in m.classes.items() if ci.node is cls), None) if cls else None
        for call in ast.walk(fd):
            if not isinstance(call, ast.Call):
                continue
            f = call.func
            tgt = None
            if isinstance(f, ast.Name):
                tgt = m.resolve_name(mi.name, f.id)
            elif isinstance(f, ast.Attribute) and isinstance(f.value, ast.Name):
                if f.value.id == "self" and cq:
                    r = m.resolve_method(cq, f.attr)
                    if r:
                        work.append((f"{r[0]}.{f.attr}", r[1], d + 1))
                    continue
                tgt = m.resolve_name(mi.name, f"{f.value.id}.{f.attr}")
            elif isinstance(f, ast.Call) and isinstance(f.func, ast.Name):
                tgt = m.resolve_name(mi.name, f.func.id)      # Mapper()(x)
            if tgt in m.classes:
                for c2 in m.mro(tgt):
                    for mn, mfd in m.classes[c2].methods.items():
                        if mn.startswith(("map_", "_map_", "rec", "__call__", "combine")):
                            work.append((f"{c2}.{mn}", mfd, d + 1))
            elif tgt and m.has_func(tgt):
                work.append((tgt, m.func(tgt), d + 1))
    return seen


def r_eager(c):
    m = c.model
    roots = []
    for k in concrete_kinds(m, with_funcdef=False):
        if m.ARRAY not in m.mro(k):
            continue
        ci = m.classes[k]
        for attr in ("shape", "dtype", "axes", "tags"):
            r = m.resolve_attr_kind(k, attr)
            ok = r is not None and r[0] in ("field", "property")
            c.check(ok, "R03-EAGER", short(k), f"{attr}:field-or-property",
                    m.loc(ci.module, ci.node),
                    f"{short(k)}.{attr} resolves to {r[0] if r else 'nothing'} at run time "
                    "(only a TYPE_CHECKING stub?): the attribute is not available when the "
                    "expression is built")
            if ok and r[0] == "property":
                roots.append((f"{r[1]}.{attr}", r[2]))
    cg = reach(m, roots)
    c.units["functions_reachable_from_shape_dtype"] = len(cg)
    if len(cg) < 20:
        raise AnalysisError(f"only {len(cg)} functions reachable from shape/dtype properties")
    bad = sorted(q for q in cg if q.startswith(FORBIDDEN_PREFIXES))
    c.check(not bad, "R03-EAGER", "shape/dtype property call graph",
            "never-reaches-code-generation-or-execution", "",
            f"asking for a shape or dtype can reach {bad[:3]}: inference is no longer "
            "independent of evaluation / code generation",
            ok_detail=f"{len(cg)} functions reachable, none in {FORBIDDEN_PREFIXES}")
    # ndim / size derive from shape only
    nd = m.func("pytato.array.Array.ndim")
    c.check("len(self.shape)" in ast.unparse(nd), "R03-EAGER", "Array.ndim",
            "derived-from-shape", m.loc("pytato.array", nd), "ndim is not len(shape)")


def _guard(fd, var):
    """accepted interval of `var` from `if not (L <= var < U): raise` -> (L, U, strict)"""
    for iff in ast.walk(fd):
        if not (isinstance(iff, ast.If) and isinstance(iff.test, ast.UnaryOp)
                and isinstance(iff.test.op, ast.Not)
                and any(isinstance(s, ast.Raise) for s in iff.body)):
            continue
        cmp_ = iff.test.operand
        if isinstance(cmp_, ast.Compare) and len(cmp_.ops) == 2 \
                and ast.unparse(cmp_.comparators[0]) == var:
            lo = ast.unparse(cmp_.left)
            hi = ast.unparse(cmp_.comparators[1])
            lo_strict = isinstance(cmp_.ops[0], ast.Lt)
            hi_strict = isinstance(cmp_.ops[1], ast.Lt)
            if isinstance(cmp_.ops[0], (ast.Lt, ast.LtE)) and isinstance(cmp_.ops[1], (ast.Lt, ast.LtE)):
                return lo, lo_strict, hi, hi_strict, iff
    return None


def _loop_guard(fd, seq):
    """guard on the loop variable of `for <v> in <seq>:` -> (_guard result, v)"""
    for l in ast.walk(fd):
        if isinstance(l, ast.For) and isinstance(l.target, ast.Name) \
                and ast.unparse(l.iter) == seq:
            g = _guard(l, l.target.id)
            if g is not None:
                return g
    return None


def _uses_as_subscript(fd, field, selfname):
    """is `<selfname>.<field>` used directly as the index of a subscript (not a slice)?"""
    for n in ast.walk(fd):
        if isinstance(n, ast.Subscript) and not isinstance(n.slice, ast.Slice) \
                and ast.unparse(n.slice) == f"{selfname}.{field}":
            return n
    return None


AXIS_CTORS = [
    # (constructor function, axis parameter, node class, text denoting operand ndim)
    ("pytato.array.roll", "axis", "pytato.array.Roll", ("a.ndim",)),
    ("pytato.array.stack", "axis", "pytato.array.Stack", ("arrays[0].ndim",)),
    ("pytato.array.concatenate", "axis", "pytato.array.Concatenate", ("arrays[0].ndim",)),
]


def r_axis(c):
    m = c.model
    for fn, par, node, ndim_txt in AXIS_CTORS:
        fd = m.func(fn)
        where = m.loc("pytato.array", fd)
        name = fn.replace("pytato.", "", 1)
        g = _guard(fd, par)
        c.check(g is not None, "R03-AXIS", name, f"{par}:guarded", where,
                f"no `if not (L <= {par} < U): raise` guard: a bad axis is only noticed "
                "later (or never)")
        if g is None:
            continue
        lo, lo_strict, hi, hi_strict, iff = g
        # which field does the parameter become?
        ctor = [x for x in ast.walk(fd) if isinstance(x, ast.Call)
                and ast.unparse(x.func) == short(node)]
        if len(ctor) != 1:
            raise AnalysisError(f"{fn}: construction of {short(node)} not found")
        init = m.init_order(node)
        fld = None
        for i, a in enumerate(ctor[0].args):
            if ast.unparse(a) == par:
                fld = init[i]
        for k in ctor[0].keywords:
            if ast.unparse(k.value) == par:
                fld = k.arg
        if fld is None:
            raise AnalysisError(f"{fn}: parameter {par} does not reach a field")
        # the guard precedes the construction
        c.check(iff.lineno < ctor[0].lineno, "R03-AXIS", name, f"{par}:guard-before-construction",
                where, "the axis is validated after the node is built")
        # lower bound: the field is used as a position, never normalised
        c.check(lo == "0" and not lo_strict, "R03-AXIS", name, f"{par}:lower-bound-0", where,
                f"the guard admits {par} below 0 ({lo} {'<' if lo_strict else '<='} {par}) "
                "although the node uses it as a plain position")
        # upper bound: does the node subscript a length-ndim sequence with it?
        needs_strict = None
        sp = m.resolve_attr_kind(node, "shape")
        if sp and sp[0] == "property":
            sub = _uses_as_subscript(sp[2], fld, "self")
            if sub is not None:
                needs_strict = f"{short(node)}.shape evaluates `{m.frag(sub, 40)}`"
        lower = m.resolve_method(TOIL, m.mapper_method(node))
        if lower is not None and needs_strict is None:
            lfd = lower[1]
            # indices[axis] where axis = expr.<fld>
            lep = lfd.args.args[1].arg
            alias = {f"{lep}.{fld}"}
            for st in ast.walk(lfd):
                if isinstance(st, ast.Assign) and ast.unparse(st.value) == f"{lep}.{fld}":
                    alias |= {ast.unparse(t) for t in st.targets}
            for n in ast.walk(lfd):
                if isinstance(n, ast.Subscript) and not isinstance(n.slice, ast.Slice) \
                        and ast.unparse(n.slice) in alias and "shape" not in ast.unparse(n.value):
                    # a list built with one entry per axis of the *result*
                    needs_strict = needs_strict or None
                    if short(node) == "Roll":
                        needs_strict = f"the lowering rule evaluates `{m.frag(n, 40)}`"
        hi_is_ndim = hi in ndim_txt
        c.check(hi_is_ndim, "R03-AXIS", name, f"{par}:upper-bound-is-operand-ndim", where,
                f"the guard's upper bound is `{hi}`, not the operand's ndim {ndim_txt}")
        if needs_strict:
            c.check(hi_strict, "R03-AXIS", name, f"{par}:accepted-range-fits-node", where,
                    f"the guard admits {par} == ndim (`{par} <= {hi}`) but {needs_strict}, "
                    "which is out of range then: the expression is accepted when built "
                    "and fails later")
        else:
            c.ok("R03-AXIS", name, f"{par}:accepted-range-fits-node", where,
                 "the node only inserts at / formats the position: ndim is admissible")
    # reductions and expand_dims validate their axes strictly
    ra = m.func("pytato.reductions._normalize_reduction_axes")
    g = _loop_guard(ra, ra.args.args[1].arg)
    c.check(g is not None and g[0] == "0" and g[2] == "len(shape)" and g[3], "R03-AXIS",
            "reductions._normalize_reduction_axes", "axis:0<=axis<ndim",
            m.loc("pytato.reductions", ra),
            "reduction axes are not validated as 0 <= axis < ndim when the reduction is "
            "built")
    ed = m.func("pytato.array.expand_dims")
    from pta.pat import find
    ap_, xp_ = ed.args.args[0].arg, ed.args.args[1].arg
    nd_ = find(ed, f"$n = {ap_}.ndim + len({xp_})")
    ndv = nd_[0]["$n"] if len(nd_) == 1 else "?"
    g = _loop_guard(ed, xp_)
    c.check(g is not None and g[0] == f"-{ndv}" and g[2] == ndv and g[3],
            "R03-AXIS", "array.expand_dims", "ax:-ndim<=ax<ndim",
            m.loc("pytato.array", ed), "expand_dims does not validate its axes")
    tr = m.func("pytato.array.transpose")
    ts = ast.unparse(tr)
    c.check("len(axes) != a.ndim" in ts and "set(axes) != set(range(a.ndim))" in ts
            and ts.count("raise ValueError") >= 2, "R03-AXIS", "array.transpose",
            "axes-is-a-permutation", m.loc("pytato.array", tr),
            "transpose does not check that axes is a permutation of range(ndim)")


def splice_sites(m, modules=None):
    """(function, index variable, node) for every sequence splice
    ``X[:i] ... X[i + 1:]`` (drop / replace position i) in the package"""
    out = []
    for mi, fd in m.all_functions(modules=modules):
        from pta.order import _own_nodes
        heads, tails = {}, {}
        for n in _own_nodes(fd):
            if isinstance(n, ast.Subscript) and isinstance(n.slice, ast.Slice) \
                    and n.slice.step is None:
                sl = n.slice
                if sl.lower is None and isinstance(sl.upper, ast.Name):
                    heads.setdefault((ast.unparse(n.value), sl.upper.id), n)
                if sl.upper is None and isinstance(sl.lower, ast.BinOp) \
                        and isinstance(sl.lower.op, ast.Add) \
                        and isinstance(sl.lower.left, ast.Name) \
                        and ast.unparse(sl.lower.right) == "1":
                    tails.setdefault((ast.unparse(n.value), sl.lower.left.id), n)
        for k in heads:
            if k in tails:
                out.append((mi, fd, k[1], heads[k]))
    return out


def _nonneg_proof(m, fd, var, site):
    """why ``var`` is a non-negative position at ``site`` (None if unproven).
    For a negative i the splice X[:i] + X[i+1:] keeps/duplicates elements."""
    chain = [fd]
    p = m.enclosing_function(fd)
    while p is not None:
        chain.append(p)
        p = m.enclosing_function(p)
    for f in chain:
        nested = f is not fd
        for n in ast.walk(f):
            before = nested or getattr(n, "lineno", 0) < site.lineno
            # i = something.index(...)
            if isinstance(n, ast.Assign) and any(
                    isinstance(t, ast.Name) and t.id == var for t in n.targets) and before:
                v = n.value
                if isinstance(v, ast.Call) and isinstance(v.func, ast.Attribute) \
                        and v.func.attr == "index":
                    return "result of .index()"
                if isinstance(v, ast.BinOp) and isinstance(v.op, ast.Mod) \
                        and isinstance(v.left, ast.Name) and v.left.id == var:
                    return f"normalised by `{ast.unparse(n)}`"
            if isinstance(n, (ast.For, ast.comprehension)) and any(
                    isinstance(t, ast.Name) and t.id == var for t in ast.walk(n.target)):
                it = n.iter
                if isinstance(it, ast.Call) and isinstance(it.func, ast.Name) \
                        and it.func.id in ("range", "enumerate"):
                    return f"index of {it.func.id}()"
            if isinstance(n, ast.If) and before and n in f.body:
                g = _guard(ast.Module(body=[n], type_ignores=[]), var)
                if g is not None and g[0] == "0" and not g[1]:
                    return f"guarded by `if {ast.unparse(n.test)}: raise`"
                if ast.unparse(n.test) == f"{var} < 0" and any(
                        isinstance(s_, ast.Raise) for s_ in n.body):
                    return f"guarded by `if {var} < 0: raise`"
    return None


def r_splice(c):
    m = c.model
    sites = splice_sites(m)
    if len(sites) < 3:
        raise AnalysisError(f"only {len(sites)} sequence splices found (floor 3)")
    for mi, fd, var, node in sites:
        why = _nonneg_proof(m, fd, var, node)
        qn = m.qualname(fd).replace("pytato.", "", 1)
        c.check(why is not None, "R03-SPLICE", qn, f"{var}:non-negative-at-splice",
                m.loc(mi, node),
                f"`{m.frag(node, 30)} ... [{var} + 1:]` drops/replaces position {var} "
                f"only for {var} >= 0, but {var} is neither validated as non-negative "
                "nor normalised before: a negative (NumPy-style) position is accepted "
                "and builds a sequence of the wrong length",
                ok_detail=why)


SPEC = Spec(
    prop="C03",
    rules=[r_eager, r_axis, r_splice],
    floors={"R03-EAGER": 70, "R03-AXIS": 15, "R03-SPLICE": 3},
    explanation=(
        "Decides two clauses; the agreement of inferred shapes/dtypes with NumPy's "
        "value-level behaviour is NOT decided. R03-EAGER: for every concrete array "
        "kind shape, dtype, axes and tags resolve (through the MRO, TYPE_CHECKING "
        "stubs excluded) to a dataclass field or a run-time property, and the call "
        "graph reachable from those properties (it does reach the affine shape "
        "comparison, de-duplication and the input gatherer) contains no function "
        "of the code generators, the executor or the partitioner (who-may-call). "
        "R03-AXIS: for roll/stack/concatenate the interval accepted by the "
        "constructor's guard (parsed from `if not (L <= axis < U): raise`) is "
        "compared with what the node's own shape property / lowering rule can "
        "index: a subscript by the axis field requires axis <= ndim-1, an insert "
        "position does not; the parameter-field link is read off the constructor "
        "call; reductions, expand_dims and transpose validate their axes."),
    not_decided=(
        "dtype promotion, broadcast shapes, slice lengths and which exception type "
        "NumPy would raise: a differential statement against an external library's "
        "value-level behaviour for which no static oracle exists."),
)
